(* PathPrintProofs.v — C15: decimal printing vs int(), the parser's range,
   print-and-reparse, slice semantics. *)
From PBK Require Import Base PathParser PathGrammar PathProofs.
From Coq Require Import ZifyBool ZifyNat ZifyN.
Local Open Scope N_scope.

(* ------------------------------------------------------------------------- *)
(* decimal printing and int()                                                  *)
(* ------------------------------------------------------------------------- *)
Definition dstep (a : N) (c : char) : N := a * 10 + (c - 48).
Definition horner (acc : N) (ds : list char) : N := fold_left dstep ds acc.

Lemma scan_all_digits ds : forallb is_digit ds = true -> forall acc nd,
  scan_digits ds false acc nd = Some (horner acc ds, nd + N.of_nat (length ds), []).
Proof.
  induction ds as [|d ds IH]; intros H acc nd.
  - cbn. rewrite N.add_0_r. reflexivity.
  - cbn in H. apply Bool.andb_true_iff in H as [Hd Hs]. cbn [scan_digits]. rewrite Hd.
    rewrite (IH Hs). cbn [horner fold_left length]. unfold dstep at 2. f_equal. f_equal. f_equal. lia.
Qed.

(* the value of a scan is below 10^(number of digits) *)
Lemma scan_bound l : forall pu acc nd v nd' rest,
  scan_digits l pu acc nd = Some (v, nd', rest) -> acc < 10 ^ nd -> v < 10 ^ nd'.
Proof.
  induction l as [|c l IH]; intros pu acc nd v nd' rest H B; cbn [scan_digits] in H.
  - destruct pu; [discriminate|]. injection H as <- <- <-. exact B.
  - destruct (is_digit c) eqn:D.
    + apply IH in H; [exact H|]. rewrite N.pow_add_r. change (10 ^ 1) with 10.
      unfold is_digit in D. nia.
    + destruct (c =? ch_us).
      * destruct pu; [discriminate|]. now apply IH in H.
      * destruct pu; [discriminate|]. injection H as <- <- <-. exact B.
Qed.

Definition small (k : Z) : Prop := Z.abs_N k < 10 ^ max_str_digits.
Definition small_o (a : option Z) : Prop := match a with None => True | Some k => small k end.

Lemma py_int_small t k : py_int t = Some k -> small k.
Proof.
  unfold py_int.
  destruct (match lstrip is_ws t with
            | [] => (false, lstrip is_ws t)
            | c :: r => if c =? ch_minus then (true, r) else if c =? ch_plus then (false, r) else (false, lstrip is_ws t)
            end) as [neg t2].
  destruct t2 as [|c t2]; [discriminate|]. destruct (c =? ch_us); [discriminate|].
  destruct (scan_digits (c :: t2) false 0 0) as [[[v nd] rest]|] eqn:S; [|discriminate].
  destruct (nd =? 0); [discriminate|]. destruct (negb (forallb is_ws rest)); [discriminate|].
  destruct (max_str_digits <? nd) eqn:M; [discriminate|]. intros H; injection H as <-.
  apply scan_bound in S; [|reflexivity]. unfold small.
  assert (10 ^ nd <= 10 ^ max_str_digits) by (apply N.pow_le_mono_r; lia).
  destruct neg; [rewrite Zabs2N.inj_opp|]; rewrite Zabs2N.id; lia.
Qed.

Lemma horner_app acc a d : horner acc (a ++ [d]) = horner acc a * 10 + (d - 48).
Proof. unfold horner. rewrite fold_left_app. reflexivity. Qed.

Lemma print_N_fuel_spec f : forall n, n < 2 ^ N.of_nat f ->
  forallb is_digit (print_N_fuel f n) = true /\ print_N_fuel f n <> [] /\
  horner 0 (print_N_fuel f n) = n /\
  (forall D, 1 <= D -> n < 10 ^ D -> N.of_nat (length (print_N_fuel f n)) <= D).
Proof.
  induction f as [|f IH]; intros n B.
  - change (2 ^ N.of_nat 0) with 1 in B. assert (n = 0) by lia. subst n. repeat split; try reflexivity; try discriminate. intros D HD _. cbn. lia.
  - cbn [print_N_fuel]. destruct (n <? 10) eqn:L.
    + unfold digit_char. repeat split; try discriminate.
      * cbn [forallb]. unfold is_digit. lia.
      * unfold horner. cbn [fold_left]. unfold dstep. lia.
      * intros. cbn [length]. lia.
    + assert (B' : n / 10 < 2 ^ N.of_nat f).
      { rewrite Nat2N.inj_succ, N.pow_succ_r' in B. apply N.div_lt_upper_bound; lia. }
      destruct (IH _ B') as (D1 & D2 & D3 & D4). repeat split.
      * rewrite forallb_app, D1. cbn [forallb andb]. unfold digit_char, is_digit.
        pose proof (N.mod_upper_bound n 10). lia.
      * intros E. apply app_eq_nil in E as [_ E]. discriminate.
      * rewrite horner_app, D3. unfold digit_char.
        pose proof (N.div_mod n 10). lia.
      * intros D HD HB. rewrite app_length. cbn [length].
        assert (D <> 1) by (intros ->; cbn in HB; lia).
        specialize (D4 (D - 1)).
        assert (n / 10 < 10 ^ (D - 1)).
        { apply N.div_lt_upper_bound; [lia|]. rewrite <- N.pow_succ_r'. replace (N.succ (D - 1)) with D by lia. exact HB. }
        lia.
Qed.

Lemma print_N_spec n :
  forallb is_digit (print_N n) = true /\ print_N n <> [] /\ horner 0 (print_N n) = n /\
  (forall D, 1 <= D -> n < 10 ^ D -> N.of_nat (length (print_N n)) <= D).
Proof.
  unfold print_N. apply print_N_fuel_spec. rewrite N2Nat.id. apply N.size_gt.

Qed.

Lemma digit_facts (d : N) : is_digit d = true ->
  is_ws d = false /\ (d =? ch_minus) = false /\ (d =? ch_plus) = false /\ (d =? ch_us) = false /\ idchar d = true.
Proof.
  unfold idchar, is_struct, is_digit, is_ws, ch_minus, ch_plus, ch_us, ch_at, ch_lb, ch_rb, ch_colon, ch_slash, ch_dot, ch_gt.
  intros H. repeat split; lia.
Qed.

Lemma py_int_digits ds : ds <> [] -> forallb is_digit ds = true ->
  N.of_nat (length ds) <= max_str_digits ->
  py_int ds = Some (Z.of_N (horner 0 ds)) /\ py_int (ch_minus :: ds) = Some (- Z.of_N (horner 0 ds))%Z.
Proof.
  intros NE DS LEN. destruct ds as [|d ds]; [now elim NE|].
  pose proof DS as DS'. cbn in DS'. apply Bool.andb_true_iff in DS' as [Dd _].
  destruct (digit_facts d Dd) as (W & M & P & U & _).
  assert (L0 : (N.of_nat (length (d :: ds)) =? 0) = false) by (cbn [length]; lia).
  assert (L1 : (max_str_digits <? N.of_nat (length (d :: ds))) = false) by lia.
  split; unfold py_int.
  - cbn [lstrip]. rewrite W. cbn match. rewrite M, P. cbn match. rewrite U. rewrite (scan_all_digits _ DS). rewrite N.add_0_l, L0, L1. reflexivity.
  - cbn [lstrip]. change (is_ws ch_minus) with false. cbn match. change (ch_minus =? ch_minus) with true. cbn match.
    rewrite U. rewrite (scan_all_digits _ DS). rewrite N.add_0_l, L0, L1. reflexivity.
Qed.

Lemma digits_idchars ds : forallb is_digit ds = true -> forallb idchar ds = true.
Proof.
  intros H. apply forallb_forall. intros c I. rewrite forallb_forall in H.
  destruct (digit_facts c (H c I)) as (_ & _ & _ & _ & X). exact X.
Qed.

(* int(str(k)) = k, and str(k) is a slice token *)
Lemma print_Z_roundtrip k : small k -> py_int (print_Z k) = Some k /\ forallb idchar (print_Z k) = true.
Proof.
  unfold small. intros S. assert (D1 : 1 <= max_str_digits) by (unfold max_str_digits; lia).
  destruct k as [|p|p]; cbn [print_Z].
  - destruct (print_N_spec (Z.to_N 0)) as (A & B & C & D). split; [|now apply digits_idchars].
    destruct (py_int_digits _ B A (D _ D1 S)) as [E _]. rewrite E, C. reflexivity.
  - destruct (print_N_spec (Z.to_N (Zpos p))) as (A & B & C & D). split; [|now apply digits_idchars].
    destruct (py_int_digits _ B A (D _ D1 S)) as [E _]. rewrite E, C. reflexivity.
  - destruct (print_N_spec (Npos p)) as (A & B & C & D). split.
    + destruct (py_int_digits _ B A (D _ D1 S)) as [_ E]. rewrite E, C. reflexivity.
    + cbn [forallb]. rewrite (digits_idchars _ A). reflexivity.
Qed.

(* ------------------------------------------------------------------------- *)
(* the parser's range, and print-and-reparse                                   *)
(* ------------------------------------------------------------------------- *)
Definition wf_slc (s : slc) : Prop :=
  match s with
  | SInt k => (0 <= k)%Z /\ small k
  | SSlice a b c => small_o a /\ small_o b /\ small_o c
  end.
Definition wf_comp (c : comp) : Prop :=
  is_sep (c_sep c) = true /\ IdStr (c_id c) /\ wf_slc (c_slice c).
Definition wf_path (p : path) : Prop :=
  exists s c0 cs, p = mkPath (Some s) (c0 :: cs) /\ wf_slc s /\ is_sep1 (c_sep c0) = true /\
                  Forall wf_comp (c0 :: cs).

Lemma oint_small t a : OInt t a -> small_o a.
Proof. intros H. destruct H as [|t k _ P]; [exact I|]. exact (py_int_small _ _ P). Qed.

Lemma slice_of_int_wf k : small k -> wf_slc (slice_of_int k).
Proof.
  unfold slice_of_int, small. intros S. destruct (0 <=? k)%Z eqn:E; [cbn; split; [lia|exact S]|].
  destruct (k =? -1)%Z; cbn; unfold small; repeat split; try exact S. lia.
Qed.

Lemma slicestr_wf l s : SliceStr l s -> wf_slc s.
Proof.
  intros H. destruct H as [t k O|ta a tb b Oa Ob|ta a tb b tc c Oa Ob Oc].
  - apply slice_of_int_wf. exact (oint_small _ _ O).
  - cbn. repeat split; try exact I; eapply oint_small; eassumption.
  - cbn. repeat split; eapply oint_small; eassumption.
Qed.

Lemma oslice_wf l s : OSlice l s -> wf_slc s.
Proof. intros H. destruct H; [cbn; auto|now apply slicestr_wf in H]. Qed.

Lemma comps_wf l cs : Comps l cs -> Forall wf_comp cs.
Proof.
  induction 1 as [|sep id sl s rest cs SEP ID OS CR IH]; constructor; [|exact IH].
  repeat split; cbn; [exact SEP|apply ID|apply ID|now apply oslice_wf in OS].
Qed.

Lemma is_sep1_sep c : is_sep1 c = true -> is_sep c = true.
Proof. unfold is_sep1, is_sep. unfold char in *. lia. Qed.

Lemma query_wf w p : Query w p -> wf_path p.
Proof.
  intros H. destruct H as [sl s w c0 cs SS CM S1|w c0 cs CM S1|c w cs I0 CM].
  - exists s, c0, cs. repeat split; [now apply slicestr_wf in SS|exact S1|now apply comps_wf in CM].
  - exists slice_all, c0, cs. repeat split; [exact S1|now apply comps_wf in CM].
  - pose proof (comps_wf _ _ CM) as W. inversion CM; subst.
    eexists slice_all, _, _. repeat split. exact W.
Qed.

(* printing *)
Lemma oint_print a : small_o a -> OInt (print_oz a) a.
Proof.
  destruct a as [k|]; cbn; intros S; [|constructor].
  destruct (print_Z_roundtrip k S) as [P T]. now constructor.
Qed.

Lemma slice_to_str_ok s : wf_slc s -> SliceStr (slice_to_str s) s.
Proof.
  destruct s as [k|a b c]; cbn [wf_slc slice_to_str].
  - intros [K S]. assert (E : slice_of_int k = SInt k) by (unfold slice_of_int; destruct (0 <=? k)%Z eqn:E; [reflexivity|lia]).
    rewrite <- E. apply SS_1. exact (oint_print (Some k) S).
  - intros (A & B & C). apply SS_3; now apply oint_print.
Qed.

Lemma comps_to_str_ok cs : Forall wf_comp cs -> Comps (flat_map comp_to_str cs) cs.
Proof.
  induction 1 as [|c cs (SEP & ID & SL) _ IH]; cbn [flat_map]; [constructor|].
  destruct c as [sep id s]. cbn [c_sep c_id c_slice] in *. unfold comp_to_str. cbn [c_sep c_id c_slice].
  cbn [app]. rewrite <- app_assoc. apply C_cons; [exact SEP|exact ID| |exact IH].
  apply OS_some. now apply slice_to_str_ok.
Qed.

Lemma wf_query p : wf_path p -> Query (to_string p) p.
Proof.
  intros (s & c0 & cs & -> & WS & S1 & WC). unfold to_string. cbn [p_subset p_comps].
  cbn [app]. apply Q_subset; [now apply slice_to_str_ok|now apply comps_to_str_ok|exact S1].
Qed.

(* derivable strings contain no white space *)
Lemma idchars_no_ws t : forallb idchar t = true -> no_ws t.
Proof.
  intros H. unfold no_ws. apply forallb_forall. intros c I. rewrite forallb_forall in H.
  rewrite (idchar_not_ws _ (H c I)). reflexivity.
Qed.

Lemma oint_no_ws t a : OInt t a -> no_ws t.
Proof. intros H. destruct H; [reflexivity|now apply idchars_no_ws]. Qed.

Lemma slicestr_no_ws l s : SliceStr l s -> no_ws l.
Proof.
  intros H. destruct H as [t k O|ta a tb b Oa Ob|ta a tb b tc c Oa Ob Oc];
    repeat (apply no_ws_app; split); try reflexivity; eapply oint_no_ws; eassumption.
Qed.

Lemma comps_no_ws l cs : Comps l cs -> no_ws l.
Proof.
  induction 1 as [|sep id sl s rest cs SEP ID OS CR IH]; [reflexivity|].
  apply no_ws_cons. split.
  - apply is_sep_cases in SEP as [-> | [-> | ->]]; reflexivity.
  - apply no_ws_app; split; [apply idchars_no_ws, ID|]. apply no_ws_app; split; [|exact IH].
    destruct OS; [reflexivity|now apply slicestr_no_ws in H].
Qed.

Lemma query_no_ws w p : Query w p -> no_ws w.
Proof.
  intros H. destruct H as [sl s w c0 cs SS CM S1|w c0 cs CM S1|c w cs I0 CM].
  - apply no_ws_cons. split; [reflexivity|]. apply no_ws_app. split; [now apply slicestr_no_ws in SS|now apply comps_no_ws in CM].
  - now apply comps_no_ws in CM.
  - apply comps_no_ws in CM. now apply no_ws_cons in CM.
Qed.

Lemma strip_ws_id w : no_ws w -> strip_ws w = w.
Proof.
  unfold no_ws, strip_ws. induction w as [|c w IH]; [reflexivity|]. cbn [forallb filter].
  intros H. apply Bool.andb_true_iff in H as [Hc Hw]. rewrite Hc, (IH Hw). reflexivity.
Qed.

(* every accepted path lies in the described range *)
Theorem parse_range s p : parse s = Ok p -> wf_path p.
Proof. intros H. apply parse_iff_grammar in H. now apply query_wf in H. Qed.

(* printing any path of that range and parsing the printout gives the path back *)
Theorem to_string_parses p : wf_path p -> parse (to_string p) = Ok p.
Proof.
  intros W. pose proof (wf_query p W) as Q. apply parse_iff_grammar.
  rewrite (strip_ws_id _ (query_no_ws _ _ Q)). exact Q.
Qed.

Theorem parse_to_string s p : parse s = Ok p -> parse (to_string p) = Ok p.
Proof. intros H. apply to_string_parses. now apply parse_range in H. Qed.

(* ------------------------------------------------------------------------- *)
(* slice semantics                                                             *)
(* ------------------------------------------------------------------------- *)
Lemma parse_single id sl s :
  IdStr id -> id0_start (hd 0 id) = true -> OSlice sl s ->
  parse (id ++ sl) = Ok (mkPath (Some slice_all) [mkComp ch_gt id s]).
Proof.
  intros ID I0 OS. apply parse_iff_grammar.
  assert (NW : no_ws (id ++ sl)).
  { apply no_ws_app. split; [apply idchars_no_ws, ID|]. destruct OS; [reflexivity|now apply slicestr_no_ws in H]. }
  rewrite (strip_ws_id _ NW). destruct id as [|c w]; [now elim (proj1 ID)|]. cbn [hd] in I0.
  cbn [app]. apply Q_bare; [exact I0|].
  change (ch_gt :: c :: w ++ sl) with (ch_gt :: (c :: w) ++ sl). rewrite <- (app_nil_r sl).
  apply C_cons; [reflexivity|exact ID|exact OS|constructor].
Qed.

(* 'ID[k]': k >= 0 is the index k; -1 is slice(-1, None); other negative k is slice(k, k+1) *)
Theorem slice_semantics_index id t k :
  IdStr id -> id0_start (hd 0 id) = true -> forallb idchar t = true -> py_int t = Some k ->
  parse (id ++ [ch_lb] ++ t ++ [ch_rb]) =
  Ok (mkPath (Some slice_all)
        [mkComp ch_gt id (if (0 <=? k)%Z then SInt k
                          else if (k =? -1)%Z then SSlice (Some k) None None
                          else SSlice (Some k) (Some (k + 1)%Z) None)]).
Proof.
  intros ID I0 T P. apply (parse_single id _ _ ID I0). apply OS_some.
  apply (SS_1 t k). now constructor.
Qed.

(* 'ID[a:b]' and 'ID[a:b:c]' with optional integers are Python's slice(a, b[, c]) *)
Theorem slice_semantics_range id ta a tb b tc c :
  IdStr id -> id0_start (hd 0 id) = true -> OInt ta a -> OInt tb b -> OInt tc c ->
  parse (id ++ [ch_lb] ++ ta ++ [ch_colon] ++ tb ++ [ch_rb]) =
    Ok (mkPath (Some slice_all) [mkComp ch_gt id (SSlice a b None)]) /\
  parse (id ++ [ch_lb] ++ ta ++ [ch_colon] ++ tb ++ [ch_colon] ++ tc ++ [ch_rb]) =
    Ok (mkPath (Some slice_all) [mkComp ch_gt id (SSlice a b c)]).
Proof.
  intros ID I0 Oa Ob Oc. split; apply (parse_single id _ _ ID I0); apply OS_some.
  - now apply SS_2.
  - now apply SS_3.
Qed.

(* no slice = all occurrences, no subset selector = all subsets *)
Theorem slice_semantics_bare id :
  IdStr id -> id0_start (hd 0 id) = true ->
  parse id = Ok (mkPath (Some slice_all) [mkComp ch_gt id slice_all]).
Proof.
  intros ID I0. rewrite <- (app_nil_r id) at 1. apply (parse_single id [] _ ID I0). constructor.
Qed.

(* a fourth index is never accepted, whatever follows *)
Theorem slice_semantics_four_parts id ta a tb b tc c rest :
  IdStr id -> id0_start (hd 0 id) = true -> OInt ta a -> OInt tb b -> OInt tc c ->
  parse (id ++ [ch_lb] ++ ta ++ [ch_colon] ++ tb ++ [ch_colon] ++ tc ++ [ch_colon] ++ rest) = Err EPathExpr.
Proof.
  intros ID I0 Oa Ob Oc. rewrite parse_eq_grammar. unfold grammar.
  assert (SW : forall a b, strip_ws (a ++ b) = strip_ws a ++ strip_ws b) by (intros; apply filter_app).
  rewrite !SW.
  rewrite (strip_ws_id id) by apply idchars_no_ws, ID.
  rewrite (strip_ws_id ta) by (eapply oint_no_ws; eassumption).
  rewrite (strip_ws_id tb) by (eapply oint_no_ws; eassumption).
  rewrite (strip_ws_id tc) by (eapply oint_no_ws; eassumption).
  change (strip_ws [ch_lb]) with [ch_lb]. change (strip_ws [ch_colon]) with [ch_colon].
  destruct id as [|i0 w]; [now elim (proj1 ID)|]. cbn [hd] in I0.
  assert (A : (i0 =? ch_at) = false) by (unfold id0_start, is_digit, is_upper, ch_at in *; unfold char in *; lia).
  assert (B : is_sep1 i0 = false) by (unfold id0_start, is_digit, is_upper, is_sep1, ch_slash, ch_gt in *; unfold char in *; lia).
  cbn [app gparse]. rewrite A, B, I0. cbn [g_comps]. change (is_sep ch_gt) with true. cbn match.
  change (i0 :: w ++ ch_lb :: ta ++ ch_colon :: tb ++ ch_colon :: tc ++ ch_colon :: strip_ws rest)
    with ((i0 :: w) ++ ch_lb :: ta ++ ch_colon :: tb ++ ch_colon :: tc ++ ch_colon :: strip_ws rest).
  rewrite (span_exact idchar (i0 :: w) (ch_lb :: ta ++ ch_colon :: tb ++ ch_colon :: tc ++ ch_colon :: strip_ws rest) (proj2 ID) eq_refl).
  cbn [g_oslice]. change (ch_lb =? ch_lb) with true. cbn match. unfold g_slice_val, g_slice.
  rewrite (g_oint_complete _ _ _ Oa (stops_colon _)). cbn match.
  change (ch_colon =? ch_rb) with false. change (ch_colon =? ch_colon) with true. cbn match.
  rewrite (g_oint_complete _ _ _ Ob (stops_colon _)). cbn match.
  change (ch_colon =? ch_rb) with false. change (ch_colon =? ch_colon) with true. cbn match.
  rewrite (g_oint_complete _ _ _ Oc (stops_colon _)). cbn match.
  change (ch_colon =? ch_rb) with false. cbn match. reflexivity.
Qed.

(* the companion instances: the hypotheses are satisfiable *)
Example slice_semantics_index_ex :
  parse [48;48;49;48;48;49; ch_lb; ch_minus; 51; ch_rb]
  = Ok (mkPath (Some slice_all) [mkComp ch_gt [48;48;49;48;48;49] (SSlice (Some (-3)%Z) (Some (-2)%Z) None)]).
Proof.
  apply (slice_semantics_index [48;48;49;48;48;49] [ch_minus; 51] (-3)%Z); [split; [discriminate|reflexivity]|reflexivity..].
Qed.

Example parse_to_string_ex :
  exists p, parse [ch_at; ch_lb; 49; ch_rb; ch_slash; 65; ch_lb; ch_minus; 49; ch_rb; ch_dot; 98] = Ok p /\
            to_string p = [ch_at; ch_lb; 49; ch_rb; ch_slash; 65; ch_lb; ch_minus; 49; ch_colon; ch_colon; ch_rb;
                           ch_dot; 98; ch_lb; ch_colon; ch_colon; ch_rb] /\
            parse (to_string p) = Ok p.
Proof. eexists. split; [vm_compute; reflexivity|]. split; vm_compute; reflexivity. Qed.

Example slice_semantics_range_ex :
  parse [65; ch_lb; 49; ch_colon; ch_rb] = Ok (mkPath (Some slice_all) [mkComp ch_gt [65] (SSlice (Some 1%Z) None None)]) /\
  parse [65; ch_lb; 49; ch_colon; ch_colon; ch_minus; 50; ch_rb]
    = Ok (mkPath (Some slice_all) [mkComp ch_gt [65] (SSlice (Some 1%Z) None (Some (-2)%Z))]).
Proof.
  apply (slice_semantics_range [65] [49] (Some 1%Z) [] None [ch_minus; 50] (Some (-2)%Z));
    try reflexivity; try (constructor; reflexivity); try (split; [discriminate|reflexivity]).
Qed.

Example slice_semantics_four_parts_ex :
  parse [65; ch_lb; 49; ch_colon; 50; ch_colon; 51; ch_colon; 52; ch_rb; ch_slash; 66] = Err EPathExpr.
Proof.
  apply (slice_semantics_four_parts [65] [49] (Some 1%Z) [50] (Some 2%Z) [51] (Some 3%Z) [52; ch_rb; ch_slash; 66]);
    try reflexivity; try (constructor; reflexivity); try (split; [discriminate|reflexivity]).
Qed.

Example parse_error_class_ex : parse [ch_at; ch_lb; ch_0; ch_rb] = Err EPathExpr /\ parse [] = Err EPathExpr.
Proof. split; vm_compute; reflexivity. Qed.

Example to_string_parses_ex :
  wf_path (mkPath (Some (SInt 3)) [mkComp ch_slash [97; 95] (SSlice (Some (-7)%Z) None (Some 2%Z))]).
Proof.
  eexists _, _, _. split; [reflexivity|]. split; [split; [lia|]|split; [reflexivity|]].
  - unfold small. change (Z.abs_N 3) with 3%N. apply N.lt_le_trans with (10 ^ 1)%N; [reflexivity|].
    apply N.pow_le_mono_r; [lia|]. unfold max_str_digits. lia.
  - constructor; [|constructor]. split; [reflexivity|]. split; [split; [discriminate|reflexivity]|].
    cbn. split; [|split; [exact I|]]; unfold small.
    + change (Z.abs_N (-7)) with 7%N. apply N.lt_le_trans with (10 ^ 1)%N; [reflexivity|].
      apply N.pow_le_mono_r; [lia|]. unfold max_str_digits. lia.
    + change (Z.abs_N 2) with 2%N. apply N.lt_le_trans with (10 ^ 1)%N; [reflexivity|].
      apply N.pow_le_mono_r; [lia|]. unfold max_str_digits. lia.
Qed.
