(* Decode.v — Decoder's implementation of the abstract methods (decoder.py),
   uncompressed here; compressed variants are in DecodeC.v (over Column.v). *)
From PBK Require Import Base Bits Descr Walk Coder.

Record dstate := mkD {
  d_r : reader;                  (* unread bits *)
  d_vals : list (list value);    (* decoded_values_all_subsets *)
  d_cur : nat                    (* idx_subset *)
}.

Definition upd_nth {A} (i : nat) (f : A -> A) (l : list A) : list A :=
  firstn i l ++ match skipn i l with [] => [] | x :: r => f x :: r end.

Definition d_append (v : value) (d : dstate) (r' : reader) : dstate :=
  mkD r' (upd_nth (d_cur d) (fun l => l ++ [v]) (d_vals d)) (d_cur d).

Definition cur_vals (d : dstate) : list value := nth (d_cur d) (d_vals d) [].

(* (raw + refval) / 10^scale: an int when the effective scale is 0 *)
Definition numeric_value (raw : N) (scale refval : Z) : value :=
  let x := (Z.of_N raw + refval)%Z in
  if (scale =? 0)%Z then VInt x else VDec x scale.

Definition dec_numeric (nbits scale refval : Z) (d : dstate) : result dstate :=
  let* (v, r') := read_uint_or_none nbits (d_r d) in
  Ok (d_append (match v with None => VNone | Some raw => numeric_value raw scale refval end) d r').

Definition dec_string (nbytes : Z) (d : dstate) : result dstate :=
  let* (b, r') := read_bytes nbytes (d_r d) in Ok (d_append (VBytes b) d r').

Definition dec_codeflag (nbits dnbits : Z) (d : dstate) : result dstate :=
  let* (v, r') := read_uint_or_none nbits (d_r d) in
  Ok (d_append (match v with None => VNone | Some raw => VInt (Z.of_N raw) end) d r').

Definition dec_new_refval (nbits : Z) (d : dstate) : result (Z * dstate) :=
  let* (v, r') := read_int nbits (d_r d) in Ok (v, d_append (VInt v) d r').

Definition dec_constant (v : Z) (d : dstate) : result dstate :=
  Ok (d_append (VInt v) d (d_r d)).

(* the value used as replication count: [value is None or value < 0] -> library error *)
Definition factor_of_value (v : value) : result N :=
  match v with
  | VNone => Err ELib
  | VInt z => if (z <? 0)%Z then Err ELib else Ok (Z.to_N z)
  | VDec m _ | VDyad m _ => if (m <? 0)%Z then Err ELib else Err EType   (* range(float) *)
  | VBytes _ => Err EType                                                  (* bytes < 0 *)
  end.

Definition dec_factor (d : dstate) : result N :=
  match rev (cur_vals d) with
  | [] => Err EIndex
  | v :: _ => factor_of_value v
  end.

Definition value_is_zero (v : value) : bool :=
  match v with
  | VInt z => (z =? 0)%Z
  | VDec m _ | VDyad m _ => (m =? 0)%Z
  | _ => false
  end.

(* decoded_values[-n:] — the whole list for n = 0 *)
Definition last_n {A} (n : Z) (l : list A) : list A :=
  if (n =? 0)%Z then l else skipn (length l - Z.to_nat n) l.

Definition dec_bitmap (n : Z) (d : dstate) : result (list bool) :=
  Ok (map value_is_zero (last_n n (cur_vals d))).

Definition dec_prims : prims dstate :=
  mkPrims dstate dec_numeric dec_string dec_codeflag dec_new_refval dec_constant dec_factor dec_bitmap.

(* switch_subset_context: select the value list of subset i *)
Definition dec_switch (i : nat) (d : dstate) : dstate := mkD (d_r d) (d_vals d) i.

(* Decoder.process_template_data for uncompressed data *)
Definition decode_uncompressed (T : descs) (nsub : nat) (bits : reader)
  : result (list subset_out * list (list value) * reader) :=
  let* (outs, d) := run_subsets dec_prims T dec_switch 0 nsub
                      (mkD bits (repeat [] nsub) 0) [] in
  Ok (outs, d_vals d, d_r d).
