(* QueryRef.v — C16: REFERENCE evaluators for data queries.  They are the
   specification: structurally recursive on the path (the list of components),
   no fuel, no early return, no sorting, no descent bookkeeping.

   [jeval]   evaluation of a path over the NESTED JSON RENDERING (Nested.v: jn/jv),
             the Coq counterpart of ref_step/ref_cont/ref_eval of
             harness/props/C16.py.  This is the reading of the property text.
   [ref_gen] the same evaluation over the wired tree as the query sees it
             (Query.v: qn), generic in what a path end yields; it is the bridge
             between the implementation model (Query.process_one_subset) and
             [jeval] and is instantiated twice: nodes first, values afterwards
             (what dataquery.py does) and values directly (what [jeval] does).

   Scope: child ('/') and attribute ('.') steps.  A component with any other
   separator (the descendant step '>') makes the references answer Err EQuery;
   the theorems exclude such paths by the executable hypothesis [simple_path]. *)
From PBK Require Import Base Descr Walk Wire Nested PySlice PathParser Query.

(* the results of the members, concatenated in order; the first error wins *)
Fixpoint collect {A B} (f : A -> result (list B)) (l : list A) : result (list B) :=
  match l with
  | [] => Ok []
  | x :: r => let* a := f x in let* b := collect f r in Ok (a ++ b)
  end.

(* ---- one step: the entries labelled with the id, cut by the slice ------------------ *)
Section Select.
Context {A : Type} (label : A -> list char).

(* the entries of [l] whose label is the component's id, with their positions in [l] *)
Definition labelled (c : comp) (l : list A) : list (nat * A) :=
  filter (fun p => chars_eqb (label (snd p)) (c_id c)) (enumerate 0 l).

(* [k]: the k-th of them (the parser only produces k >= 0; a negative [k] parses to a
   slice); [a:b:st]: Python's ms[a:b:st], re-read in document order *)
Definition cut (s : slc) (ms : list (nat * A)) : result (list (nat * A)) :=
  match s with
  | SInt k => Ok (match nth_error ms (Z.to_nat k) with Some x => [x] | None => [] end)
  | SSlice a b st =>
      let* sel := py_slice ms a b st in
      Ok (filter (fun x => existsb (fun y => (fst y =? fst x)%nat) sel) ms)
  end.

Definition select (c : comp) (l : list A) : result (list (nat * A)) :=
  cut (c_slice c) (labelled c l).
End Select.

(* the entries of one repetition at the selected positions *)
Definition pick {A} (pos : list nat) (l : list A) : list A :=
  flat_map (fun i => match nth_error l i with Some x => [x] | None => [] end) pos.

(* a list that came out empty is dropped, otherwise wrapped *)
Definition envelope {R} (wrap : list R -> R) (r : list R) : list R := match r with [] => [] | _ => [wrap r] end.

Definition simple_comp (c : comp) : bool := (c_sep c =? SEP_CHILD)%N || (c_sep c =? SEP_ATTRIB)%N.
(* no component uses the descendant separator *)
Definition simple_path (cs : list comp) : bool := forallb simple_comp cs.
(* every separator is one of '/', '.', '>' (all the parser produces) *)
Definition wf_path (cs : list comp) : bool :=
  forallb (fun c => simple_comp c || (c_sep c =? SEP_DESCEND)%N) cs.

(* ---- evaluation over the nested JSON rendering --------------------------------------- *)
(* [collect] and a positional walk written with the function outside the [fix], so that a
   structural recursion over a rendering may pass through them *)
Definition collect_s {A B} (f : A -> result (list B)) : list A -> result (list B) :=
  fix go (l : list A) : result (list B) :=
  match l with
  | [] => Ok []
  | x :: r => let* a := f x in let* b := go r in Ok (a ++ b)
  end.

(* [visit] the entries of [l] whose position (counted from [i]) is in [P], in order *)
Definition walk {A B} (P : list nat) (visit : A -> result (list B)) : nat -> list A -> result (list B) :=
  fix go (i : nat) (l : list A) {struct l} : result (list B) :=
  match l with
  | [] => Ok []
  | x :: t => let* a := (if existsb (Nat.eqb i) P then visit x else Ok []) in
              let* b := go (S i) t in Ok (a ++ b)
  end.

Section Json.
Context (labels : list (list char)).          (* str(decoded_descriptors[i]): the 'id' of a value node *)

Definition jlabel (n : jn) : list char :=
  match n with
  | JNo id | JSeqN id _ | JRep id _ _ => id6 id
  | JVal (JV i _ _) => nth (N.to_nat i) labels []
  end.

(* a node one can search below: it has 'members', a 'factor' or 'attributes' *)
Definition jcomposite (n : jn) : bool :=
  match n with JSeqN _ _ | JRep _ _ _ => true | JVal (JV _ _ (_ :: _)) => true | _ => false end.

Section Gen.
(* generic in what a path end yields ([leaf]) and how a list of results is wrapped *)
Context {R : Type} (leaf : jn -> result (list R)) (wrap : list R -> R).

(* ---- the descendant step '>': search of all composite nodes --------------------------- *)
Section Desc.
Context (c : comp) (cont : list jn -> result (list R)).

(* the positions of a candidate list that a descendant step looks at: the entries labelled
   id that the slice selects, and the composite entries with another label (searched below) *)
Definition dpos (l : list jn) : result (list nat) :=
  let* sel := select jlabel c l in
  Ok (map fst (filter (fun p => existsb (Nat.eqb (fst p)) (map fst sel)
                               || (negb (chars_eqb (jlabel (snd p)) (c_id c)) && jcomposite (snd p)))
                      (enumerate 0 l))).

(* a candidate: labelled id -> the rest of the path continues on it; composite -> searched
   below ([down]); otherwise nothing *)
Definition dvisit (x : jn) (down : result (list R)) : result (list R) :=
  if chars_eqb (jlabel x) (c_id c) then cont [x] else if jcomposite x then down else Ok [].

(* below a value node: its attributes *)
Fixpoint jdesc_v (v : jv) {struct v} : result (list R) :=
  match v with
  | JV _ _ [] => Err EQuery                                     (* no descendant nodes *)
  | JV _ _ ats => let* P := dpos (map JVal ats) in walk P (fun a => dvisit (JVal a) (jdesc_v a)) 0 ats
  end.

Fixpoint jdesc (n : jn) {struct n} : result (list R) :=
  match n with
  | JNo _ => Err EQuery                                         (* no descendant nodes *)
  | JSeqN _ ms => let* P := dpos ms in walk P (fun x => dvisit x (jdesc x)) 0 ms
  | JRep _ f reps =>
      (* the members: positions chosen in the first repetition, visited in every repetition,
         enveloped like a child step; then the factor *)
      let* A := match reps with
                | [] | [] :: _ => Ok []
                | rep0 :: _ =>
                    let* P := dpos rep0 in
                    match P with
                    | [] => Ok []
                    | _ => let* env := collect_s (fun rep => let* r := walk P (fun x => dvisit x (jdesc x)) 0 rep in
                                                             Ok (envelope wrap r)) reps in
                           Ok (envelope wrap env)
                    end
                end in
      let* B := match f with
                | None => Ok []
                | Some v => let* P := dpos [JVal v] in walk P (fun a => dvisit (JVal a) (jdesc_v a)) 0 [v]
                end in
      Ok (A ++ B)
  | JVal v => jdesc_v v
  end.
End Desc.

(* one step from node [n]; [cont] evaluates the rest of the path on the selected nodes *)
Definition jstep (c : comp) (n : jn) (cont : list jn -> result (list R)) : result (list R) :=
  if (c_sep c =? SEP_CHILD)%N then
    match n with
    | JSeqN _ ms =>
        (* the members labelled id, cut by the slice, in document order *)
        let* sel := select jlabel c ms in cont (map snd sel)
    | JRep _ _ reps =>
        match reps with
        | [] | [] :: _ => Ok []                    (* no members at all: nothing, the slice is not looked at *)
        | rep0 :: _ =>
            (* positions selected within ONE repetition, applied to every repetition: one
               list per repetition (empty ones dropped), the whole in one envelope *)
            let* sel := select jlabel c rep0 in
            match sel with
            | [] => Ok []
            | _ =>
                let* env := collect (fun rep => let* r := cont (pick (map fst sel) rep) in Ok (envelope wrap r)) reps in
                Ok (envelope wrap env)
            end
        end
    | _ => Err EQuery                              (* no 'members' *)
    end
  else if (c_sep c =? SEP_ATTRIB)%N then
    match n with
    | JRep _ (Some f) _ => let* sel := select jlabel c [JVal f] in cont (map snd sel)
    | JVal (JV _ _ (a :: ats)) => let* sel := select jlabel c (map JVal (a :: ats)) in cont (map snd sel)
    | _ => Err EQuery                              (* neither 'factor' nor 'attributes' *)
    end
  else if (c_sep c =? SEP_DESCEND)%N then jdesc c cont n
  else Err EQuery.                                 (* no such separator *)

Fixpoint jgen (cs : list comp) (n : jn) {struct cs} : result (list R) :=
  match cs with
  | [] => Err EIndex                               (* path_components[0] of an empty path *)
  | c :: rest => jstep c n (match rest with [] => collect leaf | _ => collect (jgen rest) end)
  end.

End Gen.

(* the end of a path: only a node with a 'value' yields one *)
Definition jvalue (n : jn) : result (list vres) :=
  match n with JVal (JV i _ _) => Ok [VIdx i] | _ => Err EQuery end.

(* values directly *)
Definition jeval : list comp -> jn -> result (list vres) := jgen jvalue VList.

(* the nested rendering of one subset is the member list of a virtual root *)
Definition eval_json (nested : list jn) (cs : list comp) : result (list vres) :=
  jeval cs (JSeqN 0 nested).

(* nodes first (each end node: its value if it has one), values afterwards *)
Inductive ores := ONode (v : option N) | OList (l : list ores).
Definition jleaf_o (n : jn) : result (list ores) :=
  Ok [ONode (match n with JVal (JV i _ _) => Some i | _ => None end)].
Fixpoint ovalue (o : ores) : result vres :=
  match o with
  | ONode (Some i) => Ok (VIdx i)
  | ONode None => Err EQuery                       (* cannot query valueless node *)
  | OList l =>
      let* vs := (fix go (l : list ores) : result (list vres) :=
                    match l with
                    | [] => Ok []
                    | x :: t => let* v := ovalue x in let* vs := go t in Ok (v :: vs)
                    end) l in
      Ok (VList vs)
  end.
Definition ovalues (os : list ores) : result (list vres) :=
  collect (fun o => let* v := ovalue o in Ok [v]) os.
Definition eval_json_nodes (nested : list jn) (cs : list comp) : result (list vres) :=
  let* os := jgen jleaf_o OList cs (JSeqN 0 nested) in ovalues os.

End Json.

(* nesting depth of a rendering (members, repetitions, factor and attributes all count) *)
Fixpoint vheight (v : jv) : nat :=
  match v with JV _ _ ats => S (list_max (map vheight ats)) end.
Fixpoint jheight (n : jn) : nat :=
  match n with
  | JNo _ => 1
  | JSeqN _ ms => S (list_max (map jheight ms))
  | JRep _ f reps =>
      S (Nat.max (match f with Some v => vheight v | None => 0 end)
                 (list_max (map (fun rep => list_max (map jheight rep)) reps)))
  | JVal v => vheight v
  end%nat.

(* nesting depth of a wired tree (without attributes) *)
Fixpoint wheight (w : wnode) : nat :=
  match w with
  | WNoValue _ | WValue _ => 1
  | WSeq _ ms => S (wheights ms)
  | WFixed _ _ _ ms | WDelayed _ _ _ ms => S (Nat.max 1 (wheights ms))
  end
with wheights (ms : wnodes) : nat :=
  match ms with WNil => 0 | WCons w r => Nat.max (wheight w) (wheights r) end.

(* ---- a rendering that shows every attribute ------------------------------------------------ *)
(* render_value unfolds attributes of attributes [k] levels deep.  A descendant search sees
   the whole of a node only when no chain of attributes is cut short: *)
Fixpoint no_chain (attrs : list attr) (k : nat) (i : N) : bool :=
  match k with
  | O => match Query.attrs_of attrs i with [] => true | _ => false end
  | S k' => forallb (no_chain attrs k') (Query.attrs_of attrs i)
  end.
(* no chain of more than [k] attribute links starts anywhere *)
Definition saturated (attrs : list attr) (k : nat) : bool :=
  forallb (fun a => no_chain attrs k (fst (fst a))) attrs.

(* ---- the same evaluation over the wired tree ------------------------------------------- *)
Section Tree.
Context (attrs : list attr) (labels : list (list char)).
Context {R : Type} (leaf : qn -> result (list R)) (wrap : list R -> R).

Definition ref_step (c : comp) (n : qn) (cont : list qn -> result (list R)) : result (list R) :=
  if (c_sep c =? SEP_CHILD)%N then
    match n with
    | QSeq _ _ | QRoot _ =>
        let* sel := select (label_of labels) c (members_of n) in cont (map snd sel)
    | QRep _ _ nmem _ _ =>
        let mem := members_of n in
        match mem with
        | [] => Ok []
        | _ =>
            let* sel := select (label_of labels) c (firstn nmem mem) in
            match sel with
            | [] => Ok []
            | _ =>
                let* env := collect (fun rep => let* r := cont (pick (map fst sel) rep) in Ok (envelope wrap r))
                                    (chunk (S (length mem)) nmem mem) in
                Ok (envelope wrap env)
            end
        end
    | _ => Err EQuery
    end
  else if (c_sep c =? SEP_ATTRIB)%N then
    match n with
    | QRep true _ _ f _ => let* sel := select (label_of labels) c [QV f] in cont (map snd sel)
    | QV i =>
        match Query.attrs_of attrs i with
        | [] => Err EQuery
        | a :: ats => let* sel := select (label_of labels) c (map QV (a :: ats)) in cont (map snd sel)
        end
    | _ => Err EQuery
    end
  else Err EQuery.

Fixpoint ref_gen (cs : list comp) (n : qn) {struct cs} : result (list R) :=
  match cs with
  | [] => Err EIndex
  | c :: rest => ref_step c n (match rest with [] => collect leaf | _ => collect (ref_gen rest) end)
  end.

End Tree.

(* nodes first (filter_for_sub_nodes), values afterwards (create_values_from_nodes) *)
Definition leaf_node (n : qn) : result (list qres) := Ok [RNode n].
Definition ref_nodes attrs labels := ref_gen attrs labels leaf_node RList.

Fixpoint ref_value (r : qres) : result vres :=
  match r with
  | RNode (QV i) => Ok (VIdx i)
  | RNode _ => Err EQuery
  | RList l =>
      let* vs := (fix go (l : list qres) : result (list vres) :=
                    match l with
                    | [] => Ok []
                    | x :: t => let* v := ref_value x in let* vs := go t in Ok (v :: vs)
                    end) l in
      Ok (VList vs)
  end.

Definition ref_values (rs : list qres) : result (list vres) :=
  collect (fun r => let* v := ref_value r in Ok [v]) rs.

Definition eval_ref_nodes attrs labels (nodes : wnodes) (cs : list comp) : result (list vres) :=
  let* rs := ref_nodes attrs labels cs (QRoot nodes) in ref_values rs.

(* values directly *)
Definition leaf_value (n : qn) : result (list vres) :=
  match n with QV i => Ok [VIdx i] | _ => Err EQuery end.
Definition eval_ref attrs labels (nodes : wnodes) (cs : list comp) : result (list vres) :=
  ref_gen attrs labels leaf_value VList cs (QRoot nodes).
