(* FrameExamples.v — concrete, non-trivial instances showing that the hypotheses of
   the C04 / C17 theorems are satisfiable (all by vm_compute). *)
From PBK Require Import Base Bits BitsProofs Frame FrameProofs FrameRoundtrip MdQuery MdQueryProofs.

(* edition 3, section 2 present with 5 local bits, three descriptors, 3 data bits *)
Definition ex_json (l1 l2 l3 l4 : Z) : list (list pvalue) :=
  [[PBytes sig_BUFR; PUint 0; PUint 3];
   [PUint l1; PUint 0; PUint 7; PUint 98; PUint 0; PBool true; PBin (zeros 7); PUint 2; PUint 0;
    PUint 33; PUint 0; PUint 24; PUint 5; PUint 17; PUint 12; PUint 30; PUint 0];
   [PUint l2; PBin (zeros 8); PBin [true; false; true; true; false]];
   [PUint l3; PBin (zeros 8); PUint 1; PBool true; PBool false; PBin (zeros 6); PDescs [31031; 31031; 31031]];
   [PUint l4; PBin (zeros 8); PData [true; false; true]];
   [PBytes sig_7777]]%Z.

Definition ex_dd : list (pname * pvalue) -> reader -> result (bits * reader) := fun _ r => take_bits 3 r.

Definition ex_bytes : list byte :=
  match encode_message true (ex_json 0 0 0 0) with Ok m => m_bytes m | Err _ => [] end.

(* lengths: total 60 = 8 + 18 + 6 + 14 + 6 + 4 + ... every section even (edition 3) *)
Example ex_encode_lengths :
  match encode_message true (ex_json 0 0 0 0) with
  | Ok m => (length (m_bytes m), map (fun s => (sec_index s, sec_nbits s, prop_get Nsection_length (sec_values s))) (m_sections m))
  | Err _ => (O, [])
  end =
  (56%nat, [(0%N, 64%nat, None); (1%N, 144%nat, Some (PUint 18)); (2%N, 48%nat, Some (PUint 6));
            (3%N, 112%nat, Some (PUint 14)); (4%N, 48%nat, Some (PUint 6)); (5%N, 32%nat, None)]).
Proof. vm_compute. reflexivity. Qed.

(* honour declared lengths: longer is zero filled to the declared extent, shorter refused *)
Example ex_honour :
  (match encode_message false (ex_json 0 0 0 9) with
   | Ok m => Some (length (m_bytes m), skipn 50 (m_bytes m))
   | Err _ => None end = Some (59%nat, [160; 0; 0; 0; 0; 55; 55; 55; 55]%N)) /\
  encode_message false (ex_json 0 0 0 5) = Err ELib /\
  encode_message false (ex_json 17 0 0 0) = Err ELib.
Proof. repeat split; vm_compute; reflexivity. Qed.

(* the decoder: trailing bytes, leading noise, surplus octets, overrun, damaged 7777 *)
Example ex_decode :
  (match decode_message ex_dd (Some sig_BUFR) false false ([13; 10]%N ++ ex_bytes ++ [66; 85; 70; 82; 1]%N) with
   | Ok m => bytes_eqb (m_bytes m) ex_bytes | Err _ => false end = true) /\
  (match encode_message false (ex_json 0 0 0 9) with
   | Ok m => match decode_message ex_dd (Some sig_BUFR) false false (m_bytes m) with
             | Ok m' => bytes_eqb (m_bytes m') (m_bytes m) | Err _ => false end
   | Err _ => false end = true) /\
  (* section 1 declared 5 octets: shorter than its content *)
  decode_message ex_dd (Some sig_BUFR) false false
    (firstn 8 ex_bytes ++ [0; 0; 5]%N ++ skipn 11 ex_bytes) = Err ELib /\
  (* damaged stop signature: the library error (D10 repaired) *)
  decode_message ex_dd (Some sig_BUFR) false false (firstn 55 ex_bytes ++ [56]%N) = Err ELib /\
  (* ... tolerated with ignore_value_expectation, and never looked at by info_only *)
  is_ok (decode_message ex_dd (Some sig_BUFR) false true (firstn 55 ex_bytes ++ [56]%N)) = true /\
  is_ok (decode_message ex_dd (Some sig_BUFR) true false (firstn 52 ex_bytes)) = true.
Proof. repeat split; vm_compute; reflexivity. Qed.

(* C17: info-only equals full on sections 0-3; queries *)
Example ex_info_and_queries :
  match decode_message ex_dd (Some sig_BUFR) false false ex_bytes,
        decode_message ex_dd (Some sig_BUFR) true false ex_bytes with
  | Ok m, Ok mi =>
      (length (filter lt4 (m_sections m)) =? 4)%nat &&
      (length (m_sections mi) =? 5)%nat &&
      match md_query m [37; 115; 101; 99; 116; 105; 111; 110; 95; 108; 101; 110; 103; 116; 104]%N,      (* %section_length *)
            md_query m [37; 51; 46; 115; 101; 99; 116; 105; 111; 110; 95; 108; 101; 110; 103; 116; 104]%N, (* %3.section_length *)
            md_query mi [37; 52; 46; 114; 101; 115; 101; 114; 118; 101; 100; 95; 98; 105; 116; 115]%N,     (* %4.reserved_bits *)
            md_query mi [37; 116; 101; 109; 112; 108; 97; 116; 101; 95; 100; 97; 116; 97]%N               (* %template_data *)
      with
      | Ok (Some (PUint 18)), Ok (Some (PUint 14)), Ok (Some (PBin _)), Ok None => true
      | _, _, _, _ => false
      end
  | _, _ => false
  end = true.
Proof. vm_compute. reflexivity. Qed.

(* scanning two messages in info-only mode: bytes by declared length *)
Example ex_scan :
  match scan_info ex_dd 10 (ex_bytes ++ [120; 120]%N ++ ex_bytes) with
  | ([m1; m2], None) => bytes_eqb (m_bytes m1) ex_bytes && bytes_eqb (m_bytes m2) ex_bytes
  | _ => false
  end = true.
Proof. vm_compute. reflexivity. Qed.

(* md_first_match_layouts: a decoded message conforms to the layout list of its edition *)
Example ex_conforms :
  match decode_message ex_dd (Some sig_BUFR) false false ex_bytes with
  | Ok m => conforms (m_sections m) (message_layout 3 true)
  | Err _ => False
  end.
Proof. vm_compute. repeat constructor. Qed.

(* info_independent_of_data_content: ex_bytes = 46 octets up to the header of section 4
   inclusive, then 2 octets of content, then 7777 *)
Example ex_content_hypotheses :
  match decode_message ex_dd (Some sig_BUFR) true false ex_bytes with
  | Ok m => (sections_nbits (filter lt4 (m_sections m)) + 32 <=? 8 * (length (firstn 50 ex_bytes) - 0))%nat
  | Err _ => false
  end = true /\ find_sig sig_BUFR (firstn 50 ex_bytes) = Some 0%nat.
Proof. split; vm_compute; reflexivity. Qed.
