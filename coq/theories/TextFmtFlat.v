(* TextFmtFlat.v — C09, flat text: flat_text_to_flat_json reads back what
   FlatTextRenderer wrote.  The value of every line starts at column 81 (both line
   formats, whatever the index, the link and the descriptor text are). *)
From PBK Require Import Base Descr Walk Wire Nested TextFmt TextFmtSpec TextFmtStrings TextFmtProofs TextFmtBody.
From PBK Require Script ScriptProofs.
From Coq Require Import ZifyBool ZifyNat ZifyN.

Section Flat.
Context (repr : pyv -> str) (leval : str -> result pyv).

(* ---- side conditions (all about the external repr / literal_eval and the given texts) ------- *)
(* the line holds no line-break character; literal_eval gives the printed object back *)
Definition fcell_ok (links : list (N * N)) (idx : N) (c : fcell) : Prop :=
  nolb (flat_line repr links idx c) = true /\ leval (strip (repr (fobj c))) = Ok (fobj c).

Fixpoint fcells_ok (links : list (N * N)) (idx : N) (cs : list fcell) : Prop :=
  match cs with [] => True | c :: r => fcell_ok links idx c /\ fcells_ok links (idx + 1) r end.

Definition fsubset_ok (s : fsubset) : Prop := fcells_ok (fst s) 0 (snd s).

(* at least one subset (with none the renderer emits one empty line) *)
Definition flat_td_ok (td : list fsubset) : Prop := td <> [] /\ Forall fsubset_ok td.

Definition flat_param_ok (p : param (list fsubset)) : Prop :=
  match p with
  | PVal name v => pval_line_ok name (repr v) = true /\ leval (repr v) = Ok v
  | PTemplate td => flat_td_ok td
  end.

Definition flat_message_ok (m : message (list fsubset)) : Prop :=
  nolb (m_key m) = true /\ sections_shape (m_sections m) = true /\
  Forall (fun s => Forall flat_param_ok (s_params s)) (m_sections m).

(* ---- column 81 ------------------------------------------------------------------------------ *)
Lemma fixed_width_hd v w : (0 < w)%nat -> exists c t, fixed_width_repr_of_int v w = c :: t /\ fw_char c = true.
Proof.
  intros Hw. pose proof (fixed_width_length v w) as L. pose proof (fixed_width_chars v w) as C.
  destruct (fixed_width_repr_of_int v w) as [|c t]; [cbn in L; lia|].
  cbn [forallb] in C. apply andb_true_iff in C as [C _]. eauto.
Qed.

Theorem flat_line_column links idx c :
  exists pre, flat_line repr links idx c = pre ++ repr (fobj c) /\ length pre = 81%nat /\
              exists c0 t, pre = c0 :: t /\ fw_char c0 = true.
Proof.
  unfold flat_line. destruct (fixed_width_hd (idx + 1) 5) as (c0 & t0 & E0 & F0); [lia|].
  destruct (link_of links idx) as [l|].
  - exists (fixed_width_repr_of_int (idx + 1) 5 ++ [32%N] ++ fmt_trunc_pad 64 (fc_dtext c) ++ S_LINK
            ++ fixed_width_repr_of_int (l + 1) 6 ++ [32%N]).
    split; [rewrite <- !app_assoc; reflexivity|]. split.
    + rewrite !app_length, !fixed_width_length, fmt_trunc_pad_length. reflexivity.
    + rewrite E0. cbn [app]. eauto.
  - exists (fixed_width_repr_of_int (idx + 1) 5 ++ [32%N] ++ fmt_trunc_pad 74 (fc_dtext c) ++ [32%N]).
    split; [rewrite <- !app_assoc; reflexivity|]. split.
    + rewrite !app_length, !fixed_width_length, fmt_trunc_pad_length. reflexivity.
    + rewrite E0. cbn [app]. eauto.
Qed.

Lemma untuple_fobj c : untuple (fobj c) = PyV (fc_val c).
Proof. unfold fobj. destruct (fc_flag c); [destruct (fc_val c)|]; reflexivity. Qed.

Lemma fw_char_not_header c t :
  fw_char c = true -> prefixb TEXT_SECTION_HEADER (c :: t) = false /\ prefixb TEXT_SUBSET_HEADER (c :: t) = false.
Proof.
  intros H. unfold fw_char, ScriptProofs.is_digit in H.
  split; apply prefixb_hd_neq; intros <-; cbv in H; discriminate.
Qed.

Lemma classify_flat_line links idx c :
  leval (strip (repr (fobj c))) = Ok (fobj c) ->
  classify_flat leval (flat_line repr links idx c) = AApp (PyV (fc_val c)).
Proof.
  intros Hle. destruct (flat_line_column links idx c) as (pre & -> & L & c0 & t & -> & F).
  unfold classify_flat. cbn [app]. destruct (fw_char_not_header c0 (t ++ repr (fobj c)) F) as [-> ->].
  change (c0 :: t ++ repr (fobj c)) with ((c0 :: t) ++ repr (fobj c)).
  rewrite skipn_app_exact by exact L. rewrite Hle, untuple_fobj. reflexivity.
Qed.

Lemma run_body_flat links : forall cs idx cur,
  fcells_ok links idx cs ->
  run_body (classify_flat leval) (flat_lines_from repr links idx cs) cur = Some (cur ++ map PyV (map fc_val cs)).
Proof.
  induction cs as [|c cs IH]; intros idx cur H; cbn [flat_lines_from run_body map].
  - rewrite app_nil_r. reflexivity.
  - destruct H as [[_ Hle] H]. rewrite classify_flat_line by exact Hle. cbn [body_step].
    rewrite IH by exact H. rewrite <- app_assoc. reflexivity.
Qed.

Fixpoint fblocks (n i : N) (subs : list fsubset) : list (str * list str) :=
  match subs with
  | [] => []
  | (links, cs) :: r => (subset_header (i + 1) n, flat_lines_from repr links 0 cs) :: fblocks n (i + 1) r
  end.

Lemma flat_td_blocks n : forall subs i, flat_td_from repr n i subs = block_lines (fblocks n i subs).
Proof.
  induction subs as [|[links cs] r IH]; intros i; [reflexivity|].
  cbn [flat_td_from fblocks block_lines]. rewrite IH. reflexivity.
Qed.

Lemma classify_flat_subset_header i n : classify_flat leval (subset_header i n) = ANew.
Proof. reflexivity. Qed.

Lemma fblocks_ok n : forall subs i, Forall fsubset_ok subs ->
  Forall2 (fun b v => classify_flat leval (fst b) = ANew /\ run_body (classify_flat leval) (snd b) [] = Some v)
          (fblocks n i subs) (map (map PyV) (flat_td_values subs)).
Proof.
  induction subs as [|[links cs] r IH]; intros i H; [constructor|].
  inversion H as [|? ? Hs Hr]; subst. cbn [fblocks map flat_td_values]. constructor; [|apply IH; exact Hr].
  cbn [fst snd]. split; [apply classify_flat_subset_header|].
  rewrite run_body_flat by exact Hs. reflexivity.
Qed.

Lemma flat_lines_nolb links : forall cs idx, fcells_ok links idx cs -> forallb nolb (flat_lines_from repr links idx cs) = true.
Proof.
  induction cs as [|c cs IH]; intros idx H; [reflexivity|]. destruct H as [[Hn _] H].
  cbn [flat_lines_from forallb]. rewrite Hn, IH by exact H. reflexivity.
Qed.

Lemma flat_td_nolb n : forall subs i, Forall fsubset_ok subs -> forallb nolb (flat_td_from repr n i subs) = true.
Proof.
  induction subs as [|[links cs] r IH]; intros i H; [reflexivity|]. inversion H as [|? ? Hs Hr]; subst.
  cbn [flat_td_from forallb]. rewrite nolb_subset_header, forallb_app, IH, flat_lines_nolb by assumption. reflexivity.
Qed.

Lemma flat_td_parses td : flat_td_ok td ->
  td_parses (flat_td_lines repr) flat_td_values (classify_flat leval) td.
Proof.
  intros [Hne H]. unfold td_parses, flat_td_lines. split; [apply flat_td_nolb; exact H|]. split.
  - destruct td as [|[links cs] r]; [contradiction|]. cbn [flat_td_from]. do 2 eexists. split; [reflexivity|].
    apply subset_header_prefix.
  - intros h rest Hb. rewrite flat_td_blocks. rewrite subsets_loop_block with (vs := map (map PyV) (flat_td_values td)).
    + reflexivity.
    + apply fblocks_ok. exact H.
    + exact Hb.
Qed.

(* C09, flat text: the whole rendering converts back to the flat JSON *)
Theorem flat_text_roundtrip m : flat_message_ok m ->
  flat_text_to_flat_json leval (render_flat_text repr m) = Ok (flat_json_of flat_td_values m).
Proof.
  intros (Hk & Hs & Hp). unfold flat_text_to_flat_json, render_flat_text, subsets_flat_text_to_flat_json.
  apply message_roundtrip.
  - intros i. reflexivity.
  - split; [exact Hk|]. split; [exact Hs|].
    eapply Forall_impl; [|exact Hp]. intros s Hsec. eapply Forall_impl; [|exact Hsec].
    intros [name v|td] Hq; [exact Hq|]. apply flat_td_parses. exact Hq.
Qed.

(* the template-data block alone: the values of all subsets, up to the next section header *)
Theorem flat_subsets_roundtrip td h rest : flat_td_ok td -> prefixb TEXT_SECTION_HEADER h = true ->
  subsets_flat_text_to_flat_json leval (flat_td_lines repr td ++ h :: rest)
  = Ok (h :: rest, map (map PyV) (flat_td_values td)).
Proof.
  intros H Hh. destruct (flat_td_parses td H) as (_ & _ & P). apply P. unfold classify_flat. rewrite Hh. reflexivity.
Qed.

End Flat.
