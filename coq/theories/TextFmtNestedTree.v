(* TextFmtNestedTree.v — C09, nested text, tree level: the lines of a wired tree
   (NestedTextRenderer._render_template_data_nodes) are read back by
   subsets_nested_text_to_flat_json as the values in flat order: an associated field
   ('-> A...' line, printed AFTER its owner) is inserted BEFORE the owner, the
   delayed replication factor ('....' indentation) comes before the repetitions,
   replication headers / sequence lines / operator lines / other attributes are
   passed over. *)
From PBK Require Import Base Descr Walk Wire Nested WireProofs NestedProofs
  TextFmt TextFmtSpec TextFmtStrings TextFmtProofs TextFmtBody TextFmtNested.
From PBK Require Script ScriptProofs.
From Coq Require Import ZifyBool ZifyNat ZifyN.

Lemma run_body_app_eq classify a : forall b cur,
  run_body classify (a ++ b) cur =
  match run_body classify a cur with Some c => run_body classify b c | None => None end.
Proof.
  induction a as [|l a IH]; intros b cur; cbn [run_body app]; [reflexivity|].
  destruct (body_step (classify l) cur) as [c|]; [apply IH|reflexivity].
Qed.

Lemma nlines_list_length repr sub fuel ind ns : length (nlines_list repr sub fuel ind ns) = wlength ns.
Proof. induction ns as [|n ns IH]; cbn [nlines_list length wlength]; [reflexivity|rewrite IH; reflexivity]. Qed.

(* unfolding equations of the mutual fixpoint (cbn would expose the raw fix) *)
Section Unfold.
Context (repr : pyv -> str) (sub : nsubset).
Local Notation nl := (nlines repr sub).
Local Notation nll := (nlines_list repr sub).
Lemma nl_novalue fuel ind id : nl fuel ind (WNoValue id) = [ind ++ ns_nvstr sub id].
Proof. reflexivity. Qed.
Lemma nl_seq fuel ind id ms :
  nl fuel ind (WSeq id ms) = (ind ++ ns_nvstr sub id) :: concat (nll fuel (ind ++ INDENT_CHARS) ms).
Proof. reflexivity. Qed.
Lemma nl_fixed fuel ind id nmem nrep ms :
  nl fuel ind (WFixed id nmem nrep ms) =
  (ind ++ ns_nvstr sub id) :: rep_lines ind (N.to_nat nrep) 0 (chunks nmem (N.to_nat nrep) (nll fuel (ind ++ INDENT_CHARS) ms)).
Proof. reflexivity. Qed.
Lemma nl_delayed fuel ind id nmem f ms :
  nl fuel ind (WDelayed id nmem f ms) =
  (ind ++ ns_nvstr sub id) :: vlines repr sub fuel (ind ++ INDENT_DOTS) false f
  ++ rep_lines ind (count_of (nth_error (ns_vals sub) (N.to_nat f))) 0
       (chunks nmem (count_of (nth_error (ns_vals sub) (N.to_nat f))) (nll fuel (ind ++ INDENT_CHARS) ms)).
Proof. reflexivity. Qed.
Lemma nl_value fuel ind i : nl fuel ind (WValue i) = vlines repr sub fuel ind false i.
Proof. reflexivity. Qed.
Lemma nll_cons fuel ind nd ns : nll fuel ind (WCons nd ns) = nl fuel ind nd :: nll fuel ind ns.
Proof. reflexivity. Qed.
End Unfold.

Section Tree.
Context (repr : pyv -> str) (leval : str -> result pyv) (sub : nsubset).
Local Notation cls := (classify_nested leval).
Local Notation attrs := (ns_attrs sub).
Local Notation n := (N.of_nat (length (ns_vals sub))).

Local Notation pv := (TextFmtSpec.pv sub).
Local Notation rtext := (TextFmtSpec.rtext repr sub).
Local Notation vtext_ok := (TextFmtSpec.vtext_ok repr sub).

(* the texts of flat index i are well formed and literal_eval reads the value back *)
Definition idx_ok (i : N) : Prop := vtext_ok i = true /\ leval (rtext i) = Ok (pv i).

Hypothesis Hidx : forall i, (i < n)%N -> idx_ok i.
Hypothesis Hrange : attrs_in_range n attrs = true.
Hypothesis Hlab : attr_labels_ok (ns_dstr sub) attrs = true.
Hypothesis Hdepth : attrs_depth_ok attrs = true.

Definition is_attr_idx (o : N) : bool := existsb (fun u : attr => (snd (fst u) =? o)%N) attrs.

Lemma attrs_of_in o a : In a (attrs_of attrs o) -> exists b, In (o, a, b) attrs.
Proof.
  unfold attrs_of. intros H. apply in_map_iff in H as ([[o' a'] b] & E & H). cbn [fst snd] in E. subst a'.
  apply filter_In in H as [H Ho]. cbn [fst] in Ho. apply N.eqb_eq in Ho as ->. eauto.
Qed.

Lemma attr_facts o a b : In (o, a, b) attrs ->
  (a < n)%N /\ starts_A (ns_dstr sub a) = b /\ is_attr_idx a = true /\ (b = true -> is_attr_idx o = false).
Proof.
  intros H. repeat split.
  - unfold attrs_in_range in Hrange. rewrite forallb_forall in Hrange. specialize (Hrange _ H). cbn in Hrange. lia.
  - unfold attr_labels_ok in Hlab. rewrite forallb_forall in Hlab. specialize (Hlab _ H). cbn [fst snd] in Hlab.
    apply eqb_prop. exact Hlab.
  - unfold is_attr_idx. apply existsb_exists. exists (o, a, b). split; [exact H|]. cbn. apply N.eqb_refl.
  - intros ->. unfold attrs_depth_ok in Hdepth. rewrite forallb_forall in Hdepth. specialize (Hdepth _ H).
    cbn [fst snd negb orb] in Hdepth. apply negb_true_iff in Hdepth. exact Hdepth.
Qed.

(* the attribute lines below a value line *)
Definition vtail (fuel : nat) (ind : str) (i : N) : list str :=
  match fuel with
  | O => []
  | S k => flat_map (vlines repr sub k (ind ++ INDENT_CHARS) true) (attrs_of attrs i)
  end.

Lemma vlines_eq fuel ind ia i :
  vlines repr sub fuel ind ia i =
  (ind ++ vtext (ns_dstr sub i) (ns_descr sub i) (rtext i) ia) :: vtail fuel ind i.
Proof. destruct fuel; reflexivity. Qed.

Lemma idx_facts i : (i < n)%N -> dstr_ok (ns_dstr sub i) = true /\ nolb (ns_descr sub i) = true /\
  nested_repr_ok (rtext i) = true /\ leval (rtext i) = Ok (pv i).
Proof.
  intros H. destruct (Hidx i H) as [Hv Hl]. unfold vtext_ok in Hv.
  apply andb_true_iff in Hv as [Hv H3]. apply andb_true_iff in Hv as [H1 H2]. auto.
Qed.

(* the attributes of an attribute are passed over *)
Lemma vtail_skip : forall fuel ind a cur, indent_ok ind -> is_attr_idx a = true ->
  run_body cls (vtail fuel ind a) cur = Some cur.
Proof.
  induction fuel as [|k IH]; intros ind a cur Hind Ha; [reflexivity|]. cbn [vtail].
  assert (G : forall l c, (forall x, In x l -> exists b, In (a, x, b) attrs) ->
              run_body cls (flat_map (vlines repr sub k (ind ++ INDENT_CHARS) true) l) c = Some c).
  { induction l as [|x l IHl]; intros c Hl; [reflexivity|]. cbn [flat_map]. rewrite vlines_eq. cbn [app run_body].
    destruct (Hl x (or_introl eq_refl)) as [b Hb]. destruct (attr_facts _ _ _ Hb) as (Hx & HA & Hxa & Hown).
    destruct (idx_facts x Hx) as (D1 & _ & D3 & _).
    assert (b = false) as -> by (destruct b; [rewrite (Hown eq_refl) in Ha; discriminate|reflexivity]).
    rewrite classify_virtual_line; [|apply indent_ok_indent; exact Hind|exact D1|exact D3|exact HA].
    cbn [body_step]. eapply run_body_app; [apply IH; [apply indent_ok_indent; exact Hind|exact Hxa]|].
    apply IHl. intros y Hy. apply Hl. right. exact Hy. }
  apply G. intros x Hx. apply attrs_of_in. exact Hx.
Qed.

(* the attributes of a member: the associated fields are inserted before the owner x *)
Lemma vtail_top k ind i cur x : indent_ok ind ->
  run_body cls (vtail (S k) ind i) (cur ++ [x]) = Some (cur ++ map pv (assoc_attrs_of attrs i) ++ [x]).
Proof.
  intros Hind. cbn [vtail]. unfold attrs_of, assoc_attrs_of.
  assert (G : forall L c, incl L attrs ->
    run_body cls (flat_map (vlines repr sub k (ind ++ INDENT_CHARS) true)
                    (map (fun a : attr => snd (fst a)) (filter (fun a : attr => (fst (fst a) =? i)%N) L))) (c ++ [x])
    = Some (c ++ map pv (map (fun a : attr => snd (fst a)) (filter (fun a : attr => (fst (fst a) =? i)%N && snd a) L)) ++ [x])).
  { induction L as [|[[o a] b] L IHL]; intros c HL; [reflexivity|].
    assert (HL' : incl L attrs) by (intros t Ht; apply HL; right; exact Ht).
    cbn [filter fst snd]. destruct (N.eqb_spec o i) as [->|_]; cbn [andb]; [|apply IHL; exact HL'].
    pose proof (HL _ (or_introl eq_refl)) as Hin. destruct (attr_facts _ _ _ Hin) as (Ha & HA & Haa & _).
    destruct (idx_facts a Ha) as (D1 & _ & D3 & D4).
    cbn [map flat_map]. rewrite vlines_eq. cbn [app run_body].
    rewrite (classify_attr_line leval _ _ _ _ (pv a)); [|apply indent_ok_indent; exact Hind|exact D1|exact D3|exact D4].
    cbn [fst snd]. rewrite HA. destruct b; cbn [body_step map fst snd].
    - rewrite insert_m1_snoc. change (c ++ [pv a; x]) with (c ++ [pv a] ++ [x]). rewrite app_assoc.
      rewrite run_body_app_eq, vtail_skip by (try apply indent_ok_indent; assumption).
      rewrite IHL by exact HL'. cbn [map]. rewrite <- app_assoc. reflexivity.
    - rewrite run_body_app_eq, vtail_skip by (try apply indent_ok_indent; assumption). apply IHL. exact HL'. }
  apply G. apply incl_refl.
Qed.

(* a member value node with its attribute lines *)
Lemma vlines_top k ind i cur : indent_ok ind -> (i < n)%N ->
  run_body cls (vlines repr sub (S k) ind false i) cur = Some (cur ++ map pv (assoc_attrs_of attrs i ++ [i])).
Proof.
  intros Hind Hi. destruct (idx_facts i Hi) as (D1 & _ & D3 & D4).
  rewrite vlines_eq. cbn [run_body].
  rewrite (classify_value_line leval _ _ _ _ (pv i)) by assumption. cbn [body_step].
  rewrite vtail_top by exact Hind. rewrite map_app. reflexivity.
Qed.

(* ---- no line breaks ------------------------------------------------------------------------------- *)
Lemma nolb_spaces a : nolb (spaces a) = true.
Proof. apply nolb_repeat. reflexivity. Qed.

Lemma vline_nolb ind ia i : nolb ind = true -> (i < n)%N ->
  nolb (ind ++ vtext (ns_dstr sub i) (ns_descr sub i) (rtext i) ia) = true.
Proof.
  intros Hind Hi. destruct (idx_facts i Hi) as (D1 & D2 & D3 & _).
  destruct (repr_ok_facts _ D3) as (_ & _ & Nr). unfold dstr_ok in D1. apply andb_true_iff in D1 as [Nd _].
  unfold vtext. rewrite !nolb_app, Hind, Nd, D2, Nr. destruct ia; reflexivity.
Qed.

Lemma vlines_nolb : forall fuel ind ia i, nolb ind = true -> (i < n)%N ->
  forallb nolb (vlines repr sub fuel ind ia i) = true.
Proof.
  induction fuel as [|k IH]; intros ind ia i Hind Hi; rewrite vlines_eq; cbn [forallb vtail];
    rewrite vline_nolb by assumption; [reflexivity|]. cbn [andb].
  assert (G : forall l, (forall x, In x l -> (x < n)%N) ->
              forallb nolb (flat_map (vlines repr sub k (ind ++ INDENT_CHARS) true) l) = true).
  { induction l as [|x l IHl]; intros Hl; [reflexivity|]. cbn [flat_map]. rewrite forallb_app.
    rewrite IH; [|rewrite nolb_app, Hind; reflexivity|apply Hl; left; reflexivity].
    apply IHl. intros y Hy. apply Hl. right. exact Hy. }
  apply G. intros x Hx. apply attrs_of_in in Hx as [b Hb]. apply (attr_facts _ _ _ Hb).
Qed.

(* ---- replications ----------------------------------------------------------------------------------- *)
Lemma rep_lines_body ind tot nmem : spaces_only ind -> forall m ir L cur,
  run_body cls (rep_lines ind tot ir (chunks nmem m L)) cur = run_body cls (concat (firstn (nmem * m) L)) cur.
Proof.
  intros Hind. induction m as [|m IH]; intros ir L cur.
  - rewrite Nat.mul_0_r. reflexivity.
  - cbn [chunks rep_lines run_body]. rewrite classify_rep_header by exact Hind. cbn [body_step].
    replace (nmem * S m)%nat with (nmem + nmem * m)%nat by lia.
    rewrite firstn_add, concat_app, !run_body_app_eq.
    destruct (run_body cls (concat (firstn nmem L)) cur) as [c|]; [apply IH|reflexivity].
Qed.

Lemma nolb_rep_header ind ir tot : nolb ind = true -> nolb (rep_header ind ir tot) = true.
Proof. intros H. unfold rep_header. rewrite !nolb_app, H, !nolb_dec. reflexivity. Qed.

Lemma forallb_concat {A} (p : A -> bool) (L : list (list A)) :
  forallb p (concat L) = forallb (forallb p) L.
Proof. induction L as [|x L IH]; [reflexivity|]. cbn [concat forallb]. rewrite forallb_app, IH. reflexivity. Qed.

Lemma forallb_firstn {A} (p : A -> bool) k (L : list A) : forallb p L = true -> forallb p (firstn k L) = true.
Proof.
  revert L; induction k as [|k IH]; intros L H; [reflexivity|]. destruct L as [|x L]; [reflexivity|].
  cbn [firstn forallb] in *. apply andb_true_iff in H as [-> H]. apply IH. exact H.
Qed.

Lemma forallb_skipn {A} (p : A -> bool) k (L : list A) : forallb p L = true -> forallb p (skipn k L) = true.
Proof.
  revert L; induction k as [|k IH]; intros L H; [exact H|]. destruct L as [|x L]; [reflexivity|].
  cbn [skipn forallb] in *. apply andb_true_iff in H as [_ H]. apply IH. exact H.
Qed.

Lemma rep_lines_nolb ind tot nmem : nolb ind = true -> forall m ir L,
  forallb (forallb nolb) L = true -> forallb nolb (rep_lines ind tot ir (chunks nmem m L)) = true.
Proof.
  intros Hind. induction m as [|m IH]; intros ir L HL; [reflexivity|].
  cbn [chunks rep_lines forallb]. rewrite nolb_rep_header by exact Hind. rewrite forallb_app, forallb_concat.
  rewrite forallb_firstn by exact HL. rewrite IH by (apply forallb_skipn; exact HL). reflexivity.
Qed.

(* ---- the tree ---------------------------------------------------------------------------------------- *)
Definition in_range (l : list N) : Prop := Forall (fun i => (i < n)%N) l.
Definition nvs_ok (ids : list N) : Prop := forallb (nv_ok (ns_nvstr sub)) ids = true.

Lemma in_range_app a b : in_range (a ++ b) <-> in_range a /\ in_range b.
Proof. apply Forall_app. Qed.

Lemma nvs_ok_app a b : nvs_ok (a ++ b) <-> nvs_ok a /\ nvs_ok b.
Proof. unfold nvs_ok. rewrite forallb_app, andb_true_iff. reflexivity. Qed.

Lemma nvs_ok_cons id r : nvs_ok (id :: r) -> nv_line_skipped (ns_nvstr sub id) = true /\ nolb (ns_nvstr sub id) = true /\ nvs_ok r.
Proof.
  unfold nvs_ok. cbn [forallb]. intros H. apply andb_true_iff in H as [H Hr]. unfold nv_ok in H.
  apply andb_true_iff in H as [H1 H2]. auto.
Qed.

Lemma spaces_only_nolb ind : spaces_only ind -> nolb ind = true.
Proof. intros [a ->]. apply nolb_spaces. Qed.

Lemma dots_nolb ind : spaces_only ind -> nolb (ind ++ INDENT_DOTS) = true.
Proof. intros H. rewrite nolb_app, (spaces_only_nolb _ H). reflexivity. Qed.

Local Notation vals := (ns_vals sub).

Definition Pnode (k : nat) (nd : wnode) : Prop :=
  forall ind cur, spaces_only ind -> wf_node vals nd -> in_range (flat_node attrs nd) -> nvs_ok (nv_ids nd) ->
    run_body cls (nlines repr sub (S k) ind nd) cur = Some (cur ++ map pv (flat_node attrs nd)) /\
    forallb nolb (nlines repr sub (S k) ind nd) = true.

Definition Pnodes (k : nat) (ns : wnodes) : Prop :=
  forall ind cur, spaces_only ind -> wf_nodes vals ns -> in_range (flat_nodes attrs ns) -> nvs_ok (nv_ids_list ns) ->
    run_body cls (concat (nlines_list repr sub (S k) ind ns)) cur = Some (cur ++ map pv (flat_nodes attrs ns)) /\
    forallb (forallb nolb) (nlines_list repr sub (S k) ind ns) = true.

Lemma in_range_value i : in_range (assoc_attrs_of attrs i ++ [i]) -> (i < n)%N.
Proof. intros H. apply in_range_app in H as [_ H]. inversion H; assumption. Qed.

Lemma tree_lines k : (forall nd, Pnode k nd) /\ (forall ns, Pnodes k ns).
Proof.
  apply wnode_wnodes_ind.
  - (* WNoValue *)
    intros id ind cur Hind _ _ Hnv. apply nvs_ok_cons in Hnv as (S1 & S2 & _).
    rewrite nl_novalue. cbn [run_body forallb flat_node map]. rewrite classify_novalue by assumption. cbn [body_step].
    rewrite app_nil_r, nolb_app, (spaces_only_nolb _ Hind), S2. split; reflexivity.
  - (* WSeq *)
    intros id ms IH ind cur Hind Hwf Hr Hnv. cbn [nv_ids] in Hnv. apply nvs_ok_cons in Hnv as (S1 & S2 & Hnv).
    cbn [wf_node flat_node] in *.
    destruct (IH (ind ++ INDENT_CHARS) cur (spaces_only_indent _ Hind) Hwf Hr Hnv) as [R1 R2].
    rewrite nl_seq. cbn [run_body forallb]. rewrite classify_novalue by assumption. cbn [body_step].
    rewrite R1, forallb_concat, R2, nolb_app, (spaces_only_nolb _ Hind), S2. split; reflexivity.
  - (* WFixed *)
    intros id nmem nrep ms IH ind cur Hind [Hl Hwf] Hr Hnv. cbn [nv_ids] in Hnv. apply nvs_ok_cons in Hnv as (S1 & S2 & Hnv).
    cbn [flat_node] in *.
    destruct (IH (ind ++ INDENT_CHARS) cur (spaces_only_indent _ Hind) Hwf Hr Hnv) as [R1 R2].
    rewrite nl_fixed. cbn [run_body forallb]. rewrite classify_novalue by assumption. cbn [body_step].
    rewrite rep_lines_body by exact Hind.
    rewrite firstn_all2 by (rewrite nlines_list_length; lia).
    rewrite R1, nolb_app, (spaces_only_nolb _ Hind), S2.
    rewrite rep_lines_nolb by (try apply spaces_only_nolb; assumption). split; reflexivity.
  - (* WDelayed *)
    intros id nmem f ms IH ind cur Hind [Hl Hwf] Hr Hnv. cbn [nv_ids] in Hnv. apply nvs_ok_cons in Hnv as (S1 & S2 & Hnv).
    cbn [flat_node] in *. apply in_range_app in Hr as [Hrf Hr]. pose proof (in_range_value _ Hrf) as Hf.
    rewrite nl_delayed. cbn [run_body forallb]. rewrite classify_novalue by assumption. cbn [body_step].
    rewrite run_body_app_eq, vlines_top by (try apply spaces_only_dots; assumption).
    rewrite rep_lines_body by exact Hind.
    rewrite firstn_all2 by (rewrite nlines_list_length; lia).
    destruct (IH (ind ++ INDENT_CHARS) (cur ++ map pv (assoc_attrs_of attrs f ++ [f]))
                 (spaces_only_indent _ Hind) Hwf Hr Hnv) as [R1 R2].
    rewrite R1. rewrite forallb_app, vlines_nolb by (try apply dots_nolb; assumption).
    rewrite rep_lines_nolb by (try apply spaces_only_nolb; assumption).
    rewrite nolb_app, (spaces_only_nolb _ Hind), S2. rewrite !map_app, <- !app_assoc. split; reflexivity.
  - (* WValue *)
    intros i ind cur Hind _ Hr _. cbn [flat_node] in *. pose proof (in_range_value _ Hr) as Hi.
    rewrite nl_value. rewrite vlines_top by (try apply spaces_only_ok; assumption).
    rewrite vlines_nolb by (try apply spaces_only_nolb; assumption). split; reflexivity.
  - (* WNil *)
    intros ind cur _ _ _ _. cbn. rewrite app_nil_r. split; reflexivity.
  - (* WCons *)
    intros nd IHn ns IHns ind cur Hind [Hw1 Hw2] Hr Hnv. cbn [flat_nodes nv_ids_list] in *.
    apply in_range_app in Hr as [Hr1 Hr2]. apply nvs_ok_app in Hnv as [Hn1 Hn2].
    destruct (IHn ind cur Hind Hw1 Hr1 Hn1) as [A1 A2].
    destruct (IHns ind (cur ++ map pv (flat_node attrs nd)) Hind Hw2 Hr2 Hn2) as [B1 B2].
    rewrite nll_cons. cbn [concat forallb]. rewrite run_body_app_eq, A1, B1, A2, B2.
    rewrite map_app, <- app_assoc. split; reflexivity.
Qed.

End Tree.
