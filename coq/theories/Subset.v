(* Subset.v — model of BufrMessage.subset (pybufrkit/bufr.py l.364-385), C10.

   A message is seen as what subset() looks at: the value of the n_subsets proxy
   and the list of sections, each a list of parameters.  A parameter is either
   the template data (its decoded_values_all_subsets: one entry per subset) or
   any other parameter (name, value).  The values V of plain parameters and per-subset value
   lists S are opaque: subset() only moves them around.

   Modelled as coded: max()/min() guards (ValueError on an empty collection,
   PyBufrKitError when out of range), the filter
       [v for i, v in enumerate(all_subsets) if i in subset_indices],
   the rewrite of the parameter named n_subsets.  The count rule is a parameter
   of the model: [count_orig] = len(subset_indices) is the code before the
   repair fixes/C10_subset_count.diff, [count_fixed] = len(set(subset_indices))
   is the repaired code.
   Not modelled: encoding of the returned data (encoder), aliasing (the returned
   lists share the subset value lists with the source message). *)
From PBK Require Import Base.
Local Open Scope Z_scope.

(* names are interned by the harness; this one is 'n_subsets' *)
Definition name_n_subsets : N := 1%N.

Section SubsetModel.
  Context {V S : Type}.

  Inductive param :=
    | PPlain (name : N) (v : V)              (* any parameter that is not template data *)
    | PData (name : N) (subsets : list S).   (* parameter.type == 'template_data' *)

  Inductive oval :=
    | OVal (v : V)                           (* parameter.value, untouched *)
    | OCount (n : Z)                         (* the rewritten n_subsets *)
    | OData (l : list S).                    (* the selected subsets *)

  Definition mem_z (i : Z) (I : list Z) : bool := existsb (Z.eqb i) I.   (* i in subset_indices *)

  (* max(l) / min(l) of a non-empty collection x :: l *)
  Fixpoint zmax_list (x : Z) (l : list Z) : Z :=
    match l with [] => x | y :: r => zmax_list (Z.max x y) r end.
  Fixpoint zmin_list (x : Z) (l : list Z) : Z :=
    match l with [] => x | y :: r => zmin_list (Z.min x y) r end.

  (* [v for i, v in enumerate(subsets, start=i) if i in I] *)
  Fixpoint select_from (i : Z) (I : list Z) (subsets : list S) : list S :=
    match subsets with
    | [] => []
    | s :: r => if mem_z i I then s :: select_from (i + 1) I r else select_from (i + 1) I r
    end.

  (* len(subset_indices) — the code before the repair (D3) *)
  Definition count_orig (I : list Z) : Z := Z.of_nat (length I).
  (* len(set(subset_indices)) — the repaired code *)
  Definition count_fixed (I : list Z) : Z := Z.of_nat (length (nodup Z.eq_dec I)).

  Definition sub_param (count : list Z -> Z) (I : list Z) (p : param) : oval :=
    match p with
    | PData _ subsets => OData (select_from 0 I subsets)
    | PPlain name v => if N.eqb name name_n_subsets then OCount (count I) else OVal v
    end.

  (* n = self.n_subsets.value *)
  Definition subset_with (count : list Z -> Z) (n : Z) (sections : list (list param)) (I : list Z)
    : result (list (list oval)) :=
    match I with
    | [] => Err EValue                                     (* max() of an empty sequence *)
    | x :: r =>
      if zmax_list x r >=? n then Err ELib                 (* maximum subset index out of range *)
      else if zmin_list x r <? 0 then Err ELib             (* minimum subset index out of range *)
      else Ok (map (map (sub_param count I)) sections)
    end.

  Definition subset := subset_with count_fixed.
  Definition subset_orig := subset_with count_orig.

  (* ---- specification side ------------------------------------------------- *)
  (* the indices i, i+1, ..., i+k-1 that occur in I: increasing, each once *)
  Fixpoint sel_idx (i : Z) (I : list Z) (k : nat) : list Z :=
    match k with
    | O => []
    | Datatypes.S k' => if mem_z i I then i :: sel_idx (i + 1) I k' else sel_idx (i + 1) I k'
    end.

  (* a message as subset() needs it: the n_subsets proxy agrees with the data *)
  Definition data_ok (n : Z) (p : param) : bool :=
    match p with PData _ subsets => Z.of_nat (length subsets) =? n | PPlain _ _ => true end.
  Definition msg_ok (n : Z) (sections : list (list param)) : bool :=
    forallb (forallb (data_ok n)) sections.
End SubsetModel.
Arguments param : clear implicits.
Arguments oval : clear implicits.
