(* StreamFrameDamageStream.v — C12 end to end, stream level: streams of encoded
   messages some of which are damaged (stop signature overwritten, or the
   declared length of section 4 decreased below its content), run through the
   concrete scanner. *)
From PBK Require Import Base Bits BitsProofs Frame FrameProofs FrameRoundtrip MdQuery MdQueryProofs
  FramePrefix FramePrefixEnc Stream StreamProofs StreamFrame StreamFrameProofs StreamFrameDamage
  StreamFrameOverrun.
From Coq Require Import ZifyBool ZifyNat ZifyN.

(* the kinds of damage covered *)
Inductive damage :=
  | DStop (x4 : list byte)      (* the last four octets replaced by x4 *)
  | DLen4 (v : Z).              (* the length field of section 4 overwritten by v *)

Definition damage_bytes (m : message) (d : damage) : list byte :=
  match d with
  | DStop x4 => replace_stop (m_bytes m) x4
  | DLen4 v => match sec4_info m with
               | Some (sl, _) => dmg_len4 (m_bytes m) sl v
               | None => m_bytes m
               end
  end.

Definition damage_okb (m : message) (d : damage) : bool :=
  match d with
  | DStop x4 => bad_stopb x4
  | DLen4 v => match sec4_info m with
               | Some (sl, nd) => bad_len4b sl nd v
               | None => false
               end
  end.

(* an item and, if damaged, how *)
Definition dmg_item := (enc_item * option damage)%type.
Definition dmg_bytes (it : dmg_item) : list byte :=
  match snd it with
  | None => item_bytes (fst it)
  | Some d => match item_msg (fst it) with Ok m => damage_bytes m d | Err _ => [] end
  end.
Definition undamaged (it : dmg_item) : bool := match snd it with None => true | Some _ => false end.
Definition dmg_stream (items : list dmg_item) : list (list byte * list byte) :=
  map (fun it => (dmg_bytes it, snd (fst it))) items.

(* an undamaged item is as in C11 (mode io); a damaged one is a well-formed
   encoded message (any data category) with an admissible damage *)
Definition dmg_okb (dd : list (pname * pvalue) -> reader -> result (bits * reader)) (io : bool)
    (it : dmg_item) : bool :=
  match snd it with
  | None => item_okb dd io (fst it)
  | Some d => item_okb dd true (fst it) &&
              match item_msg (fst it) with Ok m => damage_okb m d | Err _ => false end
  end.

Section DamageStreams.
Variable dd : list (pname * pvalue) -> reader -> result (bits * reader).
Hypothesis dd_prefix : forall p r b r', dd p r = Ok (b, r') -> r = b ++ r'.
Hypothesis dd_suffix : forall p r b r' s, dd p r = Ok (b, r') -> dd p (r ++ s) = Ok (b, r' ++ s).
Hypothesis dd_cuts : forall p, cuts (dd p).
Variable view : message -> list N.
Variable tdp : msginfo -> result unit.
Variable filt : msginfo -> result bool.

Notation P := (frame_process dd view false).
Notation PI := (frame_process dd view true).

(* every admissible damage: the message still starts with BUFR, its full decode
   fails with the library error whatever follows, its metadata-only decode
   succeeds whatever follows with the declared length intact *)
Theorem damaged_hyps : forall ign json m d,
  encode_message ign json = Ok m -> msg_wfb dd m = true -> damage_okb m d = true ->
  starts_sig (damage_bytes m d) /\ length (damage_bytes m d) = length (m_bytes m) /\
  full_fails P (damage_bytes m d) ELib /\ info_ok PI (damage_bytes m d).
Proof.
  intros ign json m [x4|v] Henc Hwf Hok; cbn [damage_bytes damage_okb] in *.
  - destruct (damaged_stop_hyps dd dd_prefix dd_suffix dd_cuts view _ _ _ _ Henc Hwf Hok) as (H1 & H2 & _ & H4 & H5).
    auto.
  - destruct (sec4_info m) as [[sl nd]|] eqn:Ei; [|discriminate].
    apply (damaged_len4_hyps dd dd_prefix dd_suffix dd_cuts view _ _ _ _ _ _ Henc Hwf Ei Hok).
Qed.

Lemma dmg_item_hyps io it : dmg_okb dd io it = true ->
  starts_sig (dmg_bytes it) /\ nosig (snd (fst it)) /\
  if undamaged it
  then valid_msg P PI (frame_hook tdp) io (dmg_bytes it)
  else full_fails P (dmg_bytes it) ELib /\ info_ok PI (dmg_bytes it).
Proof.
  destruct it as [it [d|]]; unfold dmg_okb, dmg_bytes, undamaged; cbn [fst snd].
  - intros H. apply andb_true_iff in H as [Hit Hbad].
    pose proof Hit as Hit'. unfold item_okb in Hit'. apply andb_true_iff in Hit' as [Hm Hsep].
    destruct (item_msg it) as [m|] eqn:Em; [|discriminate]. apply andb_true_iff in Hm as [Hwf _].
    destruct (damaged_hyps _ _ _ _ Em Hwf Hbad) as (H1 & _ & H4 & H5).
    split; [exact H1|]. split; [apply nosigb_sound, Hsep|]. split; assumption.
  - intros Hit. destruct (item_ok_valid dd dd_prefix dd_suffix dd_cuts view tdp io it Hit) as (H1 & H2 & H3).
    auto.
Qed.

Lemma full_ok_is_ok b : full_ok P (frame_hook tdp) b -> is_ok (P b) = true.
Proof. intros (mi & H & _). specialize (H []). rewrite app_nil_r in H. rewrite H. reflexivity. Qed.
Lemma full_fails_not_ok b e : full_fails P b e -> is_ok (P b) = false.
Proof. intros H. specialize (H []). rewrite app_nil_r in H. rewrite H. reflexivity. Qed.

(* C12 end to end, continue_on_error: every damaged message is skipped exactly;
   all others are delivered unchanged, in order; the scan ends normally *)
Theorem e2e_continue_skips_damaged : forall sep0 items,
  nosigb sep0 = true -> forallb (dmg_okb dd false) items = true ->
  frame_generate dd view tdp filt false true false (sep0 ++ assemble (dmg_stream items))
  = (map dmg_bytes (filter undamaged items), None).
Proof.
  intros sep0 items H0 Hall. unfold frame_generate.
  rewrite forallb_forall in Hall.
  rewrite (scan_continue_skips _ _ _ _ (fun b => is_ok (P b))); [|apply nosigb_sound, H0|].
  - f_equal. unfold dmg_stream. rewrite map_map. cbn [fst]. rewrite filter_map. f_equal.
    apply filter_ext_in'. intros it Hin. destruct (dmg_item_hyps false it (Hall it Hin)) as (_ & _ & H).
    destruct (undamaged it); [apply full_ok_is_ok, H|]. destruct H as [H _]. apply (full_fails_not_ok _ _ H).
  - unfold stream_ok, dmg_stream. rewrite Forall_map. apply Forall_forall. intros it Hin. cbn [fst snd].
    destruct (dmg_item_hyps false it (Hall it Hin)) as (H1 & H2 & H4).
    split; [exact H1|]. split; [exact H2|]. destruct (undamaged it).
    + rewrite (full_ok_is_ok _ H4). exact H4.
    + destruct H4 as [Hf Hi]. rewrite (full_fails_not_ok _ _ Hf).
      split; [exists ELib; split; [reflexivity|exact Hf]|exact Hi].
Qed.

(* ... without continue_on_error: the messages before it are delivered, then the
   library's error surfaces; nothing is assumed about what follows *)
Theorem e2e_stops_at_damaged : forall sep0 items it d rest,
  nosigb sep0 = true -> forallb (item_okb dd false) items = true ->
  dmg_okb dd false (it, Some d) = true ->
  frame_generate dd view tdp filt false false false
    (sep0 ++ assemble (stream_of items) ++ dmg_bytes (it, Some d) ++ rest)
  = (map item_bytes items, Some ELib).
Proof.
  intros sep0 items it d rest H0 Hall Hit. unfold frame_generate.
  destruct (dmg_item_hyps false (it, Some d) Hit) as (H1 & _ & H4).
  unfold undamaged in H4. cbn [snd] in H4. destruct H4 as [Hf _].
  rewrite (scan_stops_at_library_error _ _ _ _ false sep0 (stream_of items) _ rest ELib);
    [rewrite map_fst_stream_of; reflexivity|apply nosigb_sound, H0| |exact H1|exact Hf|reflexivity].
  eapply stream_ok_of; [|exact Hall]. apply (item_ok_valid dd dd_prefix dd_suffix dd_cuts view tdp false).
Qed.

(* recorded: metadata-only mode reads neither section 5 nor the content of
   section 4, so neither damage is detected there — the stream scans as if it
   were intact (the pieces are cut by the intact total length) *)
Theorem e2e_info_mode_delivers_damaged : forall coe sep0 items,
  nosigb sep0 = true -> forallb (dmg_okb dd true) items = true ->
  frame_generate dd view tdp filt true coe false (sep0 ++ assemble (dmg_stream items))
  = (map dmg_bytes items, None).
Proof.
  intros coe sep0 items H0 Hall. unfold frame_generate.
  rewrite scan_exact; [unfold dmg_stream; rewrite map_map; reflexivity|apply nosigb_sound, H0|].
  unfold stream_ok, dmg_stream. rewrite Forall_map. apply Forall_forall. intros it Hin.
  rewrite forallb_forall in Hall. cbn [fst snd].
  destruct (dmg_item_hyps true it (Hall it Hin)) as (H1 & H2 & H4).
  split; [exact H1|]. split; [exact H2|]. destruct (undamaged it); [exact H4|]. cbn [valid_msg]. apply H4.
Qed.

End DamageStreams.
