(* StreamFrameDamageStream.v — C12 end to end, stream level: streams of encoded
   messages some of which are damaged — stop signature overwritten, declared
   length of section 4 decreased below its content, descriptor list refused by
   the template decoder — run through the concrete scanner. *)
From PBK Require Import Base Bits BitsProofs Frame FrameProofs FrameRoundtrip MdQuery MdQueryProofs
  FramePrefix FramePrefixEnc Stream StreamProofs StreamFrame StreamFrameProofs StreamFrameDamage
  StreamFrameOverrun StreamFrameRefused.
From Coq Require Import ZifyBool ZifyNat ZifyN.

(* the kinds of damage covered *)
Inductive damage :=
  | DStop (x4 : list byte)      (* the last four octets replaced by x4 *)
  | DLen4 (v : Z)               (* the length field of section 4 overwritten by v *)
  | DRefused.                   (* the item's descriptor list (section 3) holds a descriptor the
                                   template decoder refuses: the item IS the damaged message *)

Definition damage_bytes (m : message) (d : damage) : list byte :=
  match d with
  | DStop x4 => replace_stop (m_bytes m) x4
  | DLen4 v => match sec4_info m with
               | Some (sl, _) => dmg_len4 (m_bytes m) sl v
               | None => m_bytes m
               end
  | DRefused => m_bytes m
  end.

(* the error the full decode of the damaged message ends with *)
Definition damage_err (d : damage) : err :=
  match d with DRefused => EUnknownDescriptor | _ => ELib end.

(* admissible damage of a well-formed message (DStop, DLen4) *)
Definition damage_okb (m : message) (d : damage) : bool :=
  match d with
  | DStop x4 => bad_stopb x4
  | DLen4 v => match sec4_info m with
               | Some (sl, nd) => bad_len4b sl nd v
               | None => false
               end
  | DRefused => false
  end.

(* a message whose descriptor list is refused: well formed as far as the framing
   goes (its section 4 holds nd data bits: msg_wfb with the yardstick decoder
   take_dd nd), and [refusesb] holds of the attributes of sections 0..3 *)
Definition refused_okb (refusesb : list (pname * pvalue) -> bool) (m : message) : bool :=
  match sec4_info m with
  | Some (_, nd) => msg_wfb (take_dd nd) m && refusesb (props4_of m)
  | None => false
  end.

(* an item and, if damaged, how *)
Definition dmg_item := (enc_item * option damage)%type.
Definition dmg_bytes (it : dmg_item) : list byte :=
  match snd it with
  | None => item_bytes (fst it)
  | Some d => match item_msg (fst it) with Ok m => damage_bytes m d | Err _ => [] end
  end.
Definition dmg_err (it : dmg_item) : err :=
  match snd it with Some d => damage_err d | None => ELib end.
Definition undamaged (it : dmg_item) : bool := match snd it with None => true | Some _ => false end.
Definition dmg_stream (items : list dmg_item) : list (list byte * list byte) :=
  map (fun it => (dmg_bytes it, snd (fst it))) items.

(* an undamaged item is as in C11 (mode io); a damaged one is a well-formed
   encoded message (any data category) with an admissible damage, or a message
   with a refused descriptor list; separators hold no 'BUFR' *)
Definition dmg_okb (dd : list (pname * pvalue) -> reader -> result (bits * reader))
    (refusesb : list (pname * pvalue) -> bool) (io : bool) (it : dmg_item) : bool :=
  match snd it with
  | None => item_okb dd io (fst it)
  | Some DRefused =>
      match item_msg (fst it) with Ok m => refused_okb refusesb m | Err _ => false end && nosigb (snd (fst it))
  | Some d => item_okb dd true (fst it) &&
              match item_msg (fst it) with Ok m => damage_okb m d | Err _ => false end
  end.

Section DamageStreams.
Variable dd : list (pname * pvalue) -> reader -> result (bits * reader).
Hypothesis dd_prefix : forall p r b r', dd p r = Ok (b, r') -> r = b ++ r'.
Hypothesis dd_suffix : forall p r b r' s, dd p r = Ok (b, r') -> dd p (r ++ s) = Ok (b, r' ++ s).
Hypothesis dd_cuts : forall p, cuts (dd p).
(* a sound test for "the template decoder refuses these attributes whatever the data" *)
Variable refusesb : list (pname * pvalue) -> bool.
Hypothesis refusesb_sound : forall props, refusesb props = true -> forall r, dd props r = Err EUnknownDescriptor.
Variable view : message -> list N.
Variable tdp : msginfo -> result unit.
Variable filt : msginfo -> result bool.

Notation P := (frame_process dd view false).
Notation PI := (frame_process dd view true).

(* every admissible damage of a well-formed message: the message still starts
   with BUFR, its full decode fails with the library error whatever follows, its
   metadata-only decode succeeds whatever follows with the declared length intact *)
Theorem damaged_hyps : forall ign json m d,
  encode_message ign json = Ok m -> msg_wfb dd m = true -> damage_okb m d = true ->
  starts_sig (damage_bytes m d) /\ length (damage_bytes m d) = length (m_bytes m) /\
  full_fails P (damage_bytes m d) (damage_err d) /\ info_ok PI (damage_bytes m d).
Proof.
  intros ign json m [x4|v|] Henc Hwf Hok; cbn [damage_bytes damage_okb damage_err] in *; [| |discriminate].
  - destruct (damaged_stop_hyps dd dd_prefix dd_suffix dd_cuts view _ _ _ _ Henc Hwf Hok) as (H1 & H2 & _ & H4 & H5).
    auto.
  - destruct (sec4_info m) as [[sl nd]|] eqn:Ei; [|discriminate].
    apply (damaged_len4_hyps dd dd_prefix dd_suffix dd_cuts view _ _ _ _ _ _ Henc Hwf Ei Hok).
Qed.

(* a message with a refused descriptor list *)
Theorem refused_item_hyps : forall ign json m,
  encode_message ign json = Ok m -> refused_okb refusesb m = true ->
  starts_sig (m_bytes m) /\ full_fails P (m_bytes m) EUnknownDescriptor /\ info_ok PI (m_bytes m).
Proof.
  intros ign json m Henc Hok. unfold refused_okb in Hok.
  destruct (sec4_info m) as [[sl nd]|] eqn:Ei; [|discriminate]. apply andb_true_iff in Hok as [Hwf Hr].
  apply (refused_hyps dd view _ _ _ _ _ _ Henc Ei Hwf (refusesb_sound _ Hr)).
Qed.

Lemma dmg_item_hyps io it : dmg_okb dd refusesb io it = true ->
  starts_sig (dmg_bytes it) /\ nosig (snd (fst it)) /\ is_lib_err (dmg_err it) = true /\
  if undamaged it
  then valid_msg P PI (frame_hook tdp) io (dmg_bytes it)
  else full_fails P (dmg_bytes it) (dmg_err it) /\ info_ok PI (dmg_bytes it).
Proof.
  destruct it as [it [d|]]; unfold dmg_okb, dmg_bytes, dmg_err, undamaged; cbn [fst snd].
  - assert (Hlib : is_lib_err (damage_err d) = true) by (destruct d; reflexivity).
    destruct d as [x4|v|].
    + intros H. apply andb_true_iff in H as [Hit Hbad].
      pose proof Hit as Hit'. unfold item_okb in Hit'. apply andb_true_iff in Hit' as [Hm Hsep].
      destruct (item_msg it) as [m|] eqn:Em; [|discriminate]. apply andb_true_iff in Hm as [Hwf _].
      destruct (damaged_hyps _ _ _ _ Em Hwf Hbad) as (H1 & _ & H4 & H5).
      split; [exact H1|]. split; [apply nosigb_sound, Hsep|]. split; [exact Hlib|]. split; assumption.
    + intros H. apply andb_true_iff in H as [Hit Hbad].
      pose proof Hit as Hit'. unfold item_okb in Hit'. apply andb_true_iff in Hit' as [Hm Hsep].
      destruct (item_msg it) as [m|] eqn:Em; [|discriminate]. apply andb_true_iff in Hm as [Hwf _].
      destruct (damaged_hyps _ _ _ _ Em Hwf Hbad) as (H1 & _ & H4 & H5).
      split; [exact H1|]. split; [apply nosigb_sound, Hsep|]. split; [exact Hlib|]. split; assumption.
    + intros H. apply andb_true_iff in H as [Hm Hsep].
      destruct (item_msg it) as [m|] eqn:Em; [|discriminate].
      destruct (refused_item_hyps _ _ _ Em Hm) as (H1 & H2 & H3). cbn [damage_bytes damage_err].
      split; [exact H1|]. split; [apply nosigb_sound, Hsep|]. split; [reflexivity|]. split; assumption.
  - intros Hit. destruct (item_ok_valid dd dd_prefix dd_suffix dd_cuts view tdp io it Hit) as (H1 & H2 & H3).
    split; [exact H1|]. split; [exact H2|]. split; [reflexivity|exact H3].
Qed.

Lemma full_ok_is_ok b : full_ok P (frame_hook tdp) b -> is_ok (P b) = true.
Proof. intros (mi & H & _). specialize (H []). rewrite app_nil_r in H. rewrite H. reflexivity. Qed.
Lemma full_fails_not_ok b e : full_fails P b e -> is_ok (P b) = false.
Proof. intros H. specialize (H []). rewrite app_nil_r in H. rewrite H. reflexivity. Qed.

(* C12 end to end, continue_on_error: every damaged message is skipped exactly;
   all others are delivered unchanged, in order; the scan ends normally *)
Theorem e2e_continue_skips_damaged : forall sep0 items,
  nosigb sep0 = true -> forallb (dmg_okb dd refusesb false) items = true ->
  frame_generate dd view tdp filt false true false (sep0 ++ assemble (dmg_stream items))
  = (map dmg_bytes (filter undamaged items), None).
Proof.
  intros sep0 items H0 Hall. unfold frame_generate.
  rewrite forallb_forall in Hall.
  rewrite (scan_continue_skips _ _ _ _ (fun b => is_ok (P b))); [|apply nosigb_sound, H0|].
  - f_equal. unfold dmg_stream. rewrite map_map. cbn [fst]. rewrite filter_map. f_equal.
    apply filter_ext_in'. intros it Hin. destruct (dmg_item_hyps false it (Hall it Hin)) as (_ & _ & _ & H).
    destruct (undamaged it); [apply full_ok_is_ok, H|]. destruct H as [H _]. apply (full_fails_not_ok _ _ H).
  - unfold stream_ok, dmg_stream. rewrite Forall_map. apply Forall_forall. intros it Hin. cbn [fst snd].
    destruct (dmg_item_hyps false it (Hall it Hin)) as (H1 & H2 & Hlib & H4).
    split; [exact H1|]. split; [exact H2|]. destruct (undamaged it).
    + rewrite (full_ok_is_ok _ H4). exact H4.
    + destruct H4 as [Hf Hi]. rewrite (full_fails_not_ok _ _ Hf).
      split; [exists (dmg_err it); split; [exact Hlib|exact Hf]|exact Hi].
Qed.

(* ... without continue_on_error: the messages before it are delivered, then the
   library's error surfaces; nothing is assumed about what follows *)
Theorem e2e_stops_at_damaged : forall sep0 items it d rest,
  nosigb sep0 = true -> forallb (item_okb dd false) items = true ->
  dmg_okb dd refusesb false (it, Some d) = true ->
  frame_generate dd view tdp filt false false false
    (sep0 ++ assemble (stream_of items) ++ dmg_bytes (it, Some d) ++ rest)
  = (map item_bytes items, Some (damage_err d)).
Proof.
  intros sep0 items it d rest H0 Hall Hit. unfold frame_generate.
  destruct (dmg_item_hyps false (it, Some d) Hit) as (H1 & _ & Hlib & H4).
  unfold undamaged, dmg_err in *. cbn [snd] in *. destruct H4 as [Hf _].
  rewrite (scan_stops_at_library_error _ _ _ _ false sep0 (stream_of items) _ rest (damage_err d));
    [rewrite map_fst_stream_of; reflexivity|apply nosigb_sound, H0| |exact H1|exact Hf|exact Hlib].
  eapply stream_ok_of; [|exact Hall]. apply (item_ok_valid dd dd_prefix dd_suffix dd_cuts view tdp false).
Qed.

(* recorded: metadata-only mode reads neither section 5 nor the content of
   section 4 and never calls the template decoder, so none of these damages is
   detected there — the stream scans as if it were intact (the pieces are cut by
   the intact total length) *)
Theorem e2e_info_mode_delivers_damaged : forall coe sep0 items,
  nosigb sep0 = true -> forallb (dmg_okb dd refusesb true) items = true ->
  frame_generate dd view tdp filt true coe false (sep0 ++ assemble (dmg_stream items))
  = (map dmg_bytes items, None).
Proof.
  intros coe sep0 items H0 Hall. unfold frame_generate.
  rewrite scan_exact; [unfold dmg_stream; rewrite map_map; reflexivity|apply nosigb_sound, H0|].
  unfold stream_ok, dmg_stream. rewrite Forall_map. apply Forall_forall. intros it Hin.
  rewrite forallb_forall in Hall. cbn [fst snd].
  destruct (dmg_item_hyps true it (Hall it Hin)) as (H1 & H2 & _ & H4).
  split; [exact H1|]. split; [exact H2|]. destruct (undamaged it); [exact H4|]. cbn [valid_msg]. apply H4.
Qed.

End DamageStreams.
