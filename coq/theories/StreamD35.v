(* StreamD35.v — the hypothesis [info_ok] of scan_continue_skips cannot be dropped (finding D35).

   With continue_on_error, generate_bufr_message skips a damaged message by the total length its METADATA-ONLY decode
   declares.  When that decode fails as well (the length of section 1, 2 or 3 was changed: the total length in section 0
   is intact but nothing behind it can be read) the scan resumes one byte behind the start signature, and a complete
   message held in the damaged message's body is delivered as if it were a message of the stream.  The toy decoder below
   is Toy's with one addition: the metadata of a message whose category byte is 98 cannot be read. *)
From PBK Require Import Base Stream StreamProofs.

Module ToyU.
  Definition info (s : list byte) : result msginfo :=
    match Toy.info s with
    | Ok mi => if N.eqb (nth 5 s 0%N) 98%N then Err ELib else Ok mi
    | Err e => Err e
    end.
  Definition full (s : list byte) : result msginfo :=
    match info s with Err e => Err e | Ok _ => Toy.full s end.
  Definition gen := generate full info Toy.filt Toy.hook.

  (* 'BUFR' 17 98 <m2: a whole message> 0 0 '7': declared total length 17 = its real length *)
  Definition outer : list byte := sig ++ [17; 98]%N ++ Toy.m2 ++ [0; 0; 55]%N.
  Definition good (m : list byte) : bool := negb (N.eqb (nth 5 m 0%N) 98%N).
  Definition l : list (list byte * list byte) := [(Toy.m2, Toy.sA); (outer, Toy.sB); (Toy.m1, [])].

  Lemma outer_length : length outer = 17 /\ nth 4 outer 0%N = 17%N.
  Proof. split; reflexivity. Qed.

  Lemma outer_full_fails : full_fails full outer ELib.
  Proof. intros t. reflexivity. Qed.

  Lemma outer_info_fails : info_fails info outer ELib.
  Proof. intros t. reflexivity. Qed.

  Lemma m2_full_ok : full_ok full Toy.hook Toy.m2.
  Proof. eexists; split; [intros t; reflexivity|split; reflexivity]. Qed.

  Lemma m1_full_ok : full_ok full Toy.hook Toy.m1.
  Proof. eexists; split; [intros t; reflexivity|split; reflexivity]. Qed.

  Lemma stream_shape :
    stream_ok (fun m => if good m then full_ok full Toy.hook m
                        else exists e, is_lib_err e = true /\ full_fails full m e /\ info_fails info m e) l.
  Proof.
    repeat constructor; try (eexists; reflexivity); try (apply nosig_dec; vm_compute; reflexivity); cbn [fst good].
    - exact m2_full_ok.
    - exists ELib. split; [reflexivity|split; [exact outer_full_fails|exact outer_info_fails]].
    - exact m1_full_ok.
  Qed.

  Lemma delivered : gen false true false (Toy.s0 ++ assemble l) = ([Toy.m2; Toy.m2; Toy.m1], None).
  Proof. vm_compute; reflexivity. Qed.

  Lemma expected : filter good (map fst l) = [Toy.m2; Toy.m1].
  Proof. reflexivity. Qed.
End ToyU.

(* scan_continue_skips with [info_ok] replaced by "the metadata-only decode fails with the same library error" is false *)
Theorem continue_unreadable_metadata_refuted :
  exists (process process_info : list byte -> result msginfo) (filt : msginfo -> result bool)
         (hook : msginfo -> result unit) (good : list byte -> bool) (sep0 : list byte)
         (l : list (list byte * list byte)),
    nosig sep0 /\
    stream_ok (fun m => if good m then full_ok process hook m
                        else exists e, is_lib_err e = true /\ full_fails process m e /\ info_fails process_info m e) l /\
    Forall (fun x => N.to_nat (nth 4 (fst x) 0%N) = length (fst x)) l /\
    generate process process_info filt hook false true false (sep0 ++ assemble l)
    <> (filter good (map fst l), None).
Proof.
  exists ToyU.full, ToyU.info, Toy.filt, Toy.hook, ToyU.good, Toy.s0, ToyU.l.
  split; [apply nosig_dec; vm_compute; reflexivity|].
  split; [exact ToyU.stream_shape|].
  split; [repeat constructor|].
  change (ToyU.gen false true false (Toy.s0 ++ assemble ToyU.l) <> (filter ToyU.good (map fst ToyU.l), None)).
  rewrite ToyU.delivered, ToyU.expected. discriminate.
Qed.
