(* Compile.v — model of pybufrkit/templatecompiler.py.
   The TemplateCompiler is the generic walker run with recording handlers over a
   CompilerState (its registers evolve at COMPILE time); the result is a
   statement tree.  process_statements executes the tree at RUN time with the
   decoder's / encoder's primitives: only handler calls, the recorded CoderState
   method calls, n_031031 updates and loops are replayed — the operator registers
   are not, except for the state_properties injected before a marker operator. *)
From PBK Require Import Base Descr Walk Coder.

Inductive loopn := LFixed (n : N) | LDynamic.

(* state_properties of process_bitmapped_descriptor: the key 'new_bytes' is a
   typo in the source for new_nbytes unless repaired; modelled by the field the
   value is written to at run time (see exec) *)
Record sprops := mkProps { sp_new_nbytes : Z; sp_nbits_offset : Z; sp_scale_offset : Z; sp_bsr : bsrmod }.

Inductive stmt :=
  | SNumeric (dd : ddesc) (nbits scale refval : Z)
  | SNumericNR (dd : ddesc) (nbits scale factor : Z)
  | SString (dd : ddesc) (nbytes : Z)
  | SCodeflag (dd : ddesc) (nbits dnbits : Z)
  | SNewRefval (dd : ddesc) (nbits : Z)
  | SConstant (dd : ddesc) (v : Z)
  | SDefineBitmap (reuse : bool)
  | SBitmapped (id : N) (p : sprops)
  | SMark | SRecall | SCancelBitmap | SCancelBackrefs | SAddLink
  | SReset | SIncr
  | SLoop (n : loopn) (body : stmts)
with stmts :=
  | SNil
  | SCons (s : stmt) (r : stmts).

Scheme stmt_mut := Induction for stmt Sort Prop
with stmts_mut := Induction for stmts Sort Prop.
Combined Scheme stmt_stmts_ind from stmt_mut, stmts_mut.

Fixpoint stmts_app (a b : stmts) : stmts :=
  match a with SNil => b | SCons s r => SCons s (stmts_app r b) end.
Definition stmts_snoc (a : stmts) (s : stmt) : stmts := stmts_app a (SCons s SNil).

(* ---- the compiler: recording handlers over the current block ---------------- *)
Definition cstate := stmts.       (* block_stack[-1].statements; enclosing blocks live on the Coq stack *)

Definition emit (x : stmt) (s : ws cstate) : result (ws cstate) :=
  Ok (mkWs (w_r s) (stmts_snoc (w_c s) x)).

Definition comp_handlers : handlers cstate := {|
  h_numeric := fun dd a b c => emit (SNumeric dd a b c);
  h_numeric_new_refval := fun dd a b c => emit (SNumericNR dd a b c);
  h_string := fun dd a => emit (SString dd a);
  h_codeflag := fun dd a b => emit (SCodeflag dd a b);
  (* state.new_refvals[descriptor.id] = None: known at compile time to be redefined *)
  h_new_refval := fun dd a s =>
    emit (SNewRefval dd a)
         (upd_r (fun r => set_new_refvals (refval_set (dd_id dd) None (r_new_refvals r)) r) s);
  h_constant := fun dd v => emit (SConstant dd v);
  h_define_bitmap := fun reuse => emit (SDefineBitmap reuse);
  h_mark_boundary := emit SMark;
  h_recall_bitmap := emit SRecall;
  h_cancel_bitmap := emit SCancelBitmap;
  h_cancel_backrefs := emit SCancelBackrefs;
  h_add_bitmap_link := emit SAddLink;
  (* TemplateCompiler.process_bitmap_definition: compare n_031031 before and after *)
  h_bitmap_def_wrap := fun f s =>
    let n0 := r_n031031 (w_r s) in
    let* s1 := f s in
    let n1 := r_n031031 (w_r s1) in
    if (n1 =? 0)%Z then emit SReset s1
    else if (n1 =? n0 + 1)%Z then emit SIncr s1
    else if (n1 =? n0)%Z then Ok s1
    else Err ELib;
  (* new_loop: the body is compiled ONCE into a fresh block *)
  h_fixed := fun n body s =>
    let* s1 := body (mkWs (w_r s) SNil) in
    Ok (mkWs (w_r s1) (stmts_snoc (w_c s) (SLoop (LFixed n) (w_c s1))));
  h_delayed := fun body s =>
    let* s1 := body (mkWs (w_r s) SNil) in
    Ok (mkWs (w_r s1) (stmts_snoc (w_c s) (SLoop LDynamic (w_c s1))));
  h_bitmapped := fun id _ s =>
    let r := w_r s in
    emit (SBitmapped id (mkProps (r_new_nbytes r) (r_nbits_offset r) (r_scale_offset r) (r_bsr r))) s
|}.

Definition comp_add_link (idx : N) (s : ws cstate) : result (ws cstate) := Ok s.   (* never reached: h_bitmapped ignores the body *)

Definition compile (T : descs) : result stmts :=
  let* s := walk_list comp_handlers comp_add_link T (mkWs regs0 SNil) in Ok (w_c s).

(* ---- process_statements -------------------------------------------------------- *)
Section Exec.
Context {C : Type} (P : prims C).
Notation st := (ws (io C)).
Notation H := (io_handlers P).

(* setattr(state, k, v) for the state_properties.  [fixed_key] = true models the
   code after "fix: compiled templates restore the string width for marker
   operators" (key new_nbytes); false models the typo 'new_bytes', which creates
   an unused attribute and leaves new_nbytes alone. *)
Definition inject_props (fixed_key : bool) (p : sprops) (r : regs) : regs :=
  let r1 := if fixed_key then set_new_nbytes (sp_new_nbytes p) r else r in
  set_bsr (sp_bsr p) (set_scale_offset (sp_scale_offset p) (set_nbits_offset (sp_nbits_offset p) r1)).

Variable fixed_key : bool.

Fixpoint exec_stmt (x : stmt) (s : st) {struct x} : result st :=
  match x with
  | SNumeric dd a b c => h_numeric H dd a b c s
  | SNumericNR dd a b c => h_numeric_new_refval H dd a b c s
  | SString dd a => h_string H dd a s
  | SCodeflag dd a b => h_codeflag H dd a b s
  | SNewRefval dd a => h_new_refval H dd a s
  | SConstant dd v => h_constant H dd v s
  | SDefineBitmap reuse => h_define_bitmap H reuse s
  | SBitmapped id p =>
      bitmapped_default H io_add_link id (upd_r (inject_props fixed_key p) s)
  | SMark => h_mark_boundary H s
  | SRecall => h_recall_bitmap H s
  | SCancelBitmap => h_cancel_bitmap H s
  | SCancelBackrefs => h_cancel_backrefs H s
  | SAddLink => h_add_bitmap_link H s
  | SReset => Ok (upd_r (set_n031031 0) s)
  | SIncr => Ok (upd_r (fun r => set_n031031 (r_n031031 r + 1) r) s)
  | SLoop (LFixed n) body => iter_res n (exec_stmts body) s
  | SLoop LDynamic body => let* n := p_factor P (io_c (w_c s)) in iter_res n (exec_stmts body) s
  end
with exec_stmts (l : stmts) (s : st) {struct l} : result st :=
  match l with
  | SNil => Ok s
  | SCons x r => let* s1 := exec_stmt x s in exec_stmts r s1
  end.

(* process_template_data with a compiled template: the loop over subsets *)
Fixpoint run_subsets_c (code : stmts) (switch : nat -> C -> C) (i n : nat) (c : C)
    (acc : list subset_out) : result (list subset_out * C) :=
  match n with
  | O => Ok (acc, c)
  | S k =>
      let s0 := mkWs regs0 (mkIo [] [] (switch i c)) in
      let* s1 := exec_stmts code s0 in
      run_subsets_c code switch (S i) k (io_c (w_c s1))
                    (acc ++ [mkSubsetOut (io_dd (w_c s1)) (io_links (w_c s1))])
  end.

Definition run_compressed_c (code : stmts) (nsub : nat) (c : C) : result (list subset_out * C) :=
  let* s1 := exec_stmts code (mkWs regs0 (mkIo [] [] c)) in
  Ok (repeat (mkSubsetOut (io_dd (w_c s1)) (io_links (w_c s1))) nsub, io_c (w_c s1)).

End Exec.

(* ---- save / load: to_dict and loads_compiled_template --------------------------
   A descriptor argument is reduced to its numeric id and looked up again in the
   table group: associated / skipped / marker pseudo descriptors come back as
   whatever the tables hold for that id (D7). *)
Section Reload.
Context (lookup_b : N -> option elem).

Definition reload_dd (d : ddesc) : ddesc :=
  let id := dd_id d in
  if (id <? 100000)%N then
    match lookup_b id with
    | Some e => DDElem e
    | None => DDOper id          (* UndefinedElementDescriptor: label is the plain id *)
    end
  else DDOper id.

Fixpoint reload_stmt (x : stmt) : stmt :=
  match x with
  | SNumeric dd a b c => SNumeric (reload_dd dd) a b c
  | SNumericNR dd a b c => SNumericNR (reload_dd dd) a b c
  | SString dd a => SString (reload_dd dd) a
  | SCodeflag dd a b => SCodeflag (reload_dd dd) a b
  | SNewRefval dd a => SNewRefval (reload_dd dd) a
  | SConstant dd v => SConstant (reload_dd dd) v
  | SLoop n body => SLoop n (reload_stmts body)
  | other => other
  end
with reload_stmts (l : stmts) : stmts :=
  match l with SNil => SNil | SCons x r => SCons (reload_stmt x) (reload_stmts r) end.
End Reload.

(* ---- "operators opened and closed within one replication scope" ----------------
   Executable reading of the property's precondition: compiling the body of every
   replication leaves the operator registers (201, 202, 203, 204, 206, 207, 208,
   221) as it found them.  The bitmap definition stage and the 222 status are not
   compared (a bitmap defined by a replication of 031031 changes them by design). *)
Definition static_eqb (a b : regs) : bool :=
  (r_nbits_offset a =? r_nbits_offset b)%Z && (r_scale_offset a =? r_scale_offset b)%Z &&
  (r_nbits_new_refval a =? r_nbits_new_refval b)%Z &&
  (length (r_new_refvals a) =? length (r_new_refvals b))%nat &&
  (length (r_assoc a) =? length (r_assoc b))%nat && (sumZ (r_assoc a) =? sumZ (r_assoc b))%Z &&
  (r_nbits_skipped a =? r_nbits_skipped b)%Z &&
  (bsr_nbits (r_bsr a) =? bsr_nbits (r_bsr b))%Z && (bsr_scale (r_bsr a) =? bsr_scale (r_bsr b))%Z &&
  (r_new_nbytes a =? r_new_nbytes b)%Z && (r_dnp a =? r_dnp b)%Z.

Definition keep (s : ws bool) : result (ws bool) := Ok s.

Definition scope_handlers : handlers bool := {|
  h_numeric := fun _ _ _ _ => keep;
  h_numeric_new_refval := fun _ _ _ _ => keep;
  h_string := fun _ _ => keep;
  h_codeflag := fun _ _ _ => keep;
  h_new_refval := fun dd _ s =>
    Ok (upd_r (fun r => set_new_refvals (refval_set (dd_id dd) None (r_new_refvals r)) r) s);
  h_constant := fun _ _ => keep;
  h_define_bitmap := fun _ => keep;
  h_mark_boundary := keep;
  h_recall_bitmap := keep;
  h_cancel_bitmap := keep;
  h_cancel_backrefs := keep;
  h_add_bitmap_link := keep;
  h_bitmap_def_wrap := fun f => f;
  h_fixed := fun n body s =>
    let* s1 := body s in
    Ok (mkWs (w_r s1) (w_c s1 && static_eqb (w_r s) (w_r s1)));
  h_delayed := fun body s =>
    let* s1 := body s in
    Ok (mkWs (w_r s1) (w_c s1 && static_eqb (w_r s) (w_r s1)));
  h_bitmapped := fun _ _ => keep
|}.

Definition scoped (T : descs) : bool :=
  match walk_list scope_handlers (fun _ s => Ok s) T (mkWs regs0 true) with
  | Ok s => w_c s
  | Err _ => false
  end.
