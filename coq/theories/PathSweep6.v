(* PathSweep6.v — C15: the bounded sweeps for length <= 6 (3 257 437 strings over the
   12-symbol alphabet of the quantifier), separate because it is the slow one. *)
From PBK Require Import Base PathParser PathGrammar PathProofs.

Lemma sweep_agrees_6 : forallb (fun k => forallb agrees (strings alphabet12 k)) (seq 0 7) = true.
Proof. vm_compute. reflexivity. Qed.

Theorem parse_iff_grammar_upto6 : forall s, (length s <= 6)%nat ->
  (forall c, In c s -> In c alphabet12) -> agrees s = true.
Proof. exact (sweep_lift agrees 6 sweep_agrees_6). Qed.
