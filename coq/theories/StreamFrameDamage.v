(* StreamFrameDamage.v — C12 end to end: an encoded message whose stop signature
   (the last four octets) is replaced by anything else makes the concrete full
   decode fail with the library's error whatever follows, while its metadata-only
   decode and its declared length are intact: the concrete scanner skips exactly
   that message with continue_on_error and stops at it without. *)
From PBK Require Import Base Bits BitsProofs Frame FrameProofs FrameRoundtrip MdQuery MdQueryProofs
  FramePrefix FramePrefixEnc Stream StreamProofs StreamFrame StreamFrameProofs.
From Coq Require Import ZifyBool ZifyNat ZifyN.

Section Split5.
Variable dd : list (pname * pvalue) -> reader -> result (bits * reader).
Hypothesis dd_prefix : forall p r b r', dd p r = Ok (b, r') -> r = b ++ r'.
Hypothesis dd_suffix : forall p r b r' s, dd p r = Ok (b, r') -> dd p (r ++ s) = Ok (b, r' ++ s).
Hypothesis dd_cuts : forall p, cuts (dd p).

(* a section that decodes consumed a prefix e of the stream and decodes the same
   way whatever REPLACES the rest (truncation + extension) *)
Lemma section_replace c props R sec props1 r1 :
  decode_section dd c props R = Ok (sec, props1, r1) ->
  exists e, R = e ++ r1 /\ sec_nbits sec = length e /\
    forall x, decode_section dd c props (e ++ x) = Ok (sec, props1, x).
Proof.
  intros H.
  destruct (decode_section_cut dd dd_cuts c props R (sec, props1) r1 H) as (e & E & Hk).
  destruct (decode_section_nbits dd dd_cuts _ _ _ _ _ _ H) as (e' & E' & Hn).
  assert (e' = e) by (rewrite E in E'; apply app_inv_tail in E'; auto). subst e'.
  exists e. split; [exact E|]. split; [exact Hn|]. intros x.
  destruct (Hk (length e)) as [Hge _]. specialize (Hge (le_n _)).
  rewrite E, firstn_app_exact, Nat.sub_diag in Hge by reflexivity. cbn [firstn] in Hge.
  destruct (decode_section_ok dd dd_prefix dd_suffix _ _ _ _ _ _ Hge) as (_ & _ & _ & _ & _ & _ & G).
  exact (G x).
Qed.

(* the section loop of a full decode, split where section 5 begins: everything
   before is a function of the prefix e of the stream alone *)
Lemma decode_sections_upto5 : forall idxs props secs R secs' props' r',
  decode_sections dd definitions false false idxs props secs R = Ok (secs', props', r') ->
  exists e pre props5 r5,
    R = e ++ r5 /\
    forall x, decode_sections dd definitions false false idxs props secs (e ++ x) =
              let* (sec, p1, r1) := decode_section dd section5 props5 x in Ok (pre ++ [sec], p1, r1).
Proof.
  induction idxs as [|i idxs IH]; intros props secs R secs' props' r' H; [discriminate|].
  rewrite decode_sections_cons1 in H. apply bind_ok in H as (oc & Hc & H). destruct oc as [c|].
  - apply bind_ok in H as ([[sec props1] r1] & Hs & H).
    destruct (configure_section_plain _ _ _ _ Hc) as [Hin Hidx].
    destruct (s_end c) eqn:Hend.
    + pose proof (definitions_end c Hin Hend) as ->.
      exists [], secs, props, R. split; [reflexivity|]. intros x. cbn [app].
      rewrite decode_sections_cons1, Hc. cbn [bind]. change (s_end section5) with true. reflexivity.
    + destruct (section_replace _ _ _ _ _ _ Hs) as (e1 & E1 & _ & G1).
      destruct (IH _ _ _ _ _ _ H) as (e2 & pre & props5 & r5 & E2 & G2).
      exists (e1 ++ e2), pre, props5, r5. split; [rewrite E1, E2, app_assoc; reflexivity|].
      intros x. rewrite <- app_assoc, decode_sections_cons1, Hc. cbn [bind]. rewrite G1. cbn [bind].
      rewrite Hend. apply G2.
  - destruct (IH _ _ _ _ _ _ H) as (e2 & pre & props5 & r5 & E2 & G2).
    exists e2, pre, props5, r5. split; [exact E2|]. intros x.
    rewrite decode_sections_cons1, Hc. cbn [bind]. apply G2.
Qed.

(* section 5 on four octets that are not '7777': the repaired expected-value
   check raises PyBufrKitError *)
Lemma decode_section5_bad props (x4 : list byte) t :
  length x4 = 4%nat -> forallb is_byte x4 = true -> bytes_eqb x4 sig_7777 = false ->
  decode_section dd section5 props (bits_of_bytes x4 ++ t) = Err ELib.
Proof.
  intros Hl Hb Hne. unfold decode_section. cbn [section5 s_params decode_params p_type p_nbits].
  change (32 =? 0)%Z with false. cbv iota. unfold read_typed, read_bytes.
  change (32 / 8 <? 0)%Z with false. cbv iota. change (8 * Z.to_nat (32 / 8))%nat with 32%nat.
  assert (Ht : take_bits 32 (bits_of_bytes x4 ++ t) = Ok (bits_of_bytes x4, t)).
  { assert (L32 : length (bits_of_bytes x4) = 32%nat) by (rewrite length_bits_of_bytes, Hl; reflexivity).
    rewrite <- L32. apply take_bits_app. }
  rewrite Ht. cbn [bind]. change (Z.to_nat (32 / 8)) with 4%nat.
  assert (Hbb : bytes_of_bits 4 (bits_of_bytes x4) = x4).
  { pose proof (bytes_of_bits_of_bytes x4 [] Hb) as Hx. rewrite app_nil_r in Hx.
    assert (Hl' : @length N x4 = 4%nat) by exact Hl. rewrite Hl' in Hx. exact Hx. }
  rewrite Hbb.
  unfold check_expected. cbn [p_expected]. change [55; 55; 55; 55]%N with sig_7777. rewrite Hne. reflexivity.
Qed.

(* THE damage theorem, message level: sections 0..4 of an encoded message
   followed by four octets other than '7777' and then anything *)
Theorem damaged_stop_signature_fails : forall ign json m (x4 : list byte) t,
  encode_message ign json = Ok m ->
  Forall sec_fits (m_sections m) -> Forall desc_fill_ok (m_sections m) -> data_ok dd [] (m_sections m) ->
  length x4 = 4%nat -> forallb is_byte x4 = true -> bytes_eqb x4 sig_7777 = false ->
  decode_message dd None false false (firstn (length (m_bytes m) - 4) (m_bytes m) ++ x4 ++ t) = Err ELib.
Proof.
  intros ign json m x4 t Henc Hfits Hdfs Hdat Hl Hb Hne.
  destruct (encoded_decodes dd dd_prefix dd_suffix _ _ _ Henc Hfits Hdfs Hdat) as (m' & Hdec & Hbm & Hn & _ & H12).
  destruct (encoded_full_decode dd dd_prefix dd_suffix _ _ _ Henc Hfits Hdfs Hdat) as (Hf & _).
  rewrite (decode_sig_none _ _ _ _ _ Hf) in Hdec.
  set (L := length (m_bytes m)) in *.
  unfold decode_message, decode_message_with in Hdec |- *. cbn [bind] in Hdec |- *.
  change (skipn 0 (m_bytes m)) with (m_bytes m) in Hdec.
  change (skipn 0 (firstn (L - 4) (m_bytes m) ++ x4 ++ t)) with (firstn (L - 4) (m_bytes m) ++ x4 ++ t).
  apply bind_ok in Hdec as ([[secs props] r'] & Hs & Hm). apply ok_inj in Hm. subst m'. cbn [m_sections] in Hn.
  destruct (decode_sections_nbits dd dd_cuts _ _ _ _ _ _ _ _ _ _ Hs) as (E & new & HE & Hnew & HlE).
  cbn [app] in Hnew. subst new.
  destruct (decode_sections_upto5 _ _ _ _ _ _ _ Hs) as (e & pre & props5 & r5 & Er & G).
  pose proof (G r5) as G5. rewrite <- Er, Hs in G5. symmetry in G5.
  apply bind_ok in G5 as ([[sec5 p1] r1] & H5 & G5). injection G5 as _ _ ->.
  destruct (decode_section5 dd false false _ _ _ _ _ H5) as [Hn5 _].
  destruct (decode_section_nbits dd dd_cuts _ _ _ _ _ _ H5) as (e5 & E5 & Hl5).
  assert (Lr : length (bits_of_bytes (m_bytes m)) = (8 * L)%nat) by apply length_bits_of_bytes.
  assert (Hr' : r' = []).
  { apply length_zero_iff_nil. rewrite HE, app_length in Lr. lia. }
  subst r'. rewrite app_nil_r in E5. subst r5.
  assert (Le : length e = (8 * (L - 4))%nat).
  { rewrite Er, app_length in Lr. lia. }
  assert (Ee : bits_of_bytes (firstn (L - 4) (m_bytes m)) = e).
  { rewrite bits_of_bytes_firstn, Er. apply firstn_app_exact, Le. }
  rewrite !bits_of_bytes_app, Ee, G.
  rewrite (decode_section5_bad props5 x4 (bits_of_bytes t) Hl Hb Hne). reflexivity.
Qed.

End Split5.

(* ------------------------------------------------------------------------ *)
(* streams with damaged messages                                             *)
(* ------------------------------------------------------------------------ *)
(* four octets that are bytes and not '7777' *)
Definition bad_stopb (x4 : list byte) : bool :=
  (length x4 =? 4)%nat && forallb is_byte x4 && negb (bytes_eqb x4 sig_7777).

(* the message with its last four octets replaced by x4 *)
Definition replace_stop (b x4 : list byte) : list byte := firstn (length b - 4) b ++ x4.

Definition ends_7777b (s : list byte) : bool := bytes_eqb (skipn (length s - 4) s) sig_7777.

Lemma filter_map {A B} (f : A -> B) (g : B -> bool) l : filter g (map f l) = map f (filter (fun x => g (f x)) l).
Proof. induction l as [|x l IH]; [reflexivity|]. cbn [map filter]. destruct (g (f x)); cbn [map]; rewrite IH; reflexivity. Qed.

Lemma filter_ext_in' {A} (f g : A -> bool) l : (forall x, In x l -> f x = g x) -> filter f l = filter g l.
Proof.
  induction l as [|x l IH]; intros H; [reflexivity|]. cbn [filter]. rewrite (H x (or_introl eq_refl)).
  rewrite IH; [reflexivity|]. intros y Hy. apply H. right. exact Hy.
Qed.

Section DamageEndToEnd.
Variable dd : list (pname * pvalue) -> reader -> result (bits * reader).
Hypothesis dd_prefix : forall p r b r', dd p r = Ok (b, r') -> r = b ++ r'.
Hypothesis dd_suffix : forall p r b r' s, dd p r = Ok (b, r') -> dd p (r ++ s) = Ok (b, r' ++ s).
Hypothesis dd_cuts : forall p, cuts (dd p).
Variable view : message -> list N.
Variable tdp : msginfo -> result unit.
Variable filt : msginfo -> result bool.

Lemma bad_stopb_spec x4 : bad_stopb x4 = true ->
  length x4 = 4%nat /\ forallb is_byte x4 = true /\ bytes_eqb x4 sig_7777 = false.
Proof.
  unfold bad_stopb. intros H. apply andb_true_iff in H as [H H3]. apply andb_true_iff in H as [H1 H2].
  apply Nat.eqb_eq in H1. apply negb_true_iff in H3. auto.
Qed.

(* what the scanner theorems ask of a damaged message *)
Theorem damaged_stop_hyps : forall ign json m x4,
  encode_message ign json = Ok m -> msg_wfb dd m = true -> bad_stopb x4 = true ->
  let d := replace_stop (m_bytes m) x4 in
  starts_sig d /\ length d = length (m_bytes m) /\ ends_7777b d = false /\
  full_fails (frame_process dd view false) d ELib /\
  info_ok (frame_process dd view true) d.
Proof.
  intros ign json m x4 Henc Hwf Hbad. cbv zeta. unfold replace_stop.
  destruct (msg_wfb_sound dd dd_prefix dd_suffix _ Hwf) as (Hfits & Hdfs & Hdat).
  destruct (bad_stopb_spec _ Hbad) as (Hl & Hb & Hne).
  destruct (encoded_decodes dd dd_prefix dd_suffix _ _ _ Henc Hfits Hdfs Hdat) as (_ & _ & _ & _ & _ & H12).
  set (L := length (m_bytes m)) in *.
  assert (Lf : length (firstn (L - 4) (m_bytes m)) = (L - 4)%nat) by (rewrite firstn_length; lia).
  assert (Ld : length (firstn (L - 4) (m_bytes m) ++ x4) = L) by (rewrite app_length, Lf; lia).
  split.
  { destruct (encoded_starts_sig dd dd_prefix dd_suffix _ _ _ Henc Hwf) as (b & Eb).
    exists (firstn (L - 4 - 4) b ++ x4). rewrite Eb, firstn_app. change (length Stream.sig) with 4%nat.
    rewrite (@firstn_all2 _ (L - 4)%nat Stream.sig) by (change (length Stream.sig) with 4%nat; lia).
    rewrite <- app_assoc. reflexivity. }
  split; [exact Ld|]. split.
  { unfold ends_7777b. rewrite Ld, (skipn_app_exact _ _ _ Lf). exact Hne. }
  split.
  { intros t. unfold frame_process. rewrite <- app_assoc.
    rewrite (damaged_stop_signature_fails dd dd_prefix dd_suffix dd_cuts _ _ _ _ _ Henc Hfits Hdfs Hdat Hl Hb Hne).
    reflexivity. }
  destruct (encoded_info_decode dd dd_prefix dd_suffix dd_cuts _ _ _ Henc Hfits Hdfs Hdat) as (mi & Hall & Hcut & _).
  pose proof (Hall []) as H0. rewrite app_nil_r in H0.
  pose proof (encoded_declared dd _ _ _ _ _ Henc H0) as Hlen.
  exists (MsgInfo (length (m_bytes mi)) L (meta_of view mi)). split; [|cbn [mi_declared]; lia].
  intros t. unfold frame_process. rewrite <- app_assoc. fold L in Hcut. rewrite (Hcut (x4 ++ t)). cbn [bind].
  unfold msginfo_of. rewrite Hlen. f_equal. f_equal. lia.
Qed.

End DamageEndToEnd.
