(* TemplateExamples.v — non-vacuity: the hypotheses of the C14 theorems hold for a
   bundled table (WMO master table version 33, literal generated from /repo), and
   concrete descriptor lists. *)
From PBK Require Import Base Descr Template TemplateProofs TemplateData.

Lemma defined_d_in : forall ls id, defined_d ls id = true -> In id (all_ids_d ls).
Proof.
  induction ls as [|l older IH]; intros id H; [discriminate|].
  cbn [defined_d] in H. unfold all_ids_d. cbn [concat]. rewrite map_app. apply in_or_app.
  destruct (assoc_d id l) as [mids|] eqn:A.
  - left. apply assoc_d_in in A. change id with (fst (id, mids)). apply in_map. exact A.
  - right. apply IH. exact H.
Qed.

(* the bundled Table D loads: no member list ends in a delayed replication, the fuel
   (table size + 1) suffices for every entry — i.e. the table is acyclic *)
Example v33_loads : load_d_check B33 (default_fuel D33) D33 = Ok tt.
Proof. vm_compute. reflexivity. Qed.

Example v33_factors_ok : tabD_factors_ok D33 = true.
Proof. vm_compute. reflexivity. Qed.

Example v33_sufficient_fuel :
  forallb (fun id => is_ok (lookup_d B33 D33 id) && defined_d D33 id) (all_ids_d D33) = true.
Proof. vm_compute. reflexivity. Qed.

Lemma v33_total : ld_total (lookup_d B33 D33).
Proof.
  intros id. destruct (defined_d D33 id) eqn:E.
  - apply defined_d_in in E. pose proof v33_sufficient_fuel as H.
    rewrite forallb_forall in H. specialize (H _ E). apply andb_prop in H. destruct H as [H _].
    destruct (lookup_d B33 D33 id) as [d|e]; [eauto|discriminate].
  - exists (DUndefSeq id). apply lookup_d_undefined. exact E.
Qed.

(* expand_flat instantiated: EVERY sequence of the bundled version-33 Table D flattens
   to the direct expansion of the table data *)
Theorem expand_flat_v33 : forall id, In id (all_ids_d D33) ->
  exists d, lookup_d B33 D33 id = Ok d /\
            flat_member_ids d = expand_direct (default_fuel D33) D33 id /\
            attrs_intact B33 (flat_elems_d d).
Proof.
  intros id Hin. pose proof v33_sufficient_fuel as H.
  rewrite forallb_forall in H. specialize (H _ Hin). apply andb_prop in H. destruct H as [H Hd].
  destruct (lookup_d B33 D33 id) as [d|e] eqn:E; [|discriminate].
  exists d. split; [reflexivity|]. split.
  - apply (expand_flat B33 D33 id d v33_factors_ok E Hd).
  - eapply sequence_elements_keep_attributes. exact E.
Qed.

Example v33_has_sequences : length (all_ids_d D33) = 588. Proof. vm_compute. reflexivity. Qed.

(* a concrete sequence: 301011 = year, month, day *)
Example v33_301011 :
  expand_direct (default_fuel D33) D33 301011 = Ok [4001; 4002; 4003]%N.
Proof. vm_compute. reflexivity. Qed.

(* a sequence with repeated members: 302004 *)
Example v33_302004 :
  (let* d := lookup_d B33 D33 302004 in flat_member_ids d) = Ok [20010; 8002; 20011; 20013; 20012; 20012; 20012]%N.
Proof. vm_compute. reflexivity. Qed.

(* ---- descriptor lists ----------------------------------------------------------- *)
Definition wf_example : list N :=
  [301011; 105002; 1001; 102000; 31001; 12101; 12103; 1002; 201130; 399999; 63255]%N.

Example wf_example_wf : wf_ids wf_example = true. Proof. vm_compute. reflexivity. Qed.

(* original_ids_build applies to it (hypotheses discharged for the bundled table) *)
Example wf_example_roundtrip :
  exists t, build B33 (lookup_d B33 D33) wf_example = Ok t /\ original_ids t = wf_example
            /\ exact_members t = true.
Proof. apply original_ids_build; [apply expand_seq_shape|apply v33_total|exact wf_example_wf]. Qed.

(* ... and the tree has the expected ownership: 105002 owns five ids, the nested
   102000 (factor 031001) owns two of them *)
Example wf_example_tree :
  match build B33 (lookup_d B33 D33) wf_example with
  | Ok (DCons (DSeq 301011 _)
         (DCons (DFixed 105002
                   (DCons (DElem _) (DCons (DDelayed 102000 (DElem f) (DCons (DElem _) (DCons (DElem _) DNil))) DNil)))
            (DCons (DElem _) (DCons (DOper 201130) (DCons (DUndefSeq 399999) (DCons (DUndefElem 63255) DNil)))))) =>
    e_id f = 31001%N
  | _ => False
  end.
Proof. vm_compute. reflexivity. Qed.

(* the two unknown descriptors are reached: UnknownDescriptor *)
Example wf_example_unknown :
  (let* t := build B33 (lookup_d B33 D33) wf_example in undef_scan t) = Err EUnknownDescriptor.
Proof. vm_compute. reflexivity. Qed.

Example unknown_hypotheses :
  unknown_id B33 D33 63255 = true /\ unknown_id B33 D33 399999 = true /\ unknown_id B33 D33 1001 = false.
Proof. vm_compute. repeat split. Qed.

(* ill-formed lists (build_short_list, build_delayed_at_end and the nested limit) *)
Example short_list : (* 103002 wants three ids, one is there: one member, no error *)
  (let* t := build B33 (lookup_d B33 D33) [103002; 1001]%N in Ok (original_ids t, exact_members t))
  = Ok ([103002; 1001]%N, false).
Proof. vm_compute. reflexivity. Qed.

Example short_list_hyp : is_replication 103002 = true /\ (103002 mod 1000 =? 0)%N = false
                         /\ (length [1001%N] <= n_items 103002)%nat.
Proof. vm_compute. repeat split. lia. Qed.

Example delayed_at_end_nested : (* the inner 101000 finds its allowance used up: no factor *)
  build B33 (lookup_d B33 D33) [101001; 101000; 31001; 1001]%N = Err ELib.
Proof. vm_compute. reflexivity. Qed.

Example nested_limit : (* 102002 owns 101000 and its factor; 101000 gets no members, silently *)
  match build B33 (lookup_d B33 D33) [102002; 101000; 31001; 1001; 1002]%N with
  | Ok (DCons (DFixed 102002 (DCons (DDelayed 101000 _ DNil) DNil)) (DCons (DElem _) (DCons (DElem _) DNil))) => True
  | _ => False
  end.
Proof. vm_compute. exact I. Qed.

Example factor_is_whatever_follows : (* a sequence id in factor position: Table B placeholder *)
  match build B33 (lookup_d B33 D33) [101000; 301011; 1001]%N with
  | Ok (DCons (DDelayed 101000 (DUndefElem 301011) (DCons (DElem _) DNil)) DNil) => True
  | _ => False
  end.
Proof. vm_compute. exact I. Qed.

(* ---- version selection --------------------------------------------------------------- *)
Definition L_example : listing :=
  mkListing [0%N] [(0, (0, 0), 33); (0, (0, 0), 13); (0, (98, 0), 1)]%N.

Example normalize_examples :
  normalize_tables_sn L_example 0 0 0 13 0 = ((0, (0, 0), 13)%N, None) /\
  normalize_tables_sn L_example 0 0 0 42 0 = ((0, (0, 0), 33)%N, None) /\
  normalize_tables_sn L_example 5 98 7 13 1 = ((0, (0, 0), 13)%N, Some (0, (98, 0), 1)%N) /\
  normalize_tables_sn L_example 0 7 0 13 1 = ((0, (0, 0), 13)%N, None) /\
  table_group_key L_example None None None (Some 0%N) None = ((0, (0, 0), 33)%N, None) /\
  isdir_sn L_example (0, (0, 0), DEFAULT_MASTER_TABLE_VERSION)%N = true.
Proof. vm_compute. repeat split. Qed.
