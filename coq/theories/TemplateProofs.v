(* TemplateProofs.v — theorems about Template.v (C14). *)
From Coq Require Import ZifyBool ZifyNat ZifyN.
From PBK Require Import Base Descr Template.

(* ---- list helpers ------------------------------------------------------------- *)
Lemma skipn_skipn {A} : forall b a (l : list A), skipn a (skipn b l) = skipn (a + b) l.
Proof.
  induction b as [|b IH]; intros a l.
  - rewrite Nat.add_0_r. reflexivity.
  - rewrite Nat.add_succ_r. destruct l as [|x l]; cbn [skipn].
    + apply skipn_nil.
    + apply IH.
Qed.

Lemma skipn_firstn_min {A} : forall x n (l : list A),
  skipn x (firstn n l) = firstn (n - x) (skipn (Nat.min x n) l).
Proof.
  intros x n l. destruct (Nat.le_gt_cases x n) as [H|H].
  - rewrite Nat.min_l by exact H. apply skipn_firstn_comm.
  - replace (n - x) with 0 by lia. cbn [firstn].
    apply skipn_all2. pose proof (firstn_le_length n l). lia.
Qed.

Lemma skipn_sub_min {A} : forall x n (l : list A),
  skipn (n - x) (skipn (Nat.min x n) l) = skipn n l.
Proof. intros. rewrite skipn_skipn. f_equal. lia. Qed.

Lemma firstn_sub_min {A} : forall x n (l : list A),
  firstn (n - x) (skipn (Nat.min x n) l) = firstn (n - x) (skipn x l).
Proof.
  intros x n l. destruct (Nat.le_gt_cases x n) as [H|H].
  - rewrite Nat.min_l by exact H. reflexivity.
  - replace (n - x) with 0 by lia. reflexivity.
Qed.

Section BuildProofs.
  Variable tb : tabB.
  Variable ld : N -> result desc.

  (* ---- the stream-with-allowance function is the "next X ids" function -------- *)
  Lemma build_s_owns : forall fuel n ids,
    build_s tb ld fuel n ids =
    (let* ds := build_a tb ld fuel (firstn n ids) in Ok (ds, skipn n ids)).
  Proof.
    induction fuel as [|f IH]; intros n ids; [reflexivity|].
    destruct n as [|n1]; [reflexivity|].
    destruct ids as [|id rest]; [reflexivity|].
    cbn [build_s build_a firstn skipn].
    destruct (300000 <=? id)%N.
    { destruct (ld id) as [d|e]; cbn [bind]; [|reflexivity].
      rewrite IH. destruct (build_a tb ld f (firstn n1 rest)); reflexivity. }
    destruct (200000 <=? id)%N.
    { rewrite IH. destruct (build_a tb ld f (firstn n1 rest)); reflexivity. }
    destruct (100000 <=? id)%N.
    2:{ rewrite IH. destruct (build_a tb ld f (firstn n1 rest)); reflexivity. }
    destruct (id mod 1000 =? 0)%N.
    - destruct n1 as [|n2]; [reflexivity|].
      destruct rest as [|fid rest2]; [reflexivity|].
      cbn [firstn skipn].
      rewrite IH. rewrite firstn_firstn.
      destruct (build_a tb ld f (firstn (Nat.min (n_items id) n2) rest2)) as [ms|e]; cbn [bind]; [|reflexivity].
      rewrite IH. rewrite skipn_firstn_min, skipn_sub_min.
      destruct (build_a tb ld f (firstn (n2 - n_items id) (skipn (Nat.min (n_items id) n2) rest2)));
        reflexivity.
    - rewrite IH. rewrite firstn_firstn.
      destruct (build_a tb ld f (firstn (Nat.min (n_items id) n1) rest)) as [ms|e]; cbn [bind]; [|reflexivity].
      rewrite IH. rewrite skipn_firstn_min, skipn_sub_min.
      destruct (build_a tb ld f (firstn (n1 - n_items id) (skipn (Nat.min (n_items id) n1) rest)));
        reflexivity.
  Qed.

  Lemma build_is_build_a : forall ids, build tb ld ids = build_a tb ld (S (length ids)) ids.
  Proof.
    intros ids. unfold build. rewrite build_s_owns, firstn_all.
    destruct (build_a tb ld (S (length ids)) ids); reflexivity.
  Qed.

  (* fuel above the list length is never exhausted and the result does not depend on it *)
  Lemma build_a_fuel : forall f1 f2 ids,
    length ids < f1 -> length ids < f2 -> build_a tb ld f1 ids = build_a tb ld f2 ids.
  Proof.
    induction f1 as [|f1 IH]; intros f2 ids H1 H2; [lia|].
    destruct f2 as [|f2]; [lia|].
    destruct ids as [|id rest]; [reflexivity|].
    cbn [length] in H1, H2. cbn [build_a].
    assert (Hr : build_a tb ld f1 rest = build_a tb ld f2 rest). { apply IH; lia. }
    assert (Hf : forall n, build_a tb ld f1 (firstn n rest) = build_a tb ld f2 (firstn n rest)).
    { intros n. pose proof (firstn_length n rest). apply IH; lia. }
    assert (Hs : forall n, build_a tb ld f1 (skipn n rest) = build_a tb ld f2 (skipn n rest)).
    { intros n. pose proof (skipn_length n rest). apply IH; lia. }
    rewrite Hr, Hf, Hs.
    destruct rest as [|fid rest2]; [reflexivity|].
    cbn [length] in H1, H2.
    assert (Hf2 : forall n, build_a tb ld f1 (firstn n rest2) = build_a tb ld f2 (firstn n rest2)).
    { intros n. pose proof (firstn_length n rest2). apply IH; lia. }
    assert (Hs2 : forall n, build_a tb ld f1 (skipn n rest2) = build_a tb ld f2 (skipn n rest2)).
    { intros n. pose proof (skipn_length n rest2). apply IH; lia. }
    rewrite Hf2, Hs2. reflexivity.
  Qed.

  Lemma build_a_no_fuel_err : forall f ids, length ids < f -> build_a tb ld f ids <> Err EFuel
                                                            \/ exists id, ld id = Err EFuel.
  Proof.
    induction f as [|f IH]; intros ids H; [lia|].
    destruct ids as [|id rest]; [left; discriminate|].
    cbn [length] in H. cbn [build_a].
    assert (Hr : build_a tb ld f rest <> Err EFuel \/ exists id, ld id = Err EFuel) by (apply IH; lia).
    assert (Hf : forall n, build_a tb ld f (firstn n rest) <> Err EFuel \/ exists id, ld id = Err EFuel).
    { intros n. pose proof (firstn_length n rest). apply IH; lia. }
    assert (Hs : forall n, build_a tb ld f (skipn n rest) <> Err EFuel \/ exists id, ld id = Err EFuel).
    { intros n. pose proof (skipn_length n rest). apply IH; lia. }
    destruct Hr as [Hr|Hr]; [|right; exact Hr].
    destruct (300000 <=? id)%N.
    { destruct (ld id) as [d|e] eqn:E; cbn [bind].
      - destruct (build_a tb ld f rest); cbn [bind]; [left; discriminate|left; congruence].
      - destruct e; try (left; discriminate). right. eauto. }
    destruct (200000 <=? id)%N.
    { destruct (build_a tb ld f rest); cbn [bind]; [left; discriminate|left; congruence]. }
    destruct (100000 <=? id)%N.
    2:{ destruct (build_a tb ld f rest); cbn [bind]; [left; discriminate|left; congruence]. }
    destruct (id mod 1000 =? 0)%N.
    - destruct rest as [|fid rest2]; [left; discriminate|].
      cbn [length] in H.
      assert (Hf2 : forall n, build_a tb ld f (firstn n rest2) <> Err EFuel \/ exists id, ld id = Err EFuel).
      { intros n. pose proof (firstn_length n rest2). apply IH; lia. }
      assert (Hs2 : forall n, build_a tb ld f (skipn n rest2) <> Err EFuel \/ exists id, ld id = Err EFuel).
      { intros n. pose proof (skipn_length n rest2). apply IH; lia. }
      destruct (Hf2 (n_items id)) as [A|A]; [|right; exact A].
      destruct (Hs2 (n_items id)) as [B|B]; [|right; exact B].
      destruct (build_a tb ld f (firstn (n_items id) rest2)); cbn [bind]; [|left; congruence].
      destruct (build_a tb ld f (skipn (n_items id) rest2)); cbn [bind]; [left; discriminate|left; congruence].
    - destruct (Hf (n_items id)) as [A|A]; [|right; exact A].
      destruct (Hs (n_items id)) as [B|B]; [|right; exact B].
      destruct (build_a tb ld f (firstn (n_items id) rest)); cbn [bind]; [|left; congruence].
      destruct (build_a tb ld f (skipn (n_items id) rest)); cbn [bind]; [left; discriminate|left; congruence].
  Qed.
End BuildProofs.

(* ---- original_descriptor_ids ---------------------------------------------------- *)
Lemma orig_flat_app : forall a b, orig_flat (descs_app a b) = orig_flat a ++ orig_flat b.
Proof.
  induction a as [|d r IH]; intros b; cbn [descs_app orig_flat]; [reflexivity|].
  rewrite IH, app_assoc. reflexivity.
Qed.

Lemma descs_size_app : forall a b, descs_size (descs_app a b) = descs_size a + descs_size b.
Proof.
  induction a as [|d r IH]; intros b; cbn [descs_app descs_size]; [reflexivity|].
  rewrite IH. lia.
Qed.

Lemma desc_size_pos : forall d, 1 <= desc_size d.
Proof. destruct d; cbn [desc_size]; lia. Qed.

Lemma orig_wl_structural : forall fuel wl, descs_size wl < fuel -> orig_wl fuel wl = orig_flat wl.
Proof.
  induction fuel as [|f IH]; intros wl H; [lia|].
  destruct wl as [|m rest]; [reflexivity|].
  cbn [descs_size] in H. pose proof (desc_size_pos m) as Hm.
  cbn [orig_wl orig_flat].
  destruct m; cbn [orig_flat_d desc_id desc_size app] in *;
    try (rewrite IH by lia; reflexivity).
  - rewrite IH by (rewrite descs_size_app; lia). rewrite orig_flat_app. reflexivity.
  - rewrite IH by (rewrite descs_size_app; lia). rewrite orig_flat_app. reflexivity.
Qed.

(* the worklist as coded computes the structural flattening: the fuel (tree size)
   is always enough *)
Theorem original_ids_structural : forall ds, original_ids ds = orig_flat ds.
Proof. intros ds. unfold original_ids. apply orig_wl_structural. lia. Qed.

Lemma lookup_b_id : forall tb id, desc_id (lookup_b tb id) = id.
Proof.
  intros tb id. unfold lookup_b, find_elem.
  destruct (find (fun e => (e_id e =? id)%N) tb) as [e|] eqn:E; cbn [desc_id]; [|reflexivity].
  apply find_some in E. destruct E as [_ E]. lia.
Qed.

Lemma lookup_b_shape : forall tb id,
  lookup_b tb id = DUndefElem id \/ exists e, lookup_b tb id = DElem e /\ e_id e = id /\ find_elem tb id = Some e.
Proof.
  intros tb id. unfold lookup_b. destruct (find_elem tb id) as [e|] eqn:E; [right|left; reflexivity].
  exists e. split; [reflexivity|]. split; [|reflexivity].
  unfold find_elem in E. apply find_some in E. destruct E as [_ E]. lia.
Qed.

Lemma lookup_b_orig : forall tb id, orig_flat_d (lookup_b tb id) = [id].
Proof.
  intros tb id. destruct (lookup_b_shape tb id) as [H|(e & H & He & _)]; rewrite H; cbn; congruence.
Qed.

(* what TableD.lookup returns: the sequence descriptor of that id or a placeholder *)
Definition ld_shape (ld : N -> result desc) : Prop :=
  forall id d, ld id = Ok d -> d = DUndefSeq id \/ exists ms, d = DSeq id ms.
Definition ld_total (ld : N -> result desc) : Prop := forall id, exists d, ld id = Ok d.

Lemma classify : forall id : N,
  ((300000 <=? id)%N = true /\ is_replication id = false) \/
  ((300000 <=? id)%N = false /\ (200000 <=? id)%N = true /\ is_replication id = false) \/
  ((300000 <=? id)%N = false /\ (200000 <=? id)%N = false /\ (100000 <=? id)%N = true /\ is_replication id = true) \/
  ((300000 <=? id)%N = false /\ (200000 <=? id)%N = false /\ (100000 <=? id)%N = false /\ is_replication id = false).
Proof. intros id. unfold is_replication. lia. Qed.

Lemma build_a_cons : forall tb ld f id rest,
  build_a tb ld (S f) (id :: rest) =
  if (300000 <=? id)%N then
    let* d := ld id in let* ds := build_a tb ld f rest in Ok (DCons d ds)
  else if (200000 <=? id)%N then
    let* ds := build_a tb ld f rest in Ok (DCons (DOper id) ds)
  else if (100000 <=? id)%N then
    if (id mod 1000 =? 0)%N then
      match rest with
      | fid :: rest2 =>
        let* ms := build_a tb ld f (firstn (n_items id) rest2) in
        let* ds := build_a tb ld f (skipn (n_items id) rest2) in
        Ok (DCons (DDelayed id (lookup_b tb fid) ms) ds)
      | [] => Err ELib
      end
    else
      let* ms := build_a tb ld f (firstn (n_items id) rest) in
      let* ds := build_a tb ld f (skipn (n_items id) rest) in
      Ok (DCons (DFixed id ms) ds)
  else
    let* ds := build_a tb ld f rest in Ok (DCons (lookup_b tb id) ds).
Proof. reflexivity. Qed.

Section BuildProofs2.
  Variable tb : tabB.
  Variable ld : N -> result desc.
  Hypothesis Hshape : ld_shape ld.

  Lemma orig_flat_build_a : forall fuel ids t,
    build_a tb ld fuel ids = Ok t -> orig_flat t = ids.
  Proof.
    induction fuel as [|f IH]; intros ids t H; [discriminate|].
    destruct ids as [|id rest]; cbn [build_a] in H.
    { injection H as <-. reflexivity. }
    destruct (300000 <=? id)%N.
    { destruct (ld id) as [d|e] eqn:E; cbn [bind] in H; [|discriminate].
      destruct (build_a tb ld f rest) as [ds|e] eqn:E2; cbn [bind] in H; [|discriminate].
      injection H as <-. cbn [orig_flat]. rewrite (IH _ _ E2).
      destruct (Hshape _ _ E) as [->|[ms ->]]; reflexivity. }
    destruct (200000 <=? id)%N.
    { destruct (build_a tb ld f rest) as [ds|e] eqn:E2; cbn [bind] in H; [|discriminate].
      injection H as <-. cbn [orig_flat orig_flat_d desc_id]. rewrite (IH _ _ E2). reflexivity. }
    destruct (100000 <=? id)%N.
    2:{ destruct (build_a tb ld f rest) as [ds|e] eqn:E2; cbn [bind] in H; [|discriminate].
        injection H as <-. cbn [orig_flat]. rewrite (IH _ _ E2), lookup_b_orig. reflexivity. }
    destruct (id mod 1000 =? 0)%N.
    - destruct rest as [|fid rest2]; [discriminate|].
      destruct (build_a tb ld f (firstn (n_items id) rest2)) as [ms|e] eqn:E1; cbn [bind] in H; [|discriminate].
      destruct (build_a tb ld f (skipn (n_items id) rest2)) as [ds|e] eqn:E2; cbn [bind] in H; [|discriminate].
      injection H as <-. cbn [orig_flat orig_flat_d].
      rewrite (IH _ _ E1), (IH _ _ E2), lookup_b_id. cbn [app].
      rewrite firstn_skipn. reflexivity.
    - destruct (build_a tb ld f (firstn (n_items id) rest)) as [ms|e] eqn:E1; cbn [bind] in H; [|discriminate].
      destruct (build_a tb ld f (skipn (n_items id) rest)) as [ds|e] eqn:E2; cbn [bind] in H; [|discriminate].
      injection H as <-. cbn [orig_flat orig_flat_d].
      rewrite (IH _ _ E1), (IH _ _ E2). cbn [app]. rewrite firstn_skipn. reflexivity.
  Qed.

  (* nothing is lost, skipped or invented, for ANY list the builder accepts *)
  Theorem original_ids_build_any : forall ids t,
    build tb ld ids = Ok t -> original_ids t = ids.
  Proof.
    intros ids t H. rewrite build_is_build_a in H. rewrite original_ids_structural.
    eapply orig_flat_build_a. exact H.
  Qed.

  Hypothesis Htotal : ld_total ld.

  Lemma wf_build_a : forall fuel ids, wf_ids_f fuel ids = true ->
    exists t, build_a tb ld fuel ids = Ok t /\ exact_members t = true.
  Proof.
    induction fuel as [|f IH]; intros ids H; [discriminate|].
    destruct ids as [|id rest]; cbn [build_a wf_ids_f] in *.
    { exists DNil. split; reflexivity. }
    destruct (classify id) as [(-> & Hr)|[(-> & -> & Hr)|[(-> & -> & -> & Hr)|(-> & -> & -> & Hr)]]];
      rewrite Hr in H.
    - destruct (Htotal id) as [d Hd]. rewrite Hd. cbn [bind].
      destruct (IH _ H) as (ds & -> & Hx). cbn [bind]. eexists. split; [reflexivity|].
      cbn [exact_members]. rewrite Hx.
      destruct (Hshape _ _ Hd) as [->|[ms ->]]; reflexivity.
    - destruct (IH _ H) as (ds & -> & Hx). cbn [bind]. eexists. split; [reflexivity|].
      cbn [exact_members exact_members_d]. exact Hx.
    - destruct (id mod 1000 =? 0)%N.
      + destruct rest as [|fid rest2]; [discriminate|].
        apply andb_prop in H. destruct H as [H H3]. apply andb_prop in H. destruct H as [H1 H2].
        destruct (IH _ H2) as (ms & Ems & Hxm). destruct (IH _ H3) as (ds & Eds & Hxd).
        rewrite Ems, Eds. cbn [bind]. eexists. split; [reflexivity|].
        cbn [exact_members exact_members_d]. rewrite Hxm, Hxd.
        rewrite (orig_flat_build_a _ _ _ Ems), firstn_length.
        apply Nat.leb_le in H1. rewrite Nat.min_l by lia. rewrite Nat.eqb_refl. reflexivity.
      + apply andb_prop in H. destruct H as [H H3]. apply andb_prop in H. destruct H as [H1 H2].
        destruct (IH _ H2) as (ms & Ems & Hxm). destruct (IH _ H3) as (ds & Eds & Hxd).
        rewrite Ems, Eds. cbn [bind]. eexists. split; [reflexivity|].
        cbn [exact_members exact_members_d]. rewrite Hxm, Hxd.
        rewrite (orig_flat_build_a _ _ _ Ems), firstn_length.
        apply Nat.leb_le in H1. rewrite Nat.min_l by lia. rewrite Nat.eqb_refl. reflexivity.
    - destruct (IH _ H) as (ds & -> & Hx). cbn [bind]. eexists. split; [reflexivity|].
      cbn [exact_members]. rewrite Hx.
      destruct (lookup_b_shape tb id) as [->|(e & -> & _)]; reflexivity.
  Qed.

  (* the C14 round trip: a well-formed list builds, flattens back to itself, and
     every replication descriptor owns exactly the next X descriptors *)
  Theorem original_ids_build : forall ids, wf_ids ids = true ->
    exists t, build tb ld ids = Ok t /\ original_ids t = ids /\ exact_members t = true.
  Proof.
    intros ids H. unfold wf_ids in H. destruct (wf_build_a _ _ H) as (t & Ht & Hx).
    exists t. split; [rewrite build_is_build_a; exact Ht|]. split; [|exact Hx].
    rewrite original_ids_structural. eapply orig_flat_build_a. exact Ht.
  Qed.

  (* ownership, spelled out: the members of a replication descriptor are the template
     of the next X ids (after the factor), the rest continues behind them *)
  Theorem build_fixed_owns_next_X : forall id rest,
    is_replication id = true -> (id mod 1000 =? 0)%N = false ->
    build tb ld (id :: rest) =
    (let* ms := build tb ld (firstn (n_items id) rest) in
     let* ds := build tb ld (skipn (n_items id) rest) in
     Ok (DCons (DFixed id ms) ds)).
  Proof.
    intros id rest Hr Hy. rewrite !build_is_build_a.
    change (length (id :: rest)) with (S (length rest)). rewrite build_a_cons.
    destruct (classify id) as [(_ & C)|[(_ & _ & C)|[(-> & -> & -> & _)|(_ & _ & _ & C)]]]; try congruence.
    rewrite Hy.
    rewrite (build_a_fuel tb ld (S (length rest)) (S (length (firstn (n_items id) rest))) (firstn (n_items id) rest))
      by (rewrite firstn_length; lia).
    rewrite (build_a_fuel tb ld (S (length rest)) (S (length (skipn (n_items id) rest))) (skipn (n_items id) rest))
      by (rewrite skipn_length; lia).
    reflexivity.
  Qed.

  Theorem build_delayed_owns_next_X : forall id fid rest,
    is_replication id = true -> (id mod 1000 =? 0)%N = true ->
    build tb ld (id :: fid :: rest) =
    (let* ms := build tb ld (firstn (n_items id) rest) in
     let* ds := build tb ld (skipn (n_items id) rest) in
     Ok (DCons (DDelayed id (lookup_b tb fid) ms) ds)).
  Proof.
    intros id fid rest Hr Hy. rewrite !build_is_build_a.
    change (length (id :: fid :: rest)) with (S (S (length rest))). rewrite build_a_cons.
    destruct (classify id) as [(_ & C)|[(_ & _ & C)|[(-> & -> & -> & _)|(_ & _ & _ & C)]]]; try congruence.
    rewrite Hy.
    rewrite (build_a_fuel tb ld (S (S (length rest))) (S (length (firstn (n_items id) rest))) (firstn (n_items id) rest))
      by (rewrite firstn_length; lia).
    rewrite (build_a_fuel tb ld (S (S (length rest))) (S (length (skipn (n_items id) rest))) (skipn (n_items id) rest))
      by (rewrite skipn_length; lia).
    reflexivity.
  Qed.

  (* ill-formed lists, stated and not hidden: a tail shorter than X gives silently
     fewer members (generate_quiet swallows the end of the list) ... *)
  Theorem build_short_list : forall id tail,
    is_replication id = true -> (id mod 1000 =? 0)%N = false -> length tail <= n_items id ->
    build tb ld (id :: tail) =
    (let* ms := build tb ld tail in Ok (DCons (DFixed id ms) DNil)).
  Proof.
    intros id tail Hr Hy Hl. rewrite build_fixed_owns_next_X by assumption.
    rewrite firstn_all2 by exact Hl. rewrite skipn_all2 by exact Hl.
    destruct (build tb ld tail); reflexivity.
  Qed.

  (* ... but a delayed replication descriptor with nothing after it (no factor)
     is refused (library error) *)
  Theorem build_delayed_at_end : forall id,
    is_replication id = true -> (id mod 1000 =? 0)%N = true ->
    build tb ld [id] = Err ELib.
  Proof.
    intros id Hr Hy. rewrite build_is_build_a.
    change (length [id]) with 1. rewrite build_a_cons.
    destruct (classify id) as [(_ & C)|[(_ & _ & C)|[(-> & -> & -> & _)|(_ & _ & _ & C)]]]; try congruence.
    rewrite Hy. reflexivity.
  Qed.
End BuildProofs2.

(* ---- Table D expansion = direct expansion of the table data ----------------------- *)
Lemma expand_seq_S : forall tb f ls id,
  expand_seq tb (S f) ls id =
  match ls with
  | [] => Ok (DUndefSeq id)
  | l :: older =>
    match assoc_d id l with
    | Some mids => let* ms := build tb (expand_seq tb f ls) mids in Ok (DSeq id ms)
    | None => expand_seq tb (S f) older id
    end
  end.
Proof. intros. destruct ls; reflexivity. Qed.

Lemma expand_direct_S : forall f ls id,
  expand_direct (S f) ls id =
  match ls with
  | [] => Err EAttr
  | l :: older =>
    match assoc_d id l with
    | Some mids => expand_ids (expand_direct f ls) (defined_d ls) mids
    | None => expand_direct (S f) older id
    end
  end.
Proof. intros. destruct ls; reflexivity. Qed.

Lemma expand_ids_app : forall ex def a b,
  expand_ids ex def (a ++ b) =
  (let* x := expand_ids ex def a in let* y := expand_ids ex def b in Ok (x ++ y)).
Proof.
  intros ex def a b. induction a as [|m a IH]; cbn [app expand_ids bind].
  - destruct (expand_ids ex def b); reflexivity.
  - destruct (if (300000 <=? m)%N && def m then ex m else Ok [m]) as [u|e]; cbn [bind]; [|reflexivity].
    rewrite IH. destruct (expand_ids ex def a); cbn [bind]; [|reflexivity].
    destruct (expand_ids ex def b); cbn [bind]; [|reflexivity].
    rewrite app_assoc. reflexivity.
Qed.

Lemma factors_ok_tail : forall id rest, factors_ok (id :: rest) = true -> factors_ok rest = true.
Proof.
  intros id rest H. destruct rest as [|fid r]; [reflexivity|].
  cbn [factors_ok] in H. apply andb_prop in H. destruct H as [_ H]. exact H.
Qed.

Lemma factors_ok_firstn : forall l n, factors_ok l = true -> factors_ok (firstn n l) = true.
Proof.
  induction l as [|id rest IH]; intros n H; [destruct n; reflexivity|].
  destruct n as [|n]; [reflexivity|].
  cbn [firstn]. destruct rest as [|fid r]; [destruct n; reflexivity|].
  destruct n as [|n]; [reflexivity|].
  specialize (IH (S n) (factors_ok_tail _ _ H)). cbn [firstn] in IH |- *.
  cbn [factors_ok] in H |- *. apply andb_prop in H. destruct H as [H _]. rewrite H. exact IH.
Qed.

Lemma factors_ok_skipn : forall n l, factors_ok l = true -> factors_ok (skipn n l) = true.
Proof.
  induction n as [|n IH]; intros l H; [exact H|].
  destruct l as [|x l]; [reflexivity|]. cbn [skipn]. apply IH. eapply factors_ok_tail. exact H.
Qed.

Lemma lookup_b_flat : forall tb id, flat_ids_d (lookup_b tb id) = [id].
Proof.
  intros tb id. destruct (lookup_b_shape tb id) as [H|(e & H & He & _)]; rewrite H; cbn; congruence.
Qed.

Section DirectProofs.
  Variable tb : tabB.
  Variable ld : N -> result desc.
  Variable ex : N -> result (list N).
  Variable def : N -> bool.
  Hypothesis Hld : forall m d, (300000 <=? m)%N = true -> ld m = Ok d ->
                               (if def m then ex m else Ok [m]) = Ok (flat_ids_d d).

  Lemma direct_build_a : forall fuel ids t,
    build_a tb ld fuel ids = Ok t -> factors_ok ids = true ->
    expand_ids ex def ids = Ok (flat_ids t).
  Proof.
    induction fuel as [|f IH]; intros ids t H Hf; [discriminate|].
    destruct ids as [|id rest]; [injection H as <-; reflexivity|].
    rewrite build_a_cons in H. pose proof (factors_ok_tail _ _ Hf) as Hft.
    cbn [expand_ids].
    destruct (300000 <=? id)%N eqn:C3.
    { destruct (ld id) as [d|e] eqn:E; cbn [bind] in H; [|discriminate].
      destruct (build_a tb ld f rest) as [ds|e] eqn:E2; cbn [bind] in H; [|discriminate].
      injection H as <-. cbn [andb]. rewrite (Hld _ _ C3 E). cbn [bind].
      rewrite (IH _ _ E2 Hft). reflexivity. }
    cbn [andb bind].
    destruct (200000 <=? id)%N eqn:C2.
    { destruct (build_a tb ld f rest) as [ds|e] eqn:E2; cbn [bind] in H; [|discriminate].
      injection H as <-. rewrite (IH _ _ E2 Hft). reflexivity. }
    destruct (100000 <=? id)%N eqn:C1.
    2:{ destruct (build_a tb ld f rest) as [ds|e] eqn:E2; cbn [bind] in H; [|discriminate].
        injection H as <-. rewrite (IH _ _ E2 Hft). cbn [bind flat_ids]. rewrite lookup_b_flat. reflexivity. }
    destruct (id mod 1000 =? 0)%N eqn:CY.
    - destruct rest as [|fid rest2]; [discriminate|].
      destruct (build_a tb ld f (firstn (n_items id) rest2)) as [ms|e] eqn:E1; cbn [bind] in H; [|discriminate].
      destruct (build_a tb ld f (skipn (n_items id) rest2)) as [ds|e] eqn:E2; cbn [bind] in H; [|discriminate].
      injection H as <-.
      assert (Hfid : (fid <? 300000)%N = true).
      { cbn [factors_ok] in Hf. unfold is_delayed, is_replication in Hf.
        apply andb_prop in Hf. destruct Hf as [Hf _].
        replace (id <? 200000)%N with true in Hf by lia. rewrite C1, CY in Hf.
        cbn [andb] in Hf. exact Hf. }
      pose proof (factors_ok_tail _ _ Hft) as Hft2.
      cbn [expand_ids]. replace (300000 <=? fid)%N with false by lia. cbn [andb bind].
      rewrite <- (firstn_skipn (n_items id) rest2) at 1. rewrite expand_ids_app.
      rewrite (IH _ _ E1 (factors_ok_firstn _ _ Hft2)), (IH _ _ E2 (factors_ok_skipn _ _ Hft2)).
      cbn [bind flat_ids flat_ids_d app]. rewrite lookup_b_id. reflexivity.
    - destruct (build_a tb ld f (firstn (n_items id) rest)) as [ms|e] eqn:E1; cbn [bind] in H; [|discriminate].
      destruct (build_a tb ld f (skipn (n_items id) rest)) as [ds|e] eqn:E2; cbn [bind] in H; [|discriminate].
      injection H as <-.
      rewrite <- (firstn_skipn (n_items id) rest) at 1. rewrite expand_ids_app.
      rewrite (IH _ _ E1 (factors_ok_firstn _ _ Hft)), (IH _ _ E2 (factors_ok_skipn _ _ Hft)).
      reflexivity.
  Qed.
End DirectProofs.

Lemma assoc_d_in : forall id l mids, assoc_d id l = Some mids -> In (id, mids) l.
Proof.
  intros id l mids H. unfold assoc_d in H.
  destruct (find (fun p => (fst p =? id)%N) l) as [p|] eqn:E; [|discriminate].
  injection H as <-. apply find_some in E. destruct E as [Hin E].
  destruct p as [a b]; cbn [fst snd] in *. replace id with a by lia. exact Hin.
Qed.

Lemma expand_flat_gen : forall tb f ls id d,
  tabD_factors_ok ls = true -> expand_seq tb f ls id = Ok d ->
  (defined_d ls id = true ->
     exists ms, d = DSeq id ms /\ expand_direct f ls id = Ok (flat_ids ms)) /\
  (defined_d ls id = false -> d = DUndefSeq id).
Proof.
  induction f as [|f IHf]; intros ls id d Hfac H; [discriminate|].
  revert Hfac H. induction ls as [|l older IHls]; intros Hfac H.
  - rewrite expand_seq_S in H. injection H as <-. split; [discriminate|reflexivity].
  - rewrite expand_seq_S in H. rewrite expand_direct_S.
    assert (Hfac' : tabD_factors_ok (l :: older) = true) by exact Hfac.
    cbn [tabD_factors_ok forallb] in Hfac. apply andb_prop in Hfac. destruct Hfac as [Hl Hold].
    assert (Hdef : defined_d (l :: older) id =
                   match assoc_d id l with Some _ => true | None => defined_d older id end) by reflexivity.
    destruct (assoc_d id l) as [mids|] eqn:A.
    + destruct (build tb (expand_seq tb f (l :: older)) mids) as [ms|e] eqn:B; cbn [bind] in H; [|discriminate].
      injection H as <-. split; [|rewrite Hdef; discriminate]. intros _. exists ms. split; [reflexivity|].
      rewrite build_is_build_a in B.
      eapply direct_build_a; [|exact B|].
      * intros m d' Hm Hd'.
        destruct (IHf _ _ _ Hfac' Hd') as [P1 P2].
        destruct (defined_d (l :: older) m) eqn:Dm.
        -- destruct (P1 eq_refl) as (ms' & Hd & Hx). rewrite Hx, Hd. reflexivity.
        -- rewrite (P2 eq_refl). reflexivity.
      * apply assoc_d_in in A. rewrite forallb_forall in Hl. exact (Hl _ A).
    + rewrite Hdef. apply IHls; assumption.
Qed.

(* C14: every sequence of a loaded Table D flattens to the direct expansion of the
   table data (same fuel on both sides; see expand_seq_fuel_mono for the fuel) *)
Theorem expand_flat : forall tb ls id d,
  tabD_factors_ok ls = true -> lookup_d tb ls id = Ok d -> defined_d ls id = true ->
  flat_member_ids d = expand_direct (default_fuel ls) ls id.
Proof.
  intros tb ls id d Hfac H Hdef. unfold lookup_d in H.
  destruct (expand_flat_gen _ _ _ _ _ Hfac H) as [P _].
  destruct (P Hdef) as (ms & -> & ->). reflexivity.
Qed.

Lemma expand_seq_undefined : forall tb ls id f,
  defined_d ls id = false -> expand_seq tb (S f) ls id = Ok (DUndefSeq id).
Proof.
  intros tb ls id f. induction ls as [|l older IH]; intros H; rewrite expand_seq_S; [reflexivity|].
  cbn [defined_d] in H. destruct (assoc_d id l); [discriminate|]. apply IH. exact H.
Qed.

Theorem lookup_d_undefined : forall tb ls id,
  defined_d ls id = false -> lookup_d tb ls id = Ok (DUndefSeq id).
Proof. intros. unfold lookup_d, default_fuel. apply expand_seq_undefined. assumption. Qed.

Lemma expand_seq_shape : forall tb f ls, ld_shape (expand_seq tb f ls).
Proof.
  intros tb f ls id d H. destruct f as [|f]; [discriminate|].
  induction ls as [|l older IH]; rewrite expand_seq_S in H.
  - injection H as <-. left. reflexivity.
  - destruct (assoc_d id l).
    + destruct (build tb (expand_seq tb f (l :: older)) l0); cbn [bind] in H; [|discriminate].
      injection H as <-. right. eauto.
    + apply IH. exact H.
Qed.

(* ---- the result does not depend on the fuel once it suffices ------------------------- *)
Lemma build_a_ld_mono : forall tb (ld ld' : N -> result desc),
  (forall m d, ld m = Ok d -> ld' m = Ok d) ->
  forall fuel ids t, build_a tb ld fuel ids = Ok t -> build_a tb ld' fuel ids = Ok t.
Proof.
  intros tb ld ld' Hm. induction fuel as [|f IH]; intros ids t H; [discriminate|].
  destruct ids as [|id rest]; [exact H|]. rewrite build_a_cons in H |- *.
  destruct (300000 <=? id)%N.
  { destruct (ld id) as [d|e] eqn:E; cbn [bind] in H; [|discriminate].
    rewrite (Hm _ _ E). cbn [bind].
    destruct (build_a tb ld f rest) as [ds|e] eqn:E2; cbn [bind] in H; [|discriminate].
    rewrite (IH _ _ E2). exact H. }
  destruct (200000 <=? id)%N.
  { destruct (build_a tb ld f rest) as [ds|e] eqn:E2; cbn [bind] in H; [|discriminate].
    rewrite (IH _ _ E2). exact H. }
  destruct (100000 <=? id)%N.
  2:{ destruct (build_a tb ld f rest) as [ds|e] eqn:E2; cbn [bind] in H; [|discriminate].
      rewrite (IH _ _ E2). exact H. }
  destruct (id mod 1000 =? 0)%N.
  - destruct rest as [|fid rest2]; [discriminate|].
    destruct (build_a tb ld f (firstn (n_items id) rest2)) as [ms|e] eqn:E1; cbn [bind] in H; [|discriminate].
    destruct (build_a tb ld f (skipn (n_items id) rest2)) as [ds|e] eqn:E2; cbn [bind] in H; [|discriminate].
    rewrite (IH _ _ E1), (IH _ _ E2). exact H.
  - destruct (build_a tb ld f (firstn (n_items id) rest)) as [ms|e] eqn:E1; cbn [bind] in H; [|discriminate].
    destruct (build_a tb ld f (skipn (n_items id) rest)) as [ds|e] eqn:E2; cbn [bind] in H; [|discriminate].
    rewrite (IH _ _ E1), (IH _ _ E2). exact H.
Qed.

Theorem expand_seq_fuel_mono : forall tb f ls id d,
  expand_seq tb f ls id = Ok d -> forall f', f <= f' -> expand_seq tb f' ls id = Ok d.
Proof.
  induction f as [|f IHf]; intros ls id d H f' Hle; [discriminate|].
  destruct f' as [|f']; [lia|].
  revert H. induction ls as [|l older IHls]; intros H; rewrite expand_seq_S in H |- *; [exact H|].
  destruct (assoc_d id l) as [mids|]; [|apply IHls; exact H].
  destruct (build tb (expand_seq tb f (l :: older)) mids) as [ms|e] eqn:B; cbn [bind] in H; [|discriminate].
  rewrite build_is_build_a in B.
  rewrite build_is_build_a.
  rewrite (build_a_ld_mono tb (expand_seq tb f (l :: older)) (expand_seq tb f' (l :: older))
             (fun m d' Hd' => IHf _ _ _ Hd' f' ltac:(lia)) _ _ _ B).
  exact H.
Qed.

(* ---- elements keep their Table B attributes ----------------------------------------- *)
Definition attrs_intact (tb : tabB) (es : list elem) : Prop :=
  Forall (fun e => find_elem tb (e_id e) = Some e) es.

Lemma lookup_b_attrs : forall tb id, attrs_intact tb (flat_elems_d (lookup_b tb id)).
Proof.
  intros tb id. unfold attrs_intact.
  destruct (lookup_b_shape tb id) as [->|(e & -> & He & Hf)]; cbn [flat_elems_d]; [constructor|].
  constructor; [rewrite He; exact Hf|constructor].
Qed.

Lemma build_a_attrs : forall tb ld,
  (forall id d, ld id = Ok d -> attrs_intact tb (flat_elems_d d)) ->
  forall fuel ids t, build_a tb ld fuel ids = Ok t -> attrs_intact tb (flat_elems t).
Proof.
  intros tb ld Hld. unfold attrs_intact in *.
  induction fuel as [|f IH]; intros ids t H; [discriminate|].
  destruct ids as [|id rest]; [injection H as <-; constructor|]. rewrite build_a_cons in H.
  destruct (300000 <=? id)%N.
  { destruct (ld id) as [d|e] eqn:E; cbn [bind] in H; [|discriminate].
    destruct (build_a tb ld f rest) as [ds|e] eqn:E2; cbn [bind] in H; [|discriminate].
    injection H as <-. cbn [flat_elems]. apply Forall_app. split; [eapply Hld; exact E|eapply IH; exact E2]. }
  destruct (200000 <=? id)%N.
  { destruct (build_a tb ld f rest) as [ds|e] eqn:E2; cbn [bind] in H; [|discriminate].
    injection H as <-. cbn [flat_elems flat_elems_d app]. eapply IH; exact E2. }
  destruct (100000 <=? id)%N.
  2:{ destruct (build_a tb ld f rest) as [ds|e] eqn:E2; cbn [bind] in H; [|discriminate].
      injection H as <-. cbn [flat_elems]. apply Forall_app. split; [apply lookup_b_attrs|eapply IH; exact E2]. }
  destruct (id mod 1000 =? 0)%N.
  - destruct rest as [|fid rest2]; [discriminate|].
    destruct (build_a tb ld f (firstn (n_items id) rest2)) as [ms|e] eqn:E1; cbn [bind] in H; [|discriminate].
    destruct (build_a tb ld f (skipn (n_items id) rest2)) as [ds|e] eqn:E2; cbn [bind] in H; [|discriminate].
    injection H as <-. cbn [flat_elems flat_elems_d].
    apply Forall_app. split; [apply Forall_app; split; [apply lookup_b_attrs|eapply IH; exact E1]|eapply IH; exact E2].
  - destruct (build_a tb ld f (firstn (n_items id) rest)) as [ms|e] eqn:E1; cbn [bind] in H; [|discriminate].
    destruct (build_a tb ld f (skipn (n_items id) rest)) as [ds|e] eqn:E2; cbn [bind] in H; [|discriminate].
    injection H as <-. cbn [flat_elems flat_elems_d].
    apply Forall_app. split; [eapply IH; exact E1|eapply IH; exact E2].
Qed.

Lemma expand_seq_attrs : forall tb f ls id d,
  expand_seq tb f ls id = Ok d -> attrs_intact tb (flat_elems_d d).
Proof.
  induction f as [|f IHf]; intros ls id d H; [discriminate|].
  revert H. induction ls as [|l older IHls]; intros H; rewrite expand_seq_S in H.
  - injection H as <-. constructor.
  - destruct (assoc_d id l) as [mids|]; [|apply IHls; exact H].
    destruct (build tb (expand_seq tb f (l :: older)) mids) as [ms|e] eqn:B; cbn [bind] in H; [|discriminate].
    injection H as <-. cbn [flat_elems_d]. rewrite build_is_build_a in B.
    eapply build_a_attrs; [|exact B]. intros m d' Hd'. eapply IHf. exact Hd'.
Qed.

(* every element reached through a template or a Table D sequence carries exactly
   the Table B entry found for its id (the latest loaded one) *)
Theorem elements_keep_attributes : forall tb ls ids t,
  build tb (lookup_d tb ls) ids = Ok t -> attrs_intact tb (flat_elems t).
Proof.
  intros tb ls ids t H. rewrite build_is_build_a in H.
  eapply build_a_attrs; [|exact H]. intros id d Hd. eapply expand_seq_attrs. exact Hd.
Qed.

Theorem sequence_elements_keep_attributes : forall tb ls id d,
  lookup_d tb ls id = Ok d -> attrs_intact tb (flat_elems_d d).
Proof. intros tb ls id d H. eapply expand_seq_attrs. exact H. Qed.

(* ---- unknown descriptors ---------------------------------------------------------------- *)
Lemma undef_scan_spec :
  (forall d, undef_scan_d d = if reaches_undefined_d d then Err EUnknownDescriptor else Ok tt) /\
  (forall ds, undef_scan ds = if reaches_undefined ds then Err EUnknownDescriptor else Ok tt).
Proof.
  apply desc_descs_ind; intros; cbn [undef_scan undef_scan_d reaches_undefined reaches_undefined_d];
    try reflexivity; try assumption.
  rewrite H, H0. destruct (reaches_undefined_d d); cbn [bind orb]; reflexivity.
Qed.

(* the dispatch raises UnknownDescriptor exactly when a placeholder sits in member position *)
Theorem unknown_descriptor_scan : forall ds,
  (undef_scan ds = Err EUnknownDescriptor <-> reaches_undefined ds = true) /\
  (undef_scan ds = Ok tt <-> reaches_undefined ds = false).
Proof.
  intros ds. rewrite (proj2 undef_scan_spec ds).
  destruct (reaches_undefined ds); split; split; intros H; try reflexivity; try discriminate.
Qed.

Lemma build_a_unknown : forall tb ld,
  forall fuel ids t, build_a tb ld fuel ids = Ok t ->
  forall id, In id (member_ids t) ->
    (((id <? 100000)%N = true /\ find_elem tb id = None) \/
     ((300000 <=? id)%N = true /\ ld id = Ok (DUndefSeq id))) ->
    ld_shape ld -> reaches_undefined t = true.
Proof.
  intros tb ld. induction fuel as [|f IH]; intros ids t H id Hin Hun Hsh; [discriminate|].
  destruct ids as [|i rest]; [injection H as <-; destruct Hin|]. rewrite build_a_cons in H.
  destruct (300000 <=? i)%N eqn:C3.
  { destruct (ld i) as [d|e] eqn:E; cbn [bind] in H; [|discriminate].
    destruct (build_a tb ld f rest) as [ds|e] eqn:E2; cbn [bind] in H; [|discriminate].
    injection H as <-. cbn [member_ids reaches_undefined] in *.
    apply in_app_or in Hin. destruct Hin as [Hin|Hin].
    - assert (Hi : id = i).
      { destruct (Hsh _ _ E) as [->|[ms ->]]; cbn in Hin; destruct Hin as [Hin|[]]; congruence. }
      subst i. destruct Hun as [[Hl _]|[_ Hu]]; [exfalso; lia|].
      rewrite Hu in E. injection E as <-. reflexivity.
    - rewrite (IH _ _ E2 _ Hin Hun Hsh). apply Bool.orb_true_r. }
  destruct (200000 <=? i)%N eqn:C2.
  { destruct (build_a tb ld f rest) as [ds|e] eqn:E2; cbn [bind] in H; [|discriminate].
    injection H as <-. cbn [member_ids member_ids_d reaches_undefined reaches_undefined_d desc_id app orb] in *.
    destruct Hin as [Hin|Hin]; [subst i; destruct Hun as [[Hl _]|[Hl _]]; exfalso; lia|].
    exact (IH _ _ E2 _ Hin Hun Hsh). }
  destruct (100000 <=? i)%N eqn:C1.
  2:{ destruct (build_a tb ld f rest) as [ds|e] eqn:E2; cbn [bind] in H; [|discriminate].
      injection H as <-. cbn [member_ids reaches_undefined] in *.
      apply in_app_or in Hin. destruct Hin as [Hin|Hin].
      - assert (Hi : id = i).
        { destruct (lookup_b_shape tb i) as [Hs|(e & Hs & He & _)]; rewrite Hs in Hin; cbn in Hin;
            destruct Hin as [Hin|[]]; congruence. }
        subst i. destruct Hun as [[_ Hu]|[Hl _]]; [|exfalso; lia].
        unfold lookup_b. rewrite Hu. reflexivity.
      - rewrite (IH _ _ E2 _ Hin Hun Hsh). apply Bool.orb_true_r. }
  destruct (i mod 1000 =? 0)%N.
  - destruct rest as [|fid rest2]; [discriminate|].
    destruct (build_a tb ld f (firstn (n_items i) rest2)) as [ms|e] eqn:E1; cbn [bind] in H; [|discriminate].
    destruct (build_a tb ld f (skipn (n_items i) rest2)) as [ds|e] eqn:E2; cbn [bind] in H; [|discriminate].
    injection H as <-. cbn [member_ids member_ids_d reaches_undefined reaches_undefined_d app] in *.
    destruct Hin as [Hin|Hin]; [subst i; destruct Hun as [[Hl _]|[Hl _]]; exfalso; lia|].
    apply in_app_or in Hin. destruct Hin as [Hin|Hin].
    + rewrite (IH _ _ E1 _ Hin Hun Hsh). reflexivity.
    + rewrite (IH _ _ E2 _ Hin Hun Hsh). apply Bool.orb_true_r.
  - destruct (build_a tb ld f (firstn (n_items i) rest)) as [ms|e] eqn:E1; cbn [bind] in H; [|discriminate].
    destruct (build_a tb ld f (skipn (n_items i) rest)) as [ds|e] eqn:E2; cbn [bind] in H; [|discriminate].
    injection H as <-. cbn [member_ids member_ids_d reaches_undefined reaches_undefined_d app] in *.
    destruct Hin as [Hin|Hin]; [subst i; destruct Hun as [[Hl _]|[Hl _]]; exfalso; lia|].
    apply in_app_or in Hin. destruct Hin as [Hin|Hin].
    + rewrite (IH _ _ E1 _ Hin Hun Hsh). reflexivity.
    + rewrite (IH _ _ E2 _ Hin Hun Hsh). apply Bool.orb_true_r.
Qed.

(* a descriptor of the template that is in no table (member position: not the factor
   of a delayed replication) is a reachable placeholder: the dispatch raises
   UnknownDescriptor, it is not skipped *)
Theorem unknown_descriptor_reached : forall tb ls ids t id,
  build tb (lookup_d tb ls) ids = Ok t ->
  In id (member_ids t) -> unknown_id tb ls id = true ->
  reaches_undefined t = true /\ undef_scan t = Err EUnknownDescriptor.
Proof.
  intros tb ls ids t id H Hin Hun.
  assert (R : reaches_undefined t = true).
  { rewrite build_is_build_a in H. eapply build_a_unknown; [exact H|exact Hin| |apply expand_seq_shape].
    unfold unknown_id in Hun.
    destruct (300000 <=? id)%N eqn:C3.
    - right. split; [reflexivity|]. apply lookup_d_undefined.
      destruct (defined_d ls id); [discriminate|reflexivity].
    - destruct (100000 <=? id)%N eqn:C1; [discriminate|].
      left. split; [lia|]. destruct (find_elem tb id); [discriminate|reflexivity]. }
  split; [exact R|]. apply unknown_descriptor_scan. exact R.
Qed.

(* ---- version selection ---------------------------------------------------------------------- *)
Theorem normalize_fallback : forall L number centre subcentre mtv ltv,
  let number' := if isdir_number L number then number else DEFAULT_MASTER_TABLE_NUMBER in
  let r := normalize_tables_sn L number centre subcentre mtv ltv in
  (* the requested version when its directory exists *)
  (isdir_sn L (number', (0, 0), mtv)%N = true -> fst r = (number', (0, 0), mtv)%N) /\
  (* otherwise the default version; an existing directory whenever the default exists *)
  (isdir_sn L (number', (0, 0), mtv)%N = false -> fst r = (number', (0, 0), DEFAULT_MASTER_TABLE_VERSION)%N) /\
  (isdir_sn L (number', (0, 0), DEFAULT_MASTER_TABLE_VERSION)%N = true -> isdir_sn L (fst r) = true) /\
  (* a local table directory is only ever an existing one, and none when version 0 *)
  (forall d, snd r = Some d -> isdir_sn L d = true /\ ltv <> 0%N).
Proof.
  intros L number centre subcentre mtv ltv number' r. subst r. unfold normalize_tables_sn.
  fold number'. cbn [fst snd].
  destruct (isdir_sn L (number', (0, 0), mtv)%N) eqn:E.
  - split; [reflexivity|]. split; [discriminate|]. split; [intros _; exact E|].
    intros d. destruct (ltv =? 0)%N eqn:El; [discriminate|].
    destruct (isdir_sn L (number', (centre, subcentre), ltv)) eqn:E1.
    { intros H. injection H as <-. split; [exact E1|lia]. }
    destruct (isdir_sn L (number', (centre, DEFAULT_ORIGINATING_SUBCENTRE), ltv)) eqn:E2; [|discriminate].
    intros H. injection H as <-. split; [exact E2|lia].
  - split; [discriminate|]. split; [reflexivity|]. split; [intros H; exact H|].
    intros d. destruct (ltv =? 0)%N eqn:El; [discriminate|].
    destruct (isdir_sn L (number', (centre, subcentre), ltv)) eqn:E1.
    { intros H. injection H as <-. split; [exact E1|lia]. }
    destruct (isdir_sn L (number', (centre, DEFAULT_ORIGINATING_SUBCENTRE), ltv)) eqn:E2; [|discriminate].
    intros H. injection H as <-. split; [exact E2|lia].
Qed.

(* None and 0 both select the default (0 is falsy) *)
Theorem table_group_key_defaults : forall L c s,
  table_group_key L None c s None None = table_group_key L (Some 0%N) c s (Some 0%N) (Some 0%N) /\
  table_group_key L None None None None None =
  normalize_tables_sn L 0 0 0 DEFAULT_MASTER_TABLE_VERSION 0.
Proof. intros. split; reflexivity. Qed.
