(* TextFmtC09.v — C09, nested text composed with the wiring: for subsets given by
   TemplateData.wire the structural side conditions hold by WireProofs /
   NestedProofs / TextFmtWire; what remains are the conditions on the texts
   (repr / literal_eval, descriptor strings, no-value lines). *)
From PBK Require Import Base Descr Walk Wire Nested WireProofs NestedProofs
  TextFmt TextFmtSpec TextFmtStrings TextFmtProofs TextFmtBody TextFmtNested TextFmtNestedTree TextFmtNestedTop TextFmtWire.

(* the tree, the attribute relation and the number of values are those of a successful wiring *)
Definition nsubset_wired (sub : nsubset) : Prop :=
  exists ndesc links T s,
    wire ndesc (ns_vals sub) links T = Ok (ns_nodes sub, s) /\
    ns_attrs sub = x_attrs s /\ x_next s = N.of_nat (length (ns_vals sub)).

Lemma nsubset_tree_of_wired sub : nsubset_wired sub -> nsubset_tree_ok sub.
Proof.
  intros (ndesc & links & T & s & E & Ha & Hn).
  destruct (wire_attrs_text ndesc (ns_vals sub) links T _ _ E) as [Hr Hd].
  eapply nsubset_tree_of_wire; eassumption.
Qed.

Section C.
Context (repr : pyv -> str) (leval : str -> result pyv).

Definition nested_wired_param_ok (p : param (list nsubset)) : Prop :=
  match p with
  | PVal name v => pval_line_ok name (repr v) = true /\ leval (repr v) = Ok v
  | PTemplate td => td <> [] /\ Forall (fun sub => nsubset_text_ok repr leval sub /\ nsubset_wired sub) td
  end.

Definition nested_wired_message_ok (m : message (list nsubset)) : Prop :=
  nolb (m_key m) = true /\ sections_shape (m_sections m) = true /\
  Forall (fun s => Forall nested_wired_param_ok (s_params s)) (m_sections m).

Theorem nested_text_roundtrip_wired k m : nested_wired_message_ok m ->
  nested_text_to_flat_json leval (render_nested_text repr (S k) m) = Ok (flat_json_of nested_td_values m).
Proof.
  intros (Hk & Hs & Hp). apply nested_text_roundtrip. split; [exact Hk|]. split; [exact Hs|].
  eapply Forall_impl; [|exact Hp]. intros s Hsec. eapply Forall_impl; [|exact Hsec].
  intros [name v|td] Hq; [exact Hq|]. destruct Hq as [Hne Hq]. split; [exact Hne|].
  eapply Forall_impl; [|exact Hq]. intros sub [Ht Hw]. split; [exact Ht|apply nsubset_tree_of_wired; exact Hw].
Qed.

End C.
