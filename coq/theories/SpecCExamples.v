(* SpecCExamples.v — non-vacuity of the compressed C02 theorems: a template with
   a numeric, a code-table and a character element, 201YYY, a delayed and a fixed
   replication, three subsets with missing entries, equal and differing columns;
   everything computed by vm_compute. *)
From PBK Require Import Base Bits Descr Walk Coder Decode Encode Column DecodeC EncodeC SpecC SpecCProofs SpecCCanon.

Definition spc_num (id : N) (sc rf nb : Z) := mkElem id [75]%N sc rf nb.          (* unit "K" *)
Definition spc_code (id : N) (nb : Z) := mkElem id UNITS_CODE_TABLE 0 0 nb.
Definition spc_str (id : N) (nb : Z) := mkElem id UNITS_STRING 0 0 nb.

Definition spc_T : descs :=
  DCons (DElem (spc_num 12001 1 0 12))
  (DCons (DElem (spc_code 20003 4))
  (DCons (DElem (spc_str 1015 32))
  (DCons (DDelayed 101000 (DElem (spc_num 31001 0 0 8))
            (DCons (DElem (spc_num 10004 0 (-5) 10)) DNil))
  (DCons (DFixed 101002 (DCons (DElem (spc_num 11001 0 0 9)) DNil)) DNil)))).

Definition spc_vals : list (list value) :=
  [[VInt 273; VInt 3; VBytes [65;66]%N;          VInt 2; VInt 7; VInt 1;   VInt 10; VInt 20];
   [VInt 280; VNone;  VBytes [65;66;67;68;69]%N; VInt 2; VInt 7; VNone;    VNone;   VInt 21];
   [VNone;    VInt 14; VNone;                    VInt 2; VNone;  VInt 0;   VNone;   VInt 20]].

(* the columns of the layout, one per decoded element (replications expanded) *)
Definition spc_cols : list column :=
  [ColNum 12 false [Some 2730; Some 2800; None]%Z;
   ColNum 4 false [Some 3; None; Some 14]%Z;
   ColStr 4 false [Some [65;66]; Some [65;66;67;68;69]; None]%N;
   ColNum 8 true [Some 2; Some 2; Some 2]%Z;
   ColNum 10 false [Some 12; Some 12; None]%Z;
   ColNum 10 false [Some 6; None; Some 5]%Z;
   ColNum 9 false [Some 10; None; None]%Z;
   ColNum 9 false [Some 20; Some 21; Some 20]%Z].

Example spc_layout_cols :
  exists outs, layout_cols spc_T spc_vals = Ok (outs, spc_cols) /\ length outs = 3%nat.
Proof. eexists; split; [vm_compute; reflexivity|reflexivity]. Qed.

(* the first column: minimum 2730 in 12 bits, spread 70 -> width 7, increments
   0, 70 and the all-ones pattern 127 for the missing entry *)
Example spc_first_column :
  col_fields (ColNum 12 false [Some 2730; Some 2800; None]%Z) =
  [FUint 12 2730; FUint 6 7; FUint 7 0; FUint 7 70; FUint 7 127]%Z.
Proof. vm_compute. reflexivity. Qed.

(* an all-equal column: the common value, width 0, no increments *)
Example spc_equal_column :
  col_fields (ColNum 8 true [Some 2; Some 2; Some 2]%Z) = [FUint 8 2; FUint 6 0]%Z.
Proof. vm_compute. reflexivity. Qed.

(* the two scaled values coincide but one entry is missing: width 2, increments 0, 0, 3 *)
Example spc_equal_present_column :
  col_fields (ColNum 10 false [Some 12; Some 12; None]%Z) =
  [FUint 10 12; FUint 6 2; FUint 2 0; FUint 2 0; FUint 2 3]%Z.
Proof. vm_compute. reflexivity. Qed.

(* a character column: NUL base, length in octets, the strings in full *)
Example spc_string_column :
  col_fields (ColStr 4 false [Some [65;66]; Some [65;66;67;68;69]; None]%N) =
  [FBytes 4 [0;0;0;0]; FUint 6 4; FBytes 4 [65;66]; FBytes 4 [65;66;67;68;69]; FBytes 4 [255;255;255;255]]%N%Z.
Proof. vm_compute. reflexivity. Qed.

Example spc_encoder_accepts :
  exists outs w, encode_compressed spc_T spc_vals = Ok (outs, w) /\ length w = 295%nat /\
                 canonical_bits_c spc_T spc_vals = Ok w.
Proof. eexists; eexists; split; [vm_compute; reflexivity|split; [reflexivity|vm_compute; reflexivity]]. Qed.

(* 203YYY (a new reference value, the same in every subset) and 222000 (an
   operator standing for a value: no column) *)
Definition spc_T2 : descs :=
  DCons (DOper 203010) (DCons (DElem (spc_num 7004 (-1) 0 14)) (DCons (DOper 203255)
  (DCons (DElem (spc_num 7004 (-1) 0 14)) (DCons (DOper 222000) DNil)))).
Definition spc_vals2 : list (list value) :=
  [[VInt (-100); VInt 5000; VInt 0]; [VInt (-100); VNone; VInt 0]; [VInt (-100); VInt 7000; VInt 0]].
Definition spc_cols2 : list column := [ColRef 10 (-100); ColNum 14 false [Some 600; None; Some 800]%Z].

Example spc_layout_cols2 :
  exists outs w, layout_cols spc_T2 spc_vals2 = Ok (outs, spc_cols2) /\
                 encode_compressed spc_T2 spc_vals2 = Ok (outs, w) /\
                 fields_of spc_cols2 =
                 [FBool true; FUint 9 100; FUint 6 0; FUint 14 600; FUint 6 8; FUint 8 0; FUint 8 255; FUint 8 200]%Z.
Proof. eexists; eexists; split; [vm_compute; reflexivity|split; [vm_compute; reflexivity|vm_compute; reflexivity]]. Qed.

(* the hypotheses of the column theorems are met by columns of all kinds *)
Example spc_column_hypotheses :
  exists outs outs2,
    layout_cols spc_T spc_vals = Ok (outs, spc_cols) /\
    In (ColNum 12 false [Some 2730; Some 2800; None]%Z) spc_cols /\
    In (ColNum 8 true [Some 2; Some 2; Some 2]%Z) spc_cols /\
    In (ColStr 4 false [Some [65;66]; Some [65;66;67;68;69]; None]%N) spc_cols /\
    layout_cols spc_T2 spc_vals2 = Ok (outs2, spc_cols2) /\ In (ColRef 10 (-100)) spc_cols2.
Proof.
  eexists; eexists. split; [vm_compute; reflexivity|]. split; [cbn; tauto|]. split; [cbn; tauto|].
  split; [cbn; tauto|]. split; [vm_compute; reflexivity|cbn; tauto].
Qed.

Example spc_columns_wf : Forall (col_wf 3) spc_cols /\ Forall (col_wf 3) spc_cols2.
Proof.
  destruct spc_layout_cols as (o & E & _). destruct spc_layout_cols2 as (o2 & w & E2 & _).
  split; [exact (layout_cols_wf _ _ _ _ E)|exact (layout_cols_wf _ _ _ _ E2)].
Qed.

(* values in the representable range (hypothesis of base_all_ones_iff_all_missing) *)
Example spc_in_range : forallb (col_in_range 12) [Some 2730; Some 2800; None]%Z = true /\
                       forallb (col_in_range 9) [None; None; None] = true.
Proof. split; reflexivity. Qed.

(* an exact flag (hypothesis of width0_iff_stored_equal) *)
Example spc_exact_flag :
  exists v v', In v [Some 2730; Some 2800; None]%Z /\ In v' [Some 2730; Some 2800; None]%Z /\ v <> v'.
Proof. exists (Some 2730%Z), None. split; [cbn; tauto|]. split; [cbn; tauto|discriminate]. Qed.
