(* Float53.v — the IEEE-754 binary64 steps the encoder performs on user values,
   over exact integers: a finite double is m * 2^e (a dyadic).  Only
   round-to-nearest-even to 53 significant bits is modelled; overflow to
   infinity and subnormals are outside the modelled range (|x| in 2^-1000..2^1000),
   which the correspondence generator never leaves.
   Python steps modelled:  value * scale_powered  (float * float, or int * float
   with the int first converted), 10 ** scale for negative scale (correctly
   rounded 1/10^|s|: checked against the running CPython by the harness),
   round(x) (half to even), int(x) (truncation). *)
From PBK Require Import Base.

Definition dyadic := (Z * Z)%type.     (* (m, e) denotes m * 2^e *)

Definition bitlen (z : Z) : Z := Z.log2 (Z.abs z) + 1.   (* for z <> 0 *)

(* round m * 2^e (plus a sticky flag for discarded non-zero bits below) to 53 bits *)
Definition round53_sticky (m e : Z) (sticky : bool) : dyadic :=
  if (m =? 0)%Z then (0, 0)%Z else
  let bl := bitlen m in
  if (bl <=? 53)%Z then (m, e)          (* exact (sticky can only be set by fdiv, which keeps >= 55 bits) *)
  else
    let sh := (bl - 53)%Z in
    let a := Z.abs m in
    let q := Z.shiftr a sh in
    let rem := (a - Z.shiftl q sh)%Z in
    let half := Z.shiftl 1 (sh - 1) in
    let up := if (rem >? half)%Z then true
              else if (rem <? half)%Z then false
              else if sticky then true else Z.odd q in
    let q' := if up then (q + 1)%Z else q in
    ((if (m <? 0)%Z then - q' else q')%Z, (e + sh)%Z).

Definition round53 (m e : Z) : dyadic := round53_sticky m e false.

Definition of_int (z : Z) : dyadic := round53 z 0.            (* float(int) *)
Definition fmul (a b : dyadic) : dyadic := round53 (fst a * fst b) (snd a + snd b).

(* a + z for an integer z, correctly rounded (float - int in Python converts the int) *)
Definition fadd (a b : dyadic) : dyadic :=
  let e := Z.min (snd a) (snd b) in
  round53 (fst a * 2 ^ (snd a - e) + fst b * 2 ^ (snd b - e)) e.

(* correctly rounded a / b for integers a, b > 0 *)
Definition fdiv_pos (a b : Z) : dyadic :=
  let k := Z.max 0 (bitlen b - bitlen a + 60) in
  let num := Z.shiftl a k in
  let q := (num / b)%Z in
  let r := (num mod b)%Z in
  round53_sticky q (- k) (negb (r =? 0)%Z).

(* 1.0 * 10 ** s *)
Definition pow10_double (s : Z) : dyadic :=
  if (0 <=? s)%Z then of_int (10 ^ s) else fdiv_pos 1 (10 ^ (- s)).

(* round(x): nearest integer, ties to even *)
Definition round_half_even (a : dyadic) : Z :=
  let '(m, e) := a in
  if (0 <=? e)%Z then (m * 2 ^ e)%Z
  else
    let d := (2 ^ (- e))%Z in
    let q := (m / d)%Z in              (* floor *)
    let r := (m mod d)%Z in            (* 0 <= r < d *)
    if (2 * r <? d)%Z then q
    else if (2 * r >? d)%Z then (q + 1)%Z
    else if Z.even q then q else (q + 1)%Z.

(* int(x): truncation toward zero *)
Definition trunc (a : dyadic) : Z :=
  let '(m, e) := a in
  if (0 <=? e)%Z then (m * 2 ^ e)%Z else Z.quot m (2 ^ (- e)).
