(* FrameRoundtrip.v — C04 frame_roundtrip: decoding an encoded message (followed
   by anything) gives back the parameter values and section lengths. *)
From PBK Require Import Base Bits BitsProofs Frame FrameProofs.
From Coq Require Import ZifyBool ZifyNat ZifyN.
Ltac Zify.zify_post_hook ::= Z.to_euclidean_division_equations.

(* ------------------------------------------------------------------------ *)
(* fixed-width parameters                                                    *)
(* ------------------------------------------------------------------------ *)
Definition fixed_param (p : param) : bool :=
  match p_type p with
  | TUint => (0 <? p_nbits p)%Z
  | TBytes => (0 <? p_nbits p)%Z && (p_nbits p mod 8 =? 0)%Z
  | TBin => (0 <? p_nbits p)%Z
  | TBool => (p_nbits p =? 1)%Z
  | TDescs | TData => false
  end.

(* a value that the parameter's field holds exactly (so it reads back as itself) *)
Definition fit_fixed (p : param) (v : pvalue) : bool :=
  match p_type p, v with
  | TUint, PUint z => (0 <=? z)%Z && (z <? 2 ^ p_nbits p)%Z
  | TBytes, PBytes l => forallb is_byte l && (length l =? Z.to_nat (p_nbits p / 8))%nat
  | TBin, PBin b => (length b =? Z.to_nat (p_nbits p))%nat
  | TBool, PBool _ => true
  | _, _ => false
  end &&
  match p_expected p with
  | None => true
  | Some ex => match v with PBytes l => bytes_eqb l ex | _ => false end
  end.

Fixpoint add_props (ps : list param) (vs : list pvalue) (props : list (pname * pvalue)) :=
  match ps, vs with
  | p :: ps', v :: vs' => add_props ps' vs' (add_prop p v props)
  | _, _ => props
  end.

Fixpoint sum_nbits (ps : list param) : Z :=
  match ps with [] => 0%Z | p :: r => (p_nbits p + sum_nbits r)%Z end.

Lemma pad_bytes_exact l n : length l = n -> pad_bytes l n = l.
Proof.
  intros <-. unfold pad_bytes. rewrite firstn_all, Nat.sub_diag. cbn. apply app_nil_r.
Qed.

Lemma param_fixed_roundtrip p v : fixed_param p = true -> fit_fixed p v = true ->
  exists e, (forall o, write_param p v o = Ok (o ++ e)) /\
            Z.of_nat (length e) = p_nbits p /\
            (forall rest, read_typed (p_type p) (p_nbits p) (e ++ rest) = Ok (v, rest)) /\
            check_expected p v = Ok tt.
Proof.
  unfold fixed_param, fit_fixed, write_param, check_expected. intros Hp Hf.
  apply andb_true_iff in Hf as [Hf Hex].
  assert (Hce : match p_expected p with
                | Some e => match v with PBytes l => if bytes_eqb l e then Ok tt else Err ELib | _ => Err ELib end
                | None => Ok tt end = Ok tt).
  { destruct (p_expected p) as [ex|]; [|reflexivity]. destruct v; try discriminate. rewrite Hex. reflexivity. }
  destruct (p_type p); destruct v; try discriminate.
  - (* uint *)
    assert (Hw : exists o1, write_uint z (p_nbits p) [] = Ok o1).
    { unfold write_uint. destruct (Z.leb_spec (p_nbits p) 0); [lia|]. destruct (Z.ltb_spec z 0); [lia|].
      destruct (Z.leb_spec (2 ^ p_nbits p) z); [lia|]. eauto. }
    destruct Hw as (o1 & Hw). pose proof (write_uint_app _ _ _ _ Hw) as (e & -> & Le & G). cbn [app] in Hw.
    exists e. split; [exact G|]. split; [lia|]. split; [|exact Hce].
    intros rest. unfold read_typed.
    destruct (read_write_uint _ _ _ _ rest Hw) as (e' & Ee & _ & Hr). cbn [app] in Ee. subst e'.
    rewrite Hr. cbn [bind]. rewrite Z2N.id by lia. reflexivity.
  - (* bytes *)
    apply andb_true_iff in Hf as [Hb Hl]. apply Nat.eqb_eq in Hl. apply andb_true_iff in Hp as [Hp0 Hp8].
    assert (Hn : (0 <= p_nbits p / 8)%Z) by lia.
    exists (bits_of_bytes l). split.
    { intros o. unfold write_bytes. destruct (Z.ltb_spec (p_nbits p / 8) 0); [lia|].
      rewrite pad_bytes_exact by exact Hl. reflexivity. }
    split; [rewrite length_bits_of_bytes, Hl; lia|]. split; [|exact Hce].
    intros rest. unfold read_typed.
    assert (Hw : write_bytes l (p_nbits p / 8) [] = Ok (bits_of_bytes (pad_bytes l (Z.to_nat (p_nbits p / 8))))).
    { unfold write_bytes. destruct (Z.ltb_spec (p_nbits p / 8) 0); [lia|]. reflexivity. }
    destruct (read_write_bytes _ _ _ _ rest Hb Hw) as (e' & Ee & _ & Hr). cbn [app] in Ee. subst e'.
    rewrite pad_bytes_exact in Hr by exact Hl. rewrite Hr. reflexivity.
  - (* bin *)
    apply Nat.eqb_eq in Hf. exists b. split; [reflexivity|]. split; [lia|]. split; [|exact Hce].
    intros rest. unfold read_typed, read_bin. destruct (Z.ltb_spec (p_nbits p) 0); [lia|].
    rewrite <- Hf, take_bits_app. reflexivity.
  - (* bool *)
    exists [b]. split; [reflexivity|]. split; [cbn; lia|]. split; [|exact Hce]. intros rest. reflexivity.
Qed.

Section Roundtrip.
Variable decode_data : list (pname * pvalue) -> reader -> result (bits * reader).

Definition fits_fixed (ps : list param) (vs : list pvalue) : Prop :=
  Forall2 (fun p v => fixed_param p = true /\ fit_fixed p v = true) ps vs.

Lemma fixed_params_roundtrip ps vs : fits_fixed ps vs ->
  exists e,
    (forall props o, write_params ps vs props o = Ok (o ++ e, add_props ps vs props)) /\
    Z.of_nat (length e) = sum_nbits ps /\
    (forall all start env props rest,
       decode_params decode_data all ps start env props (e ++ rest) =
       Ok (env ++ combine (map p_name ps) vs, add_props ps vs props, rest)).
Proof.
  induction 1 as [|p v ps vs [Hp Hf] Hrest IH].
  - exists []. split; [intros; cbn; rewrite app_nil_r; reflexivity|]. split; [reflexivity|].
    intros. cbn. rewrite app_nil_r. reflexivity.
  - destruct (param_fixed_roundtrip p v Hp Hf) as (e1 & Hw1 & L1 & Hr1 & Hc1).
    destruct IH as (e2 & Hw2 & L2 & Hr2).
    exists (e1 ++ e2). split.
    { intros props o. cbn [write_params add_props]. rewrite Hw1. cbn [bind]. rewrite Hw2, <- app_assoc. reflexivity. }
    split; [rewrite app_length; cbn [sum_nbits]; lia|].
    intros all start env props rest. cbn [decode_params add_props map combine].
    assert (Hnz : (p_nbits p =? 0)%Z = false).
    { unfold fixed_param in Hp. destruct (p_type p); try discriminate; lia. }
    assert (Hstep : match p_type p with
              | TDescs =>
                  let* sl := declared_length all env in
                  let* (ids, r') := read_descs ((sl - Z.of_nat (start - length ((e1 ++ e2) ++ rest)) / 8) / 2) ((e1 ++ e2) ++ rest) in
                  Ok (PDescs ids, r')
              | TData => let* (b, r') := decode_data props ((e1 ++ e2) ++ rest) in Ok (PData b, r')
              | t => if (p_nbits p =? 0)%Z
                     then let* sl := declared_length all env in
                          read_typed t (sl * 8 - Z.of_nat (start - length ((e1 ++ e2) ++ rest))) ((e1 ++ e2) ++ rest)
                     else read_typed t (p_nbits p) ((e1 ++ e2) ++ rest)
              end = Ok (v, e2 ++ rest)).
    { rewrite Hnz. rewrite <- app_assoc. specialize (Hr1 (e2 ++ rest)). unfold fixed_param in Hp.
      revert Hp Hr1. destruct (p_type p); intros Hp Hr1; try discriminate; exact Hr1. }
    cbv zeta in Hstep |- *. rewrite Hstep. cbn [bind]. rewrite Hc1. cbn [bind].
    rewrite Hr2, <- app_assoc. reflexivity.
Qed.

(* ------------------------------------------------------------------------ *)
(* descriptors                                                               *)
(* ------------------------------------------------------------------------ *)
Definition desc_ok (id : Z) : bool :=
  (0 <=? id)%Z && (desc_F id <? 4)%Z && (desc_X id <? 64)%Z && (desc_Y id <? 256)%Z.

Lemma write_descs_ok ids : forallb desc_ok ids = true ->
  exists e, (forall o, write_descs ids o = Ok (o ++ e)) /\ length e = (16 * length ids)%nat /\
    forall acc rest, N.iter (N.of_nat (length ids)) read_desc1 (Ok (acc, e ++ rest)) = Ok (rev ids ++ acc, rest).
Proof.
  induction ids as [|id ids IH]; intros H.
  - exists []. split; [intros; cbn; rewrite app_nil_r; reflexivity|]. split; [reflexivity|]. reflexivity.
  - cbn [forallb] in H. apply andb_true_iff in H as [Hid H]. destruct (IH H) as (e2 & Hw2 & L2 & Hr2).
    unfold desc_ok in Hid. apply andb_true_iff in Hid as [Hid HY]. apply andb_true_iff in Hid as [Hid HX].
    apply andb_true_iff in Hid as [H0 HF].
    assert (HF0 : (0 <= desc_F id)%Z) by (unfold desc_F; lia).
    assert (HX0 : (0 <= desc_X id)%Z) by (unfold desc_X; lia).
    assert (HY0 : (0 <= desc_Y id)%Z) by (unfold desc_Y; lia).
    assert (W : forall v w, (0 < w)%Z -> (0 <= v < 2 ^ w)%Z -> forall o, write_uint v w o = Ok (o ++ to_bits (Z.to_nat w) (Z.to_N v))).
    { intros v w Hw Hv o. unfold write_uint. destruct (Z.leb_spec w 0); [lia|]. destruct (Z.ltb_spec v 0); [lia|].
      destruct (Z.leb_spec (2 ^ w) v); [lia|]. reflexivity. }
    exists (to_bits 2 (Z.to_N (desc_F id)) ++ to_bits 6 (Z.to_N (desc_X id)) ++ to_bits 8 (Z.to_N (desc_Y id)) ++ e2).
    split.
    { intros o. cbn [write_descs]. rewrite (W _ 2%Z) by (change (2 ^ 2)%Z with 4%Z; lia). cbn [bind].
      rewrite (W _ 6%Z) by (change (2 ^ 6)%Z with 64%Z; lia). cbn [bind].
      rewrite (W _ 8%Z) by (change (2 ^ 8)%Z with 256%Z; lia). cbn [bind].
      rewrite Hw2, <- !app_assoc. reflexivity. }
    split; [rewrite !app_length, !length_to_bits, L2; cbn [length]; lia|].
    intros acc rest. cbn [length]. rewrite Nat2N.inj_succ, N.iter_succ_r.
    assert (Hone : read_desc1 (Ok (acc, (to_bits 2 (Z.to_N (desc_F id)) ++ to_bits 6 (Z.to_N (desc_X id)) ++
                       to_bits 8 (Z.to_N (desc_Y id)) ++ e2) ++ rest)) = Ok (id :: acc, e2 ++ rest)).
    { unfold read_desc1. cbn [bind]. rewrite <- !app_assoc.
      rewrite (read_uint_to_bits 2) by (try lia; change (2 ^ Z.to_N 2)%N with 4%N; lia). cbn [bind].
      rewrite (read_uint_to_bits 6) by (try lia; change (2 ^ Z.to_N 6)%N with 64%N; lia). cbn [bind].
      rewrite (read_uint_to_bits 8) by (try lia; change (2 ^ Z.to_N 8)%N with 256%N; lia). cbn [bind].
      rewrite !Z2N.id by lia. f_equal. f_equal. f_equal. unfold desc_F, desc_X, desc_Y. lia. }
    rewrite Hone, Hr2. cbn [rev]. rewrite <- app_assoc. reflexivity.
Qed.

Lemma read_descs_roundtrip ids : forallb desc_ok ids = true ->
  exists e, (forall o, write_descs ids o = Ok (o ++ e)) /\ length e = (16 * length ids)%nat /\
    forall rest, read_descs (Z.of_nat (length ids)) (e ++ rest) = Ok (ids, rest).
Proof.
  intros H. destruct (write_descs_ok ids H) as (e & Hw & L & Hr). exists e. split; [exact Hw|]. split; [exact L|].
  intros rest. unfold read_descs. replace (Z.to_N (Z.of_nat (length ids))) with (N.of_nat (length ids)) by lia.
  rewrite Hr. cbn [bind]. rewrite app_nil_r, rev_involutive. reflexivity.
Qed.


(* ------------------------------------------------------------------------ *)
(* splitting parameter lists                                                 *)
(* ------------------------------------------------------------------------ *)
Lemma write_params_split a : forall va b vb props o, length a = length va ->
  write_params (a ++ b) (va ++ vb) props o =
  let* (o1, p1) := write_params a va props o in write_params b vb p1 o1.
Proof.
  induction a as [|p a IH]; intros va b vb props o Hl; destruct va as [|v va]; try discriminate.
  - reflexivity.
  - cbn [app write_params]. destruct (write_param p v o) as [o1|e]; cbn [bind]; [|reflexivity].
    apply IH. cbn in Hl. lia.
Qed.

Lemma decode_params_split all a : forall b start env props r,
  decode_params decode_data all (a ++ b) start env props r =
  let* (env1, props1, r1) := decode_params decode_data all a start env props r in
  decode_params decode_data all b start env1 props1 r1.
Proof.
  induction a as [|p a IH]; intros b start env props r; [reflexivity|].
  cbn [app decode_params].
  match goal with |- bind ?x _ = bind (bind ?x _) _ => destruct x as [[v r1]|e]; cbn [bind]; [|reflexivity] end.
  destruct (check_expected p v); cbn [bind]; [apply IH|reflexivity].
Qed.

Lemma add_props_app a : forall va b vb props, length a = length va ->
  add_props (a ++ b) (va ++ vb) props = add_props b vb (add_props a va props).
Proof.
  induction a as [|p a IH]; intros va b vb props Hl; destruct va as [|v va]; try discriminate; [reflexivity|].
  cbn [app add_props]. apply IH. cbn in Hl. lia.
Qed.

(* ------------------------------------------------------------------------ *)
(* layouts: fixed-width parameters, then at most one "to the end" parameter  *)
(* ------------------------------------------------------------------------ *)
Definition tail_param_ok (fx : list param) (t : param) : bool :=
  (p_nbits t =? 0)%Z &&
  match p_expected t with None => true | Some _ => false end &&
  match p_type t with
  | TBin => negb (p_prop t)
  | TDescs => (sum_nbits fx mod 8 =? 0)%Z
  | TData => true
  | _ => false
  end.

(* the value of the tail parameter and the bits it is written as *)
Definition tail_fit (t : param) (v : pvalue) : bool :=
  match p_type t, v with
  | TBin, PBin _ => true
  | TDescs, PDescs ids => forallb desc_ok ids
  | TData, PData _ => true
  | _, _ => false
  end.

Definition tail_bits (v : pvalue) (e : bits) : Prop :=
  match v with
  | PBin b => e = b
  | PData b => e = b
  | PDescs ids => forall o, write_descs ids o = Ok (o ++ e)
  | _ => False
  end.

(* what the tail parameter reads back as when [fill] zero bits follow it *)
Definition tail_decoded (v : pvalue) (fill : nat) : pvalue :=
  match v with
  | PBin b => PBin (b ++ zeros fill)
  | _ => v
  end.

(* a section in canonical form: layout = fx ++ tail, values = vfx ++ tail value,
   section_length (when present) first *)
Record canon (c : sconfig) (vs : list pvalue) (fill : nat)
    (cn_fx : list param) (cn_tail : option (param * pvalue)) (cn_vfx : list pvalue) : Prop := {
  cn_ps : s_params c = cn_fx ++ match cn_tail with Some (t, _) => [t] | None => [] end;
  cn_vs : vs = cn_vfx ++ match cn_tail with Some (_, v) => [v] | None => [] end;
  cn_fit : fits_fixed cn_fx cn_vfx;
  cn_tail_ok : match cn_tail with
               | Some (t, v) => tail_param_ok cn_fx t = true /\ tail_fit t v = true /\
                                has_param Nsection_length (s_params c) = true
               | None => True end;
  cn_first : sl_first (s_params c) = true;
  cn_nolen : has_param Nsection_length (s_params c) = false -> fill = 0%nat
}.

Lemma combine_app_eq {A B} (a : list A) : forall (c : list B) b d, length a = length c ->
  combine (a ++ b) (c ++ d) = combine a c ++ combine b d.
Proof.
  induction a as [|x a IH]; intros c b d Hl; destruct c as [|y c]; try discriminate; [reflexivity|].
  cbn [app combine]. f_equal. apply IH. cbn in Hl. lia.
Qed.

Lemma fits_fixed_length ps vs : fits_fixed ps vs -> length ps = length vs.
Proof. induction 1; cbn; congruence. Qed.

Lemma prop_get_combine_first n v names vs : 
  prop_get n (combine (n :: names) (v :: vs)) = Some v.
Proof. cbn [combine prop_get]. assert (pname_beq n n = true) by (apply internal_pname_dec_lb; reflexivity). rewrite H. reflexivity. Qed.

Lemma decode_section_split c a b props r : s_params c = a ++ b ->
  decode_section decode_data c props r =
  let start_len := length r in
  let* (env, props1, r1) :=
    (let* (env1, props1, r1) := decode_params decode_data (s_params c) a start_len [] props r in
     decode_params decode_data (s_params c) b start_len env1 props1 r1) in
  let* r2 :=
    if has_param Nsection_length (s_params c) then
      let* sl := declared_length (s_params c) env in
      let nbits_unread := (sl * 8 - Z.of_nat (start_len - length r1))%Z in
      if (0 <? nbits_unread)%Z then let* (_, r') := read_bin nbits_unread r1 in Ok r'
      else if (nbits_unread <? 0)%Z then Err ELib
      else Ok r1
    else Ok r1 in
  Ok (mkSec (s_index c) (s_params c) (start_len - length r2) env, props1, r2).
Proof.
  intros H. unfold decode_section. rewrite <- decode_params_split, <- H. reflexivity.
Qed.

(* the last step of decode_section: skip to the declared end *)
Lemma final_skip all env sl start r1 k t :
  declared_length all env = Ok sl ->
  r1 = zeros k ++ t ->
  (sl * 8 - Z.of_nat (start - length r1) = Z.of_nat k)%Z ->
  (if has_param Nsection_length all
   then let* sl0 := declared_length all env in
        if (0 <? sl0 * 8 - Z.of_nat (start - length r1))%Z
        then let* (_, r') := read_bin (sl0 * 8 - Z.of_nat (start - length r1)) r1 in Ok r'
        else if (sl0 * 8 - Z.of_nat (start - length r1) <? 0)%Z then Err ELib else Ok r1
   else Ok r1) = Ok t.
Proof.
  intros Hd -> Hk. destruct (declared_length_value _ _ _ Hd) as [Hhas _]. rewrite Hhas, Hd. cbn [bind].
  rewrite Hk. destruct (Z.ltb_spec 0 (Z.of_nat k)).
  - unfold read_bin. destruct (Z.ltb_spec (Z.of_nat k) 0); [lia|]. rewrite Nat2Z.id.
    rewrite <- (length_zeros k) at 1. rewrite take_bits_app. reflexivity.
  - destruct (Z.ltb_spec (Z.of_nat k) 0); [lia|]. assert (k = 0%nat) by lia. subst k. reflexivity.
Qed.

(* decoding a canonical section followed by [fill] zero bits and anything:
   the decoder returns the values (tail bin: with the fill), consumes exactly
   the section, and leaves the rest *)
Lemma decode_canonical c vs fill fx tail vfx (K : canon c vs fill fx tail vfx) body :
  (forall o, exists pr, write_params (s_params c) vs [] o = Ok (o ++ body, pr)) ->
  (has_param Nsection_length (s_params c) = true ->
     exists sl, nth_error vs 0 = Some (PUint sl) /\ (8 * sl = Z.of_nat (length body + fill))%Z) ->
  (match tail with Some (t, _) => p_type t = TDescs -> (fill < 16)%nat | None => True end) ->
  forall props_d t,
  (match tail with
   | Some (tp, PData b) => forall rest, decode_data (add_props fx vfx props_d) (b ++ rest) = Ok (b, rest)
   | _ => True end) ->
  let vs'' := vfx ++ match tail with Some (_, v) => [tail_decoded v fill] | None => [] end in
  decode_section decode_data c props_d (body ++ zeros fill ++ t) =
  Ok (mkSec (s_index c) (s_params c) (length body + fill) (combine (map p_name (s_params c)) vs''),
      add_props (s_params c) vs'' props_d, t).
Proof.
  destruct K as [Hps Hvs Hfit Htail Hfirst Hnolen].
  intros Hbody Hlen Hdesc props_d t Hdata. cbv zeta.
  destruct (fixed_params_roundtrip fx vfx Hfit) as (efx & Hwfx & Lfx & Hrfx).
  pose proof (fits_fixed_length _ _ Hfit) as Hlfx.
  assert (Hlmap : length (map p_name fx) = length vfx) by (rewrite map_length; exact Hlfx).
  rewrite (decode_section_split c _ _ props_d _ Hps). cbv zeta.
  destruct (Hbody []) as (pr & Hb). cbn [app] in Hb. rewrite Hps, Hvs in Hb.
  rewrite write_params_split in Hb by exact Hlfx. rewrite Hwfx in Hb. cbn [bind app] in Hb.
  set (start := length (body ++ zeros fill ++ t)).
  assert (Hstart : start = (length body + fill + length t)%nat)
    by (unfold start; rewrite !app_length, length_zeros; lia).
  destruct tail as [[tp tv]|].
  - destruct Htail as (Htp & Htf & Hhas). specialize (Hlen Hhas). destruct Hlen as (sl & Hsl0 & Hsl8).
    unfold tail_param_ok in Htp. apply andb_true_iff in Htp as [Htp Hty]. apply andb_true_iff in Htp as [Hnb Hex].
    destruct (p_expected tp) eqn:Eex; [discriminate|]. 
    assert (Hfx1 : exists pl fr vr, fx = pl :: fr /\ vfx = PUint sl :: vr /\ p_name pl = Nsection_length).
    { rewrite Hps in Hfirst, Hhas. destruct fx as [|pl fr].
      - exfalso. cbn [app sl_first] in Hfirst. destruct (pname_beq (p_name tp) Nsection_length) eqn:E.
        + unfold tail_fit in Htf. destruct (p_type tp); try discriminate.
        + cbn [app] in Hhas. rewrite Hhas in Hfirst. discriminate.
      - destruct vfx as [|v0 vr]; [discriminate|]. exists pl, fr, vr.
        rewrite Hvs in Hsl0. cbn in Hsl0. injection Hsl0 as ->. split; [reflexivity|]. split; [reflexivity|].
        cbn [app sl_first] in Hfirst. destruct (pname_beq (p_name pl) Nsection_length) eqn:E.
        + apply internal_pname_dec_bl, E.
        + cbn [app] in Hhas. rewrite Hhas in Hfirst. discriminate. }
    destruct Hfx1 as (pl & fr & vr & Efx & Evfx & Hpl).
    assert (Hdl : forall env0, declared_length (s_params c) (([] ++ combine (map p_name fx) vfx) ++ env0) = Ok sl).
    { intros env0. unfold declared_length. rewrite Hhas. rewrite Efx, Evfx. cbn [app map combine prop_get].
      rewrite Hpl. change (pname_beq Nsection_length Nsection_length) with true. reflexivity. }
    assert (Hdl0 : declared_length (s_params c) ([] ++ combine (map p_name fx) vfx) = Ok sl).
    { unfold declared_length. rewrite Hhas. rewrite Efx, Evfx. cbn [app map combine prop_get].
      rewrite Hpl. change (pname_beq Nsection_length Nsection_length) with true. reflexivity. }
    assert (Hfin : forall (n1 n2 : nat) env1 env2 (p1 p2 : list (pname * pvalue)) (x : reader),
              n1 = n2 -> env1 = env2 -> p1 = p2 ->
              @Ok (section * list (pname * pvalue) * reader) (mkSec (s_index c) (s_params c) n1 env1, p1, x) =
              Ok (mkSec (s_index c) (s_params c) n2 env2, p2, x)) by (intros; subst; reflexivity).
    assert (Henv : forall v, ([] ++ combine (map p_name fx) vfx) ++ [(p_name tp, v)] =
                             combine (map p_name (s_params c)) (vfx ++ [v])).
    { intros v. rewrite Hps, map_app. cbn [app map]. rewrite combine_app_eq by exact Hlmap. reflexivity. }
    assert (Hprops : forall v, add_prop tp v (add_props fx vfx props_d) = add_props (s_params c) (vfx ++ [v]) props_d).
    { intros v. rewrite Hps, add_props_app by exact Hlfx. reflexivity. }
    apply Z.eqb_eq in Hnb.
    cbn [write_params] in Hb. apply bind_ok in Hb as (ot & Hwt & Hb). apply ok_inj in Hb. injection Hb as Hbody' _.
    cbn [app] in Hbody'. unfold tail_fit in Htf. unfold write_param in Hwt.
    destruct (p_type tp) eqn:Ety; try discriminate; destruct tv; try discriminate.
    + (* bin to the end of the section *)
      unfold write_bin in Hwt. apply ok_inj in Hwt. subst ot body.
      rewrite app_length in Hsl8, Hstart.
      assert (Hread : (start - length (b ++ zeros fill ++ t))%nat = length efx).
      { rewrite Hstart, !app_length, length_zeros. lia. }
      rewrite <- app_assoc. rewrite Hrfx. cbn [bind decode_params]. rewrite Ety, Hnb. change (0 =? 0)%Z with true. cbv iota.
      rewrite Hread, Hdl0. cbn [bind]. unfold read_typed, read_bin.
      destruct (Z.ltb_spec (sl * 8 - Z.of_nat (length efx)) 0); [lia|].
      replace (Z.to_nat (sl * 8 - Z.of_nat (length efx))) with (length (b ++ zeros fill))
        by (rewrite app_length, length_zeros; lia).
      rewrite (app_assoc b), take_bits_app. cbn [bind]. unfold check_expected. rewrite Eex. cbn [bind].
      rewrite (final_skip (s_params c) _ sl start t 0 t (Hdl _) eq_refl) by (rewrite Hstart; lia).
      cbn [bind tail_decoded]. apply Hfin; [rewrite Hstart, ?app_length; lia|apply Henv|apply Hprops].
    + (* descriptors: the count comes from the section length *)
      destruct (read_descs_roundtrip ids Htf) as (ed & Hwd & Ld & Hrd).
      rewrite Hwd in Hwt. apply ok_inj in Hwt. subst ot body.
      rewrite app_length in Hsl8, Hstart. specialize (Hdesc eq_refl). apply Z.eqb_eq in Hty.
      assert (Hread : (start - length (ed ++ zeros fill ++ t))%nat = length efx).
      { rewrite Hstart, !app_length, length_zeros. lia. }
      rewrite <- app_assoc. rewrite Hrfx. cbn [bind decode_params]. rewrite Ety.
      rewrite Hread, Hdl0. cbn [bind].
      replace ((sl - Z.of_nat (length efx) / 8) / 2)%Z with (Z.of_nat (length ids)) by lia.
      rewrite Hrd. cbn [bind]. unfold check_expected. rewrite Eex. cbn [bind].
      rewrite (final_skip (s_params c) _ sl start (zeros fill ++ t) fill t (Hdl _) eq_refl)
        by (rewrite Hstart, app_length, length_zeros; lia).
      cbn [bind tail_decoded]. apply Hfin; [rewrite Hstart, ?app_length; lia|apply Henv|apply Hprops].
    + (* template data: the abstract decoder *)
      apply ok_inj in Hwt. subst ot body.
      rewrite app_length in Hsl8, Hstart.
      assert (Hread : (start - length (b ++ zeros fill ++ t))%nat = length efx).
      { rewrite Hstart, !app_length, length_zeros. lia. }
      rewrite <- app_assoc. rewrite Hrfx. cbn [bind decode_params]. rewrite Ety.
      rewrite Hdata. cbn [bind]. unfold check_expected. rewrite Eex. cbn [bind].
      rewrite (final_skip (s_params c) _ sl start (zeros fill ++ t) fill t (Hdl _) eq_refl)
        by (rewrite Hstart, app_length, length_zeros; lia).
      cbn [bind tail_decoded]. apply Hfin; [rewrite Hstart, ?app_length; lia|apply Henv|apply Hprops].
  - (* no tail parameter *)
    cbn [write_params] in Hb. apply ok_inj in Hb. injection Hb as Hbody' _. cbn [app] in Hbody'. subst body.
    rewrite Hrfx. cbn [bind decode_params]. rewrite !app_nil_r in *.
    assert (Hfin : forall (n1 n2 : nat) env1 env2 (p1 p2 : list (pname * pvalue)) (x : reader),
              n1 = n2 -> env1 = env2 -> p1 = p2 ->
              @Ok (section * list (pname * pvalue) * reader) (mkSec (s_index c) (s_params c) n1 env1, p1, x) =
              Ok (mkSec (s_index c) (s_params c) n2 env2, p2, x)) by (intros; subst; reflexivity).
    assert (Hcase : has_param Nsection_length (s_params c) = true \/ has_param Nsection_length (s_params c) = false)
      by (destruct (has_param Nsection_length (s_params c)); auto).
    destruct Hcase as [Hhas|Hhas].
    + destruct (Hlen Hhas) as (sl & Hsl0 & Hsl8).
      assert (Hdl0 : declared_length (s_params c) ([] ++ combine (map p_name fx) vfx) = Ok sl).
      { unfold declared_length. rewrite Hhas. rewrite Hps in Hfirst, Hhas. destruct fx as [|pl fr]; [discriminate|].
        destruct vfx as [|v0 vr]; [discriminate|]. rewrite Hvs in Hsl0. cbn in Hsl0. injection Hsl0 as ->.
        cbn [sl_first] in Hfirst. destruct (pname_beq (p_name pl) Nsection_length) eqn:E.
        - cbn [app map combine prop_get]. rewrite E. reflexivity.
        - rewrite Hhas in Hfirst. discriminate. }
      rewrite <- Hps in Hdl0 |- *.
      assert (Hk : (sl * 8 - Z.of_nat (start - length (zeros fill ++ t)) = Z.of_nat fill)%Z)
        by (rewrite Hstart, app_length, length_zeros; lia).
      pose proof (final_skip (s_params c) _ sl start (zeros fill ++ t) fill t Hdl0 eq_refl Hk) as Hf.
      etransitivity; [apply (f_equal (fun x => bind x _)); exact Hf|].
      cbn [bind]. apply Hfin; [rewrite Hstart; lia|reflexivity|reflexivity].
    + rewrite (Hnolen Hhas) in *. cbn [zeros repeat app] in *. rewrite <- Hps, Hhas. cbn [bind].
      apply Hfin; [rewrite Hstart; lia|rewrite Hps; reflexivity|rewrite Hps; reflexivity].
Qed.


(* ------------------------------------------------------------------------ *)
(* what encode_section produced, in canonical form (final values)            *)
(* ------------------------------------------------------------------------ *)
Lemma write_params_props_eq ps : forall vs props o o1 props1,
  write_params ps vs props o = Ok (o1, props1) -> length ps = length vs -> props1 = add_props ps vs props.
Proof.
  induction ps as [|p ps IH]; intros vs props o o1 props1 H Hl; destruct vs as [|v vs]; try discriminate.
  - cbn in H. injection H as _ <-. reflexivity.
  - cbn [write_params] in H. apply bind_ok in H as (o2 & _ & H). cbn [add_props]. eapply IH; [exact H|]. cbn in Hl. lia.
Qed.

Lemma write_params_any_props ps : forall vs props o o1 props1,
  write_params ps vs props o = Ok (o1, props1) ->
  forall props' o', exists pr, write_params ps vs props' o' = Ok (o' ++ skipn (length o) o1, pr).
Proof.
  induction ps as [|p ps IH]; intros vs props o o1 props1 H props' o'.
  - cbn in H. injection H as <- _. rewrite skipn_all. cbn. rewrite app_nil_r. eauto.
  - destruct vs as [|v vs]; [discriminate|]. cbn [write_params] in H |- *.
    apply bind_ok in H as (o2 & H1 & H). apply write_param_app in H1 as (e1 & -> & G1).
    rewrite G1. cbn [bind]. destruct (IH _ _ _ _ _ H (add_prop p v props') (o' ++ e1)) as (pr & Hp).
    rewrite Hp. exists pr. apply write_params_app in H as (e2 & -> & _).
    rewrite (skipn_app_exact (length (o ++ e1))) by reflexivity.
    rewrite <- (app_assoc o e1 e2), (skipn_app_exact (length o)) by reflexivity.
    rewrite <- app_assoc. reflexivity.
Qed.

Lemma encode_section_canonical ign c vs props o o' props' sec :
  sl_first (s_params c) = true -> length (s_params c) = length vs ->
  (forall pl, find_param Nsection_length (s_params c) = Some pl -> p_prop pl = false) ->
  encode_section ign c vs props o = Ok (o', props', sec) ->
  exists vs' body' fill,
    sec_values sec = combine (map p_name (s_params c)) vs' /\ length vs' = length vs /\
    o' = o ++ body' ++ zeros fill /\
    (forall o2, exists pr, write_params (s_params c) vs' [] o2 = Ok (o2 ++ body', pr)) /\
    sec_nbits sec = (length body' + fill)%nat /\ sec_index sec = s_index c /\ sec_params sec = s_params c /\
    props' = add_props (s_params c) vs props /\
    (forall pr, add_props (s_params c) vs' pr = add_props (s_params c) vs pr) /\
    (has_param Nsection_length (s_params c) = true ->
       exists sl, nth_error vs' 0 = Some (PUint sl) /\ (8 * sl = Z.of_nat (length body' + fill))%Z) /\
    (has_param Nsection_length (s_params c) = false ->
       exists ed, edition_of props' = Ok ed /\ Z.of_nat fill = pad_bits ed (Z.of_nat (length body'))).
Proof.
  intros Hfirst Hlen Hnp H.
  pose proof (encode_section_pieces _ _ _ _ _ _ _ _ H) as (body & props1 & edition & Hw & He & Hrest).
  cbv zeta in Hrest. destruct Hrest as (Hi & Hp & Hn & Hrest).
  pose proof (write_params_props_eq _ _ _ _ _ _ Hw Hlen) as Eprops1.
  set (pad := pad_bits edition (Z.of_nat (length body))) in *.
  destruct (pad_bits_octet edition (Z.of_nat (length body)) ltac:(lia)) as [Hpad0 Hpad8]. fold pad in Hpad0, Hpad8.
  assert (Hbody_any : forall o2, exists pr, write_params (s_params c) vs [] o2 = Ok (o2 ++ body, pr)).
  { intros o2. destruct (write_params_any_props _ _ _ _ _ _ Hw [] o2) as (pr & Hx). cbn [length skipn] in Hx. eauto. }
  destruct (find_param Nsection_length (s_params c)) as [pl|] eqn:Hfind.
  - assert (Hhas : has_param Nsection_length (s_params c) = true) by (apply (find_param_in _ _ _ Hfind)).
    specialize (Hnp pl eq_refl).
    destruct Hrest as (sl & Hsl & Hrest).
    destruct (sl_first_shape _ _ Hfirst Hfind) as (r & Hps & Hname & Htype & Hoff0).
    (* the first value is the declared length *)
    assert (Hvs : exists vr, vs = PUint sl :: vr).
    { rewrite Hps in Hsl, Hlen. destruct vs as [|v0 vr]; [discriminate|]. exists vr. f_equal.
      cbn [map combine prop_get] in Hsl. rewrite Hname in Hsl.
      change (pname_beq Nsection_length Nsection_length) with true in Hsl. congruence. }
    destruct Hvs as (vr & ->).
    destruct ((sl =? 0)%Z || ign) eqn:Eb.
    + (* recomputed: the length field is overwritten with L *)
      destruct Hrest as (off & Hoff & Hset & Hprops & Hvals). rewrite Hoff0 in Hoff. injection Hoff as <-.
      set (L := (Z.of_nat (length body + Z.to_nat pad) / 8)%Z) in *.
      (* body = field ++ rest of body *)
      rewrite Hps in Hw. cbn [write_params] in Hw. apply bind_ok in Hw as (o1 & Hw1 & Hwr).
      unfold write_param in Hw1. rewrite Htype in Hw1.
      pose proof (write_uint_exact _ _ _ _ Hw1) as (-> & Hr1 & Hw0). cbn [app] in Hwr.
      apply write_params_app in Hwr as (er & Ebody & Gr). subst body.
      unfold set_uint in Hset. destruct (Z.leb_spec (p_nbits pl) 0); [lia|].
      destruct (Z.ltb_spec L 0); [discriminate|]. destruct (Z.leb_spec (2 ^ p_nbits pl) L); [discriminate|].
      apply ok_inj in Hset.
      set (w := Z.to_nat (p_nbits pl)) in *.
      exists (PUint L :: vr), (to_bits w (Z.to_N L) ++ er), (Z.to_nat pad).
      split.
      { rewrite Hvals, Hps. cbn [map combine set_value]. rewrite Hname.
        change (pname_beq Nsection_length Nsection_length) with true. reflexivity. }
      split; [reflexivity|].
      assert (Lw : length (to_bits w (Z.to_N sl)) = w) by apply length_to_bits.
      split.
      { rewrite <- Hset. replace (length o + Z.to_nat 0)%nat with (length o) by lia.
        rewrite firstn_app_exact by reflexivity. f_equal.
        rewrite <- !app_assoc. rewrite app_assoc.
        rewrite skipn_app_exact by (rewrite app_length, Lw; reflexivity). reflexivity. }
      split.
      { intros o2. rewrite Hps. cbn [write_params]. unfold write_param. rewrite Htype.
        unfold write_uint. destruct (Z.leb_spec (p_nbits pl) 0); [lia|]. destruct (Z.ltb_spec L 0); [lia|].
        destruct (Z.leb_spec (2 ^ p_nbits pl) L); [lia|]. cbn [bind]. fold w.
        destruct (write_params_any_props _ _ _ _ _ _ (Gr (to_bits w (Z.to_N sl))) (add_prop pl (PUint L) []) (o2 ++ to_bits w (Z.to_N L))) as (pr & Hx).
        rewrite skipn_app_exact in Hx by reflexivity. rewrite Hx, <- app_assoc. eauto. }
      assert (Llen : length (to_bits w (Z.to_N L) ++ er) = length (to_bits w (Z.to_N sl) ++ er))
        by (rewrite !app_length, !length_to_bits; reflexivity).
      split.
      { rewrite Hn, <- Hset. replace (length o + Z.to_nat 0)%nat with (length o) by lia.
        rewrite !app_length, firstn_length, skipn_length, !app_length, !length_to_bits, length_zeros.
        fold w. rewrite app_length, length_to_bits in Llen. lia. }
      split; [exact Hi|]. split; [exact Hp|].
      split.
      { rewrite Hprops. unfold add_prop at 1. rewrite Hnp. exact Eprops1. }
      split.
      { intros pr0. rewrite Hps. cbn [add_props]. unfold add_prop. rewrite Hnp. reflexivity. }
      split.
      { intros _. exists L. split; [reflexivity|]. rewrite Llen. unfold L. lia. }
      intros Hc. congruence.
    + (* declared length honoured *)
      destruct Hrest as (-> & Hvals & Hge & ->).
      exists (PUint sl :: vr), body,
             (Z.to_nat pad + Z.to_nat (sl * 8 - Z.of_nat (length body + Z.to_nat pad)))%nat.
      split; [exact Hvals|]. split; [reflexivity|].
      split; [unfold zeros; rewrite repeat_app, <- !app_assoc; reflexivity|].
      split; [exact Hbody_any|].
      split; [rewrite Hn, !app_length, !length_zeros; lia|].
      split; [exact Hi|]. split; [exact Hp|]. split; [exact Eprops1|]. split; [reflexivity|].
      split; [intros _; exists sl; split; [reflexivity|lia]|]. intros Hc. congruence.
  - assert (Hhas : has_param Nsection_length (s_params c) = false) by (apply find_param_has, Hfind).
    destruct Hrest as (-> & -> & Hvals).
    exists vs, body, (Z.to_nat pad).
    split; [exact Hvals|]. split; [reflexivity|]. split; [reflexivity|]. split; [exact Hbody_any|].
    split; [rewrite Hn, !app_length, length_zeros; lia|].
    split; [exact Hi|]. split; [exact Hp|]. split; [exact Eprops1|]. split; [reflexivity|].
    split; [intros Hc; congruence|]. intros _. exists edition. split; [exact He|]. lia.
Qed.


(* ------------------------------------------------------------------------ *)
(* a computable "the values fit the layout" and the canonical decomposition   *)
(* ------------------------------------------------------------------------ *)
Fixpoint fits_layout (seen : list param) (ps : list param) (vs : list pvalue) : bool :=
  match ps, vs with
  | [], [] => true
  | p :: ps', v :: vs' =>
      if fixed_param p then fit_fixed p v && fits_layout (seen ++ [p]) ps' vs'
      else match ps', vs' with
           | [], [] => tail_param_ok seen p && tail_fit p v     (* only as the last one *)
           | _, _ => false
           end
  | _, _ => false
  end.

Lemma fits_layout_parts : forall ps vs seen, fits_layout seen ps vs = true ->
  exists fx vfx (tail : option (param * pvalue)),
    ps = fx ++ match tail with Some (t, _) => [t] | None => [] end /\
    vs = vfx ++ match tail with Some (_, v) => [v] | None => [] end /\
    fits_fixed fx vfx /\
    match tail with
    | Some (t, v) => tail_param_ok (seen ++ fx) t = true /\ tail_fit t v = true /\ fixed_param t = false
    | None => True end.
Proof.
  induction ps as [|p ps IH]; intros vs seen H; destruct vs as [|v vs]; try discriminate.
  - exists [], [], None. repeat split; constructor.
  - cbn [fits_layout] in H. destruct (fixed_param p) eqn:Ep.
    + apply andb_true_iff in H as [Hf H]. destruct (IH _ _ H) as (fx & vfx & tail & -> & -> & Hfit & Ht).
      exists (p :: fx), (v :: vfx), tail. split; [reflexivity|]. split; [reflexivity|].
      split; [constructor; auto|]. destruct tail as [[t tv]|]; [|exact I].
      rewrite <- app_assoc in Ht. exact Ht.
    + destruct ps; [|discriminate]. destruct vs; [|discriminate]. apply andb_true_iff in H as [H1 H2].
      exists [], [], (Some (p, v)). split; [reflexivity|]. split; [reflexivity|]. split; [constructor|].
      rewrite app_nil_r. auto.
Qed.

(* configuration-level conditions (all bundled definitions satisfy them) *)
Definition config_rt_ok (c : sconfig) : bool :=
  sl_first (s_params c) &&
  match find_param Nsection_length (s_params c) with
  | Some pl => negb (p_prop pl)
  | None => forallb fixed_param (s_params c) && (sum_nbits (s_params c) mod 16 =? 0)%Z
  end.

Lemma definitions_rt_ok : forallb config_rt_ok definitions = true.
Proof. vm_compute. reflexivity. Qed.

Lemma sum_nbits_app a b : sum_nbits (a ++ b) = (sum_nbits a + sum_nbits b)%Z.
Proof. induction a as [|p a IH]; cbn [app sum_nbits]; lia. Qed.

Lemma forallb_fixed_no_tail fx t : forallb fixed_param (fx ++ [t]) = true -> fixed_param t = true.
Proof. rewrite forallb_app. cbn [forallb]. intros H. apply andb_true_iff in H as [_ H]. apply andb_true_iff in H as [H _]. exact H. Qed.

(* from "fits" and the configuration conditions to the canonical record *)
Lemma make_canon c vs fill :
  config_rt_ok c = true -> fits_layout [] (s_params c) vs = true ->
  (has_param Nsection_length (s_params c) = false -> fill = 0%nat) ->
  exists fx tail vfx, canon c vs fill fx tail vfx.
Proof.
  intros Hc Hf Hfill. unfold config_rt_ok in Hc. apply andb_true_iff in Hc as [Hfirst Hc].
  destruct (fits_layout_parts _ _ _ Hf) as (fx & vfx & tail & Hps & Hvs & Hfit & Ht). cbn [app] in Ht.
  exists fx, tail, vfx. constructor; auto.
  destruct tail as [[t tv]|]; [|exact I]. destruct Ht as (H1 & H2 & H3). split; [exact H1|]. split; [exact H2|].
  destruct (find_param Nsection_length (s_params c)) as [pl|] eqn:E.
  - apply (find_param_in _ _ _ E).
  - exfalso. apply andb_true_iff in Hc as [Hall _]. rewrite Hps in Hall.
    apply forallb_fixed_no_tail in Hall. congruence.
Qed.


(* ------------------------------------------------------------------------ *)
(* one section: encode then decode                                           *)
(* ------------------------------------------------------------------------ *)
(* a decoded value is the encoded one; a to-the-end-of-section bit string comes
   back with the section's zero fill appended *)
Definition value_matches (ve vd : pvalue) : Prop :=
  vd = ve \/ exists b k, ve = PBin b /\ vd = PBin (b ++ zeros k).

Definition sec_matches (se sd : section) : Prop :=
  sec_index sd = sec_index se /\ sec_params sd = sec_params se /\ sec_nbits sd = sec_nbits se /\
  Forall2 (fun x y => fst y = fst x /\ value_matches (snd x) (snd y)) (sec_values se) (sec_values sd).

(* hypotheses on an encoded section, phrased on the section itself *)
Definition desc_fill_ok (s : section) : Prop :=
  forall fx t vfx ids, sec_params s = fx ++ [t] -> p_type t = TDescs ->
    map snd (sec_values s) = vfx ++ [PDescs ids] ->
    (Z.of_nat (sec_nbits s) < sum_nbits fx + 16 * Z.of_nat (length ids) + 16)%Z.

Definition data_ok_sec (props_d : list (pname * pvalue)) (s : section) : Prop :=
  forall fx t vfx b, sec_params s = fx ++ [t] -> p_type t = TData ->
    map snd (sec_values s) = vfx ++ [PData b] ->
    forall rest, decode_data (add_props fx vfx props_d) (b ++ rest) = Ok (b, rest).

Lemma map_snd_combine {A B} (a : list A) : forall (b : list B), length a = length b -> map snd (combine a b) = b.
Proof.
  induction a as [|x a IH]; intros b Hl; destruct b as [|y b]; try discriminate; [reflexivity|].
  cbn [combine map snd]. f_equal. apply IH. cbn in Hl. lia.
Qed.

Lemma pad_bits_mod16 e n : (0 <= n)%Z -> (n mod 16 = 0)%Z -> pad_bits e n = 0%Z.
Proof.
  intros Hn Hm. pose proof (pad_spec e n Hn) as [H0 H]. cbv zeta in H.
  assert (Hmin := pad_bits_minimal e n 0 Hn ltac:(lia)).
  destruct (e <=? 3)%Z; [apply Z.le_antisymm; [apply Hmin; rewrite Z.add_0_r; exact Hm|exact H0]|].
  apply Z.le_antisymm; [apply Hmin; rewrite Z.add_0_r; lia|exact H0].
Qed.

Lemma add_props_tail_decoded fx vfx t tv fill pr :
  length fx = length vfx -> tail_param_ok fx t = true -> tail_fit t tv = true ->
  add_props (fx ++ [t]) (vfx ++ [tail_decoded tv fill]) pr = add_props (fx ++ [t]) (vfx ++ [tv]) pr.
Proof.
  intros Hl Hp Hf. rewrite !add_props_app by exact Hl. cbn [add_props]. unfold add_prop.
  unfold tail_fit in Hf. unfold tail_param_ok in Hp. apply andb_true_iff in Hp as [_ Hp].
  destruct (p_type t); try discriminate; destruct tv; try discriminate; try reflexivity.
  cbn [tail_decoded]. apply negb_true_iff in Hp. rewrite Hp. reflexivity.
Qed.

Lemma section_roundtrip ign c vs props_e o o' props_e' sec :
  config_rt_ok c = true -> length (s_params c) = length vs ->
  encode_section ign c vs props_e o = Ok (o', props_e', sec) ->
  fits_layout [] (sec_params sec) (map snd (sec_values sec)) = true ->
  desc_fill_ok sec ->
  exists e, o' = o ++ e /\ props_e' = add_props (s_params c) vs props_e /\
    length e = sec_nbits sec /\
    (forall pr, add_props (sec_params sec) (map snd (sec_values sec)) pr = add_props (s_params c) vs pr) /\
    forall props_d t, data_ok_sec props_d sec ->
      exists sec_d, decode_section decode_data c props_d (e ++ t) =
                      Ok (sec_d, add_props (s_params c) vs props_d, t) /\
                    sec_matches sec sec_d.
Proof.
  intros Hc Hlen Henc Hfit Hdf.
  pose proof Hc as Hc'. unfold config_rt_ok in Hc'. apply andb_true_iff in Hc' as [Hfirst Hc2].
  assert (Hnp : forall pl, find_param Nsection_length (s_params c) = Some pl -> p_prop pl = false).
  { intros pl E. rewrite E in Hc2. apply negb_true_iff in Hc2. exact Hc2. }
  destruct (encode_section_canonical _ _ _ _ _ _ _ _ Hfirst Hlen Hnp Henc)
    as (vs' & body' & fill & Hvals & Hlen' & -> & Hbody & Hn & Hidx & Hpar & Hprops & Hap & Hsl & Hnolen).
  assert (Hvs' : map snd (sec_values sec) = vs').
  { rewrite Hvals. apply map_snd_combine. rewrite map_length. congruence. }
  rewrite Hpar, Hvs' in Hfit.
  (* fill = 0 for a section without a length field *)
  assert (Hfill0 : has_param Nsection_length (s_params c) = false -> fill = 0%nat).
  { intros Hno. destruct (Hnolen Hno) as (ed & _ & Hfill).
    assert (E : find_param Nsection_length (s_params c) = None) by (apply find_param_has, Hno).
    rewrite E in Hc2. apply andb_true_iff in Hc2 as [Hall H16]. apply Z.eqb_eq in H16.
    destruct (fits_layout_parts _ _ _ Hfit) as (fx & vfx & tail & Hps & Hvs & Hff & Ht).
    destruct tail as [[t tv]|].
    - exfalso. destruct Ht as (_ & _ & Hnf). rewrite Hps in Hall. apply forallb_fixed_no_tail in Hall. congruence.
    - rewrite app_nil_r in Hps, Hvs. subst fx vfx.
      destruct (fixed_params_roundtrip _ _ Hff) as (efx & Hwfx & Lfx & _).
      destruct (Hbody []) as (pr & Hb). rewrite Hwfx in Hb. cbn [app] in Hb. injection Hb as Hb _. subst body'.
      rewrite pad_bits_mod16 in Hfill by lia. lia. }
  destruct (make_canon c vs' fill Hc Hfit Hfill0) as (fx & tail & vfx & K).
  pose proof (cn_ps _ _ _ _ _ _ K) as Hps. pose proof (cn_vs _ _ _ _ _ _ K) as Hvs.
  pose proof (cn_fit _ _ _ _ _ _ K) as Hff. pose proof (cn_tail_ok _ _ _ _ _ _ K) as Htok.
  pose proof (fits_fixed_length _ _ Hff) as Hlfx.
  exists (body' ++ zeros fill). split; [reflexivity|]. split; [exact Hprops|].
  split; [rewrite app_length, length_zeros; lia|].
  split; [intros pr0; rewrite Hpar, Hvs'; apply Hap|].
  intros props_d t Hdata.
  (* descriptors: fewer than 16 fill bits *)
  assert (Hdesc : match tail with Some (t0, _) => p_type t0 = TDescs -> (fill < 16)%nat | None => True end).
  { destruct tail as [[t0 tv]|]; [|exact I]. intros Ety. destruct Htok as (Htp & Htf & _).
    unfold tail_fit in Htf. rewrite Ety in Htf. destruct tv; try discriminate.
    specialize (Hdf fx t0 vfx ids). rewrite Hpar, Hvs' in Hdf. specialize (Hdf Hps Ety Hvs).
    destruct (fixed_params_roundtrip _ _ Hff) as (efx & Hwfx & Lfx & _).
    destruct (read_descs_roundtrip ids Htf) as (ed & Hwd & Ld & _).
    destruct (Hbody []) as (pr & Hb). rewrite Hps, Hvs in Hb.
    rewrite write_params_split in Hb by exact Hlfx. rewrite Hwfx in Hb. cbn [bind app write_params] in Hb.
    unfold write_param in Hb. rewrite Ety in Hb. rewrite Hwd in Hb. cbn [bind] in Hb. injection Hb as Hb _. subst body'.
    rewrite Hn, app_length, Ld in Hdf. lia. }
  assert (Hdat : match tail with
                 | Some (tp, PData b) => forall rest, decode_data (add_props fx vfx props_d) (b ++ rest) = Ok (b, rest)
                 | _ => True end).
  { destruct tail as [[t0 tv]|]; [|exact I]. destruct tv; try exact I.
    destruct Htok as (Htp & Htf & _). unfold tail_fit in Htf.
    assert (Ety : p_type t0 = TData) by (destruct (p_type t0); try discriminate; reflexivity).
    apply (Hdata fx t0 vfx b); [rewrite Hpar; exact Hps|exact Ety|rewrite Hvs'; exact Hvs]. }
  pose proof (decode_canonical c vs' fill fx tail vfx K body' Hbody Hsl Hdesc props_d t Hdat) as Hdec.
  cbv zeta in Hdec. rewrite <- app_assoc. rewrite Hdec. eexists. split.
  - f_equal. f_equal. f_equal. rewrite <- (Hap props_d).
    destruct tail as [[t0 tv]|].
    + destruct Htok as (Htp & Htf & _). rewrite Hps, Hvs. apply add_props_tail_decoded; assumption.
    + rewrite Hvs. reflexivity.
  - unfold sec_matches. cbn [sec_index sec_params sec_nbits sec_values].
    split; [symmetry; exact Hidx|]. split; [symmetry; exact Hpar|]. split; [symmetry; exact Hn|].
    rewrite Hvals, Hps, Hvs, map_app.
    assert (Hlm : length (map p_name fx) = length vfx) by (rewrite map_length; exact Hlfx).
    rewrite !combine_app_eq by exact Hlm.
    apply Forall2_app.
    + clear. induction (combine (map p_name fx) vfx) as [|x l IH]; constructor; [|exact IH].
      split; [reflexivity|left; reflexivity].
    + destruct tail as [[t0 tv]|]; [|constructor]. cbn [map combine]. constructor; [|constructor].
      cbn [fst snd]. split; [reflexivity|]. destruct tv; try (left; reflexivity).
      right. exists b, fill. split; reflexivity.
Qed.


(* ------------------------------------------------------------------------ *)
(* the section loops, coupled                                                *)
(* ------------------------------------------------------------------------ *)
(* the encoder's and the decoder's message attributes agree except for the total
   length (declared vs. back-patched) *)
Definition props_rel (e d : list (pname * pvalue)) : Prop :=
  forall n, n <> Nlength -> prop_get n e = prop_get n d.

Lemma props_rel_add_props ps : forall vs e d, props_rel e d -> props_rel (add_props ps vs e) (add_props ps vs d).
Proof.
  induction ps as [|p ps IH]; intros vs e d H; destruct vs as [|v vs]; try exact H.
  cbn [add_props]. apply IH. unfold add_prop. destruct (p_prop p); [|exact H].
  intros n Hn. cbn [prop_get]. destruct (pname_beq (p_name p) n); [reflexivity|apply H, Hn].
Qed.

Lemma configure_rel e d i : props_rel e d ->
  configure_section definitions e i false false = configure_section definitions d i false false.
Proof.
  intros H. unfold configure_section, get_configuration, section_edition, section_present.
  rewrite (H Nedition) by discriminate. rewrite (H Nis_section2_presents) by discriminate. reflexivity.
Qed.

Fixpoint props_after (new : list section) (props : list (pname * pvalue)) :=
  match new with
  | [] => props
  | s :: r => props_after r (add_props (sec_params s) (map snd (sec_values s)) props)
  end.

Fixpoint data_ok (props_d : list (pname * pvalue)) (new : list section) : Prop :=
  match new with
  | [] => True
  | s :: r => data_ok_sec props_d s /\ data_ok (add_props (sec_params s) (map snd (sec_values s)) props_d) r
  end.

Definition sec_fits (s : section) : Prop := fits_layout [] (sec_params s) (map snd (sec_values s)) = true.

Lemma definitions_rt c : In c definitions -> config_rt_ok c = true.
Proof. intros H. pose proof definitions_rt_ok as A. rewrite forallb_forall in A. apply A, H. Qed.

Lemma loop_roundtrip ign idxs : forall json props_e secs_e o o' props_e' secs_e',
  encode_sections ign definitions idxs json props_e secs_e o = Ok (o', props_e', secs_e') ->
  exists e new, o' = o ++ e /\ secs_e' = secs_e ++ new /\ length e = sections_nbits new /\
    (Forall sec_fits new -> Forall desc_fill_ok new ->
     forall props_d secs_d t, props_rel props_e props_d -> data_ok props_d new ->
       exists new_d,
         decode_sections decode_data definitions false false idxs props_d secs_d (e ++ t) =
           Ok (secs_d ++ new_d, props_after new props_d, t) /\
         Forall2 sec_matches new new_d).
Proof.
  induction idxs as [|i idxs IH]; intros json props_e secs_e o o' props_e' secs_e'; cbn [encode_sections].
  - destruct json; discriminate.
  - destruct json as [|vs json]; [discriminate|]. intros H.
    apply bind_ok in H as (oc & Hc & H). destruct oc as [c|].
    + destruct (configure_section_plain _ _ _ _ Hc) as [Hin Hidx].
      destruct (Nat.eqb_spec (length (s_params c)) (length vs)) as [Hlen|]; [|discriminate]. cbn [negb] in H.
      apply bind_ok in H as ([[o1 props1] sec] & Hs & H).
      pose proof (definitions_rt c Hin) as Hrt.
      destruct (s_end c) eqn:Hend.
      * injection H as <- <- <-.
        pose proof (encode_section_whole _ _ _ _ _ _ _ _ ltac:(unfold config_rt_ok in Hrt; apply andb_true_iff in Hrt as [A _]; exact A) Hs)
          as (e1 & Eo1 & Hn1 & _).
        exists e1, [sec]. split; [exact Eo1|]. split; [reflexivity|]. split; [cbn [sections_nbits]; lia|].
        intros Hfits Hdfs props_d secs_d t Hrel Hdat.
        inversion Hfits as [|? ? Hfit _]; subst. inversion Hdfs as [|? ? Hdf _]; subst. destruct Hdat as [Hd _].
        destruct (section_roundtrip ign c vs props_e o _ _ sec Hrt Hlen Hs Hfit Hdf) as (e & Eo & Hp & Le & Hap & Hdec).
        apply app_inv_head in Eo. subst e.
        destruct (Hdec props_d t Hd) as (sec_d & Hds & Hm).
        exists [sec_d]. cbn [decode_sections props_after]. rewrite <- (configure_rel _ _ _ Hrel), Hc. cbn [bind].
        rewrite Hds. cbn [bind]. rewrite Hend. rewrite Hap. split; [reflexivity|]. constructor; [exact Hm|constructor].
      * apply IH in H as (e2 & new & -> & -> & Hl2 & Hrest).
        pose proof (encode_section_whole _ _ _ _ _ _ _ _ ltac:(unfold config_rt_ok in Hrt; apply andb_true_iff in Hrt as [A _]; exact A) Hs)
          as (e1 & Eo1 & Hn1 & _). subst o1.
        exists (e1 ++ e2), (sec :: new). rewrite <- !app_assoc. split; [reflexivity|]. split; [reflexivity|].
        split; [cbn [sections_nbits]; rewrite app_length; lia|].
        intros Hfits Hdfs props_d secs_d t Hrel Hdat.
        inversion Hfits as [|? ? Hfit Hfits']; subst. inversion Hdfs as [|? ? Hdf Hdfs']; subst. destruct Hdat as [Hd Hdat'].
        destruct (section_roundtrip ign c vs props_e o _ _ sec Hrt Hlen Hs Hfit Hdf) as (e & Eo & Hp & Le & Hap & Hdec).
        apply app_inv_head in Eo. subst e.
        destruct (Hdec props_d (e2 ++ t) Hd) as (sec_d & Hds & Hm).
        rewrite Hap in Hdat'.
        destruct (Hrest Hfits' Hdfs' (add_props (s_params c) vs props_d) (secs_d ++ [sec_d]) t
                    ltac:(rewrite Hp; apply props_rel_add_props; exact Hrel) Hdat') as (new_d & Hdr & Hms).
        exists (sec_d :: new_d). cbn [decode_sections props_after]. rewrite <- (app_assoc e1 e2 t).
        rewrite <- (configure_rel _ _ _ Hrel), Hc. cbn [bind].
        rewrite Hds. cbn [bind]. rewrite Hend. rewrite Hap, Hdr, <- app_assoc. split; [reflexivity|].
        constructor; assumption.
    + apply IH in H as (e2 & new & -> & -> & Hl2 & Hrest). exists e2, new. split; [reflexivity|]. split; [reflexivity|].
      split; [exact Hl2|].
      intros Hfits Hdfs props_d secs_d t Hrel Hdat.
      destruct (Hrest Hfits Hdfs props_d secs_d t Hrel Hdat) as (new_d & Hdr & Hms).
      exists new_d. cbn [decode_sections]. rewrite <- (configure_rel _ _ _ Hrel), Hc. cbn [bind]. split; assumption.
Qed.


(* ------------------------------------------------------------------------ *)
(* whole messages                                                            *)
(* ------------------------------------------------------------------------ *)
Definition sec0_of (l : list byte) (x ed : Z) : section :=
  mkSec 0 (s_params section0) 64 [(Nstart_signature, PBytes l); (Nlength, PUint x); (Nedition, PUint ed)].
Definition bits0_of (l : list byte) (x ed : Z) : bits :=
  bits_of_bytes (pad_bytes l 4) ++ to_bits 24 (Z.to_N x) ++ to_bits 8 (Z.to_N ed).

Lemma encode_message_inv ign json m :
  encode_message ign json = Ok m ->
  exists l len ed json' e props secs_rest,
    let nbytes := (Z.of_nat (64 + length e) / 8)%Z in
    encode_sections ign definitions [1;2;3;4;5;6]%N json' [(Nedition, PUint ed); (Nlength, PUint len)]
        [sec0_of l len ed] (bits0_of l len ed)
      = Ok (bits0_of l len ed ++ e, props, [sec0_of l len ed] ++ secs_rest) /\
    (Z.of_nat (length e) mod 8 = 0)%Z /\ (0 <= nbytes < 2 ^ 24)%Z /\
    m_bytes m = to_bytes (bits0_of l nbytes ed ++ e) /\
    m_sections m = sec0_of l nbytes ed :: secs_rest.
Proof.
  unfold encode_message, encode_message_with. intros H.
  apply bind_ok in H as ([[o props] secs] & Hs & H).
  unfold section_indices in Hs. cbn [encode_sections] in Hs.
  destruct json as [|vs json']; [discriminate|].
  change (configure_section definitions [] 0 false false) with (@Ok (option sconfig) (Some section0)) in Hs.
  cbn [bind] in Hs.
  destruct (Nat.eqb_spec (length (s_params section0)) (length vs)) as [Hl3|]; [|discriminate]. cbn [negb] in Hs.
  apply bind_ok in Hs as ([[o1 props1] sec0] & H0 & Hs).
  apply encode_section0 in H0 as (l & len & ed & -> & -> & -> & -> & Hr); [|symmetry; exact Hl3].
  change (s_end section0) with false in Hs. cbv iota in Hs.
  change ([] ++ bits_of_bytes (pad_bytes l 4) ++ to_bits 24 (Z.to_N len) ++ to_bits 8 (Z.to_N ed))
    with (bits0_of l len ed) in Hs.
  change ([] ++ [mkSec 0 (s_params section0) 64 [(Nstart_signature, PBytes l); (Nlength, PUint len); (Nedition, PUint ed)]])
    with [sec0_of l len ed] in Hs.
  pose proof (encode_sections_ok ign definitions [1;2;3;4;5;6]%N definitions_sl_first _ _ _ _ _ _ _ Hs)
    as (e & new & -> & -> & Hl & Hm & Hall & Hprops & _).
  exists l, len, ed, json', e, props, new. cbv zeta. split; [exact Hs|]. split; [exact Hm|].
  assert (Hno : forall n, (forall c, In c definitions -> s_index c <> 0%N -> has_param n (s_params c) = false) ->
                          no_param_from definitions [1;2;3;4;5;6]%N n).
  { intros n Hn c Hc Hi. apply Hn; [exact Hc|]. intros E. rewrite E in Hi. cbn in Hi. intuition discriminate. }
  rewrite (Hprops Nlength (Hno _ definitions_length_owner)) in H. cbn [prop_get] in H.
  change (pname_beq Nedition Nlength) with false in H. change (pname_beq Nlength Nlength) with true in H.
  cbv iota in H.
  assert (Hown : find_owner Nlength 0 ([sec0_of l len ed] ++ new) None = Some (O, sec0_of l len ed)).
  { cbn [app find_owner sec0_of sec_params]. change (find_param Nlength (s_params section0)) with (Some (mkP Nlength 24 TUint None true)).
    cbn [p_prop]. apply find_owner_none. eapply Forall_impl; [|exact Hall].
    intros s (c & Hc & Hi & _ & Hp). rewrite Hp. apply find_param_has. apply definitions_length_owner; [exact Hc|].
    intros E. rewrite E in Hi. cbn in Hi. intuition discriminate. }
  assert (Lb0 : forall x, length (bits0_of l x ed) = 64%nat).
  { intros x. unfold bits0_of. rewrite !app_length, !length_to_bits, length_bits_of_bytes, length_pad_bytes. reflexivity. }
  assert (Lo : Z.of_nat (length (bits0_of l len ed ++ e)) = Z.of_nat (64 + length e))
    by (rewrite app_length, Lb0; reflexivity).
  rewrite Lo in H.
  set (nbytes := (Z.of_nat (64 + length e) / 8)%Z) in *.
  destruct ((len =? 0)%Z || ign) eqn:Eb.
  - rewrite Hown in H.
    change (param_offset Nlength (sec_params (sec0_of l len ed))) with (Some 32%Z) in H.
    change (find_param Nlength (sec_params (sec0_of l len ed))) with (Some (mkP Nlength 24 TUint None true)) in H.
    cbv iota in H. apply bind_ok in H as (o'' & Hset & H). apply ok_inj in H. subst m.
    cbn [m_bytes m_sections p_nbits] in Hset |- *.
    unfold set_uint in Hset. change (24 <=? 0)%Z with false in Hset.
    destruct (Z.ltb_spec nbytes 0); [discriminate|]. destruct (Z.leb_spec (2 ^ 24) nbytes); [discriminate|].
    apply ok_inj in Hset. subst o''. split; [lia|]. split.
    + f_equal. unfold bits0_of. change (0 + Z.to_nat 32)%nat with 32%nat. change (Z.to_nat 24) with 24%nat.
      assert (L32 : length (bits_of_bytes (pad_bytes l 4)) = 32%nat) by (rewrite length_bits_of_bytes, length_pad_bytes; reflexivity).
      rewrite <- !app_assoc. rewrite firstn_app_exact by exact L32. f_equal.
      rewrite (app_assoc (bits_of_bytes (pad_bytes l 4))).
      rewrite skipn_app_exact by (rewrite app_length, length_to_bits, L32; reflexivity). reflexivity.
    + cbn [app sec0_of]. rewrite replace_section_head by reflexivity. cbn [sec_index sec_params sec_nbits sec_values set_value].
      change (pname_beq Nstart_signature Nlength) with false. change (pname_beq Nlength Nlength) with true. reflexivity.
  - destruct (Z.eqb_spec len nbytes) as [->|]; [|discriminate]. cbn [negb] in H.
    apply ok_inj in H. subst m. cbn [m_bytes m_sections]. split; [exact Hr|]. split; reflexivity.
Qed.


Lemma decode_sections_cons1 defs info ign i idxs props secs r :
  decode_sections decode_data defs info ign (i :: idxs) props secs r =
  let* oc := configure_section defs props i info ign in
  match oc with
  | None => decode_sections decode_data defs info ign idxs props secs r
  | Some c =>
      let* (sec, props1, r1) := decode_section decode_data c props r in
      if s_end c then Ok (secs ++ [sec], props1, r1)
      else decode_sections decode_data defs info ign idxs props1 (secs ++ [sec]) r1
  end.
Proof. reflexivity. Qed.

Lemma starts_with_eq_len a : forall b, length a = length b -> starts_with a b = true -> a = b.
Proof.
  induction a as [|x a IH]; intros b Hl H; destruct b as [|y b]; try discriminate; [reflexivity|].
  cbn [starts_with] in H. apply andb_true_iff in H as [H1 H2]. apply N.eqb_eq in H1. subst y.
  f_equal. apply IH; [cbn in Hl; lia|exact H2].
Qed.

Lemma starts_with_prefix g x : starts_with g (g ++ x) = true.
Proof. induction g as [|a g IH]; [reflexivity|]. cbn [app starts_with]. rewrite N.eqb_refl, IH. reflexivity. Qed.

Lemma find_sig_starts g s : starts_with g s = true -> find_sig g s = Some 0%nat.
Proof. intros H. destruct s; cbn [find_sig]; rewrite H; reflexivity. Qed.

Lemma write_section0 l x ed : (0 <= x < 2 ^ 24)%Z -> (0 <= ed < 2 ^ 8)%Z ->
  forall o, exists pr,
    write_params (s_params section0) [PBytes l; PUint x; PUint ed] [] o = Ok (o ++ bits0_of l x ed, pr).
Proof.
  intros Hx He o. cbn [section0 s_params write_params]. unfold write_param. cbn [p_type p_nbits].
  unfold write_bytes. change (32 / 8 <? 0)%Z with false. cbv iota. cbn [bind].
  unfold write_uint. change (24 <=? 0)%Z with false. change (8 <=? 0)%Z with false. cbv iota.
  destruct (Z.ltb_spec x 0); [lia|]. destruct (Z.leb_spec (2 ^ 24) x); [lia|]. cbn [bind].
  destruct (Z.ltb_spec ed 0); [lia|]. destruct (Z.leb_spec (2 ^ 8) ed); [lia|]. cbn [bind].
  eexists. unfold bits0_of. rewrite <- !app_assoc. reflexivity.
Qed.

(* C04 frame_roundtrip: decoding an encoded message followed by any trailing
   bytes succeeds, reports exactly the message's bytes, and returns sections with
   the same indices, layouts, extents and parameter values — section lengths and
   the total length included (a to-the-end-of-section bit string comes back with
   the zero fill of its section appended).
   Hypotheses: the (final) values fit their fields and the signatures are the
   expected ones [sec_fits]; a section with descriptors carries fewer than two
   surplus octets [desc_fill_ok] (two ARE a descriptor by FM-94); the template
   decoder, given the attributes of sections 0-3, consumes exactly the data bits
   the encoder was given [data_ok]. *)
Theorem frame_roundtrip : forall ign json m trailing,
  encode_message ign json = Ok m ->
  Forall sec_fits (m_sections m) -> Forall desc_fill_ok (m_sections m) -> data_ok [] (m_sections m) ->
  exists m',
    decode_message decode_data (Some sig_BUFR) false false (m_bytes m ++ trailing) = Ok m' /\
    m_bytes m' = m_bytes m /\
    Forall2 sec_matches (m_sections m) (m_sections m') /\
    m_props m' = props_after (m_sections m) [].
Proof.
  intros ign json m trailing Henc Hfits Hdfs Hdat.
  pose proof (starts_BUFR_ends_7777 _ _ _ Henc) as (s0 & mid & s5 & l0 & l5 & Hsecs0 & Hl0 & _ & _ & _ & Hfirst4 & _).
  destruct (encode_message_inv _ _ _ Henc) as (l & len & ed & json' & e & props & secs_rest & Hinv). cbv zeta in Hinv.
  destruct Hinv as (Hs & Hm & Hr & Hb & Hsec).
  set (nbytes := (Z.of_nat (64 + length e) / 8)%Z) in *.
  rewrite Hsec in Hfits, Hdfs, Hdat, Hsecs0.
  inversion Hfits as [|? ? Hfit0 Hfits']; subst. inversion Hdfs as [|? ? _ Hdfs']; subst.
  destruct Hdat as [_ Hdat'].
  (* what "fits" says of section 0 *)
  unfold sec_fits in Hfit0. cbn [sec0_of sec_params sec_values map snd section0 s_params fits_layout] in Hfit0.
  change (fixed_param (mkP Nstart_signature 32 TBytes (Some [66; 85; 70; 82]%N) false)) with true in Hfit0.
  change (fixed_param (mkP Nlength 24 TUint None true)) with true in Hfit0.
  change (fixed_param (mkP Nedition 8 TUint None true)) with true in Hfit0. cbv iota in Hfit0.
  apply andb_true_iff in Hfit0 as [F1 Hfit0]. apply andb_true_iff in Hfit0 as [F2 Hfit0].
  apply andb_true_iff in Hfit0 as [F3 _].
  unfold fit_fixed in F1, F3. cbn [p_type p_nbits p_expected] in F1, F3.
  apply andb_true_iff in F1 as [F1 F1e]. apply andb_true_iff in F1 as [F1b F1l].
  assert (El : l = sig_BUFR).
  { unfold bytes_eqb in F1e. apply andb_true_iff in F1e as [A B]. apply Nat.eqb_eq in A.
    apply starts_with_eq_len; assumption. }
  assert (Hed : (0 <= ed < 2 ^ 8)%Z) by lia.
  (* the stream *)
  assert (Lb0 : length (bits0_of l nbytes ed) = 64%nat).
  { unfold bits0_of. rewrite !app_length, !length_to_bits, length_bits_of_bytes, length_pad_bytes. reflexivity. }
  set (B := bits0_of l nbytes ed ++ e) in *.
  assert (LB : length B = (8 * Z.to_nat nbytes)%nat) by (unfold B; rewrite app_length, Lb0; unfold nbytes; lia).
  rewrite (to_bytes_whole _ _ LB) in Hb.
  assert (Hbits : bits_of_bytes (m_bytes m ++ trailing) = B ++ bits_of_bytes trailing).
  { rewrite bits_of_bytes_app, Hb, (bits_of_bytes_of_bits _ _ LB). reflexivity. }
  assert (Hlenb : length (m_bytes m) = Z.to_nat nbytes) by (rewrite Hb; apply length_bytes_of_bits).
  (* the signature is found at position 0 *)
  assert (Hl0' : l0 = l).
  { injection Hsecs0 as <- _. cbn in Hl0. injection Hl0 as ->. reflexivity. }
  assert (Hfind : find_sig sig_BUFR (m_bytes m ++ trailing) = Some 0%nat).
  { apply find_sig_starts. rewrite <- (firstn_skipn 4 (m_bytes m)), Hfirst4 by congruence.
    rewrite <- app_assoc. apply starts_with_prefix. }
  unfold decode_message, decode_message_with. rewrite Hfind. cbn [bind skipn]. rewrite Hbits.
  (* section 0 *)
  unfold section_indices. rewrite decode_sections_cons1.
  change (configure_section definitions [] 0 false false) with (@Ok (option sconfig) (Some section0)). cbn [bind].
  assert (Hfit0' : fits_layout [] (s_params section0) [PBytes l; PUint nbytes; PUint ed] = true).
  { cbn [section0 s_params fits_layout].
    change (fixed_param (mkP Nstart_signature 32 TBytes (Some [66; 85; 70; 82]%N) false)) with true.
    change (fixed_param (mkP Nlength 24 TUint None true)) with true.
    change (fixed_param (mkP Nedition 8 TUint None true)) with true. cbv iota.
    unfold fit_fixed. cbn [p_type p_nbits p_expected]. rewrite F1b, F1l, F1e, F3. cbn [andb].
    rewrite !andb_true_r. lia. }
  destruct (make_canon section0 [PBytes l; PUint nbytes; PUint ed] 0 eq_refl Hfit0' (fun _ => eq_refl))
    as (fx & tail & vfx & K).
  assert (Htail : tail = None).
  { destruct tail as [[t tv]|]; [|reflexivity]. destruct (cn_tail_ok _ _ _ _ _ _ K) as (_ & _ & Hh). discriminate Hh. }
  subst tail.
  pose proof (decode_canonical section0 _ 0 fx None vfx K (bits0_of l nbytes ed)
                (write_section0 l nbytes ed Hr Hed) (fun Hh => ltac:(discriminate Hh)) I [] (e ++ bits_of_bytes trailing) I) as Hd0.
  cbv zeta in Hd0. cbn [zeros repeat app] in Hd0.
  pose proof (cn_vs _ _ _ _ _ _ K) as Hvs0. rewrite app_nil_r in Hvs0. rewrite app_nil_r in Hd0. subst vfx.
  unfold B. rewrite <- app_assoc. rewrite Hd0. cbn [bind]. change (s_end section0) with false. cbv iota.
  (* sections 1.. *)
  destruct (loop_roundtrip ign _ _ _ _ _ _ _ _ Hs) as (e' & new & Ee & Enew & _ & Hloop).
  apply app_inv_head in Ee. subst e'. apply app_inv_head in Enew. subst new.
  assert (Hrel : props_rel [(Nedition, PUint ed); (Nlength, PUint len)]
                           (add_props (s_params section0) [PBytes l; PUint nbytes; PUint ed] [])).
  { intros n Hn. cbn [section0 s_params add_props add_prop p_prop p_name prop_get].
    destruct (pname_beq Nedition n); [reflexivity|].
    destruct (pname_beq Nlength n) eqn:E; [|reflexivity]. apply internal_pname_dec_bl in E. congruence. }
  destruct (Hloop Hfits' Hdfs' _ ([] ++ [mkSec (s_index section0) (s_params section0) (length (bits0_of l nbytes ed) + 0)
               (combine (map p_name (s_params section0)) [PBytes l; PUint nbytes; PUint ed])]) (bits_of_bytes trailing) Hrel Hdat')
    as (new_d & Hdec & Hms).
  rewrite Hdec. cbn [bind]. eexists. split; [reflexivity|]. cbn [m_bytes m_sections m_props].
  split.
  { rewrite !app_length.
    replace (length (bits0_of l nbytes ed) + (length e + length (bits_of_bytes trailing)) - length (bits_of_bytes trailing))%nat
      with (length B) by (unfold B; rewrite app_length; lia).
    rewrite LB. replace (8 * Z.to_nat nbytes / 8)%nat with (Z.to_nat nbytes) by lia.
    rewrite <- Hlenb. rewrite firstn_app_exact by reflexivity. reflexivity. }
  split.
  { rewrite Hsec. cbn [app]. constructor; [|exact Hms].
    unfold sec_matches, sec0_of. cbn [sec_index sec_params sec_nbits sec_values]. rewrite Lb0.
    repeat split. cbn [map combine section0 s_params p_name].
    repeat constructor. }
  rewrite Hsec. reflexivity.
Qed.


End Roundtrip.

(* ------------------------------------------------------------------------ *)
(* computable forms of the hypotheses, and a concrete instance              *)
(* ------------------------------------------------------------------------ *)
Definition desc_fill_okb (s : section) : bool :=
  match rev (sec_params s), rev (map snd (sec_values s)) with
  | t :: rfx, PDescs ids :: _ =>
      match p_type t with
      | TDescs => (Z.of_nat (sec_nbits s) <? sum_nbits (rev rfx) + 16 * Z.of_nat (length ids) + 16)%Z
      | _ => true
      end
  | _, _ => true
  end.

Lemma desc_fill_okb_sound s : desc_fill_okb s = true -> desc_fill_ok s.
Proof.
  unfold desc_fill_okb, desc_fill_ok. intros H fx t vfx ids Hp Ht Hv.
  rewrite Hp, Hv, !rev_app_distr in H. cbn [rev app] in H. rewrite Ht, rev_involutive in H. lia.
Qed.

(* the data hypothesis for a template decoder that takes a fixed number of bits *)
Lemma data_ok_sec_take n props s :
  (forall vfx b, map snd (sec_values s) = vfx ++ [PData b] -> length b = n) ->
  data_ok_sec (fun _ r => take_bits n r) props s.
Proof.
  intros H fx t vfx b _ _ Hv rest. rewrite <- (H _ _ Hv). apply take_bits_app.
Qed.

Example frame_roundtrip_nonvacuous :
  let json := [[PBytes sig_BUFR; PUint 0; PUint 3];
               [PUint 0; PUint 0; PUint 7; PUint 98; PUint 0; PBool true; PBin (zeros 7); PUint 2; PUint 0;
                PUint 33; PUint 0; PUint 24; PUint 5; PUint 17; PUint 12; PUint 30; PUint 0];
               [PUint 0; PBin (zeros 8); PBin [true; false; true; true; false]];
               [PUint 0; PBin (zeros 8); PUint 1; PBool true; PBool false; PBin (zeros 6); PDescs [31031; 31031; 31031]];
               [PUint 0; PBin (zeros 8); PData [true; false; true]];
               [PBytes sig_7777]]%Z in
  exists m, encode_message true json = Ok m /\
    forallb (fun s => fits_layout [] (sec_params s) (map snd (sec_values s))) (m_sections m) = true /\
    forallb desc_fill_okb (m_sections m) = true /\
    (let dd := fun (_ : list (pname * pvalue)) r => take_bits 3 r in
     match decode_message dd (Some sig_BUFR) false false (m_bytes m ++ [1; 2; 3]%N) with
     | Ok m' => bytes_eqb (m_bytes m') (m_bytes m) &&
                (length (m_sections m') =? 6)%nat
     | Err _ => false
     end = true).
Proof. cbv zeta. eexists. split; [vm_compute; reflexivity|]. repeat split; vm_compute; reflexivity. Qed.
