"""./check <id> quick|thorough [--replay <file>]

Exit 0: the property held on everything explored.  Exit 1: a line
``VIOLATION property=<id> replay=<path>`` was printed.
"""
import importlib
import json
import os
import sys
import time
import traceback

sys.path.insert(0, os.path.dirname(os.path.abspath(__file__)))
import lib  # noqa: E402


def main(argv):
    if len(argv) < 2:
        print(__doc__)
        return 2
    prop_id = argv[1]
    tier = 'quick'
    replay = None
    args = argv[2:]
    i = 0
    while i < len(args):
        if args[i] in ('quick', 'thorough'):
            tier = args[i]
        elif args[i] == '--replay':
            replay = args[i + 1]
            i += 1
        i += 1
    tier = os.environ.get('VERIF_TIER', tier) if tier == 'quick' and os.environ.get('VERIF_TIER') in ('quick', 'thorough') and len(argv) < 3 else tier
    seed = int(os.environ.get('VERIF_SEED', lib.DEFAULT_SEED))
    # the implementation is imported from the working tree of /repo
    sys.path.insert(0, lib.REPO)
    os.environ.setdefault('PYTHONHASHSEED', '0')

    ctx = lib.Ctx(prop_id, tier, seed)
    mod = importlib.import_module('props.' + prop_id)

    if replay:
        rec = json.load(open(replay))
        ok, out = lib.ensure_built()
        if not ok:
            print('build failed:\n' + out[-2000:])
            return 1
        r = mod.replay(ctx, rec)
        print(json.dumps(r, indent=1, default=str))
        return 1 if ctx.violations else 0

    # 1. proof obligations
    proof = lib.coq_check(prop_id)
    if not os.path.exists(lib.MODEL_BIN):
        print('model driver missing: setup failed')
    # 2. correspondence (also the search for a failing input when a proof broke)
    try:
        mod.run(ctx)
    except Exception as e:   # a harness crash is never a pass
        tb = traceback.format_exc()
        ctx.violation({'kind': 'harness-exception', 'error': repr(e), 'traceback': tb[-3000:],
                       'no_failing_input': True,
                       'broken': 'the correspondence run for %s could not complete' % prop_id},
                      'harness exception: %r' % e)
    # 3. a broken proof obligation is a violation even when no input was found
    if not proof['ok']:
        concrete = [v for v in ctx.violations if not v.get('no_failing_input')]
        rec = {'kind': 'proof-obligation', 'failed': proof['failed'],
               'theorems': proof['theorems'], 'discharged': proof['discharged'],
               'obligations': proof['obligations'], 'log_tail': proof.get('log_tail', '')[-1500:],
               'broken': 'theorems of coq/properties/%s.v no longer check' % prop_id}
        if not concrete:
            rec['no_failing_input'] = True
        ctx.violation(rec, '; '.join(proof['failed'])[:300])
    path = lib.write_evidence(ctx, proof, level=getattr(mod, 'LEVEL', 'proof'))
    print('%s %s: proof %d/%d, %d cases (%d distinct non-trivial), %d violation(s), known findings %s, %.1f s -> %s' % (
        prop_id, tier, proof['discharged'], proof['obligations'], ctx.evaluations,
        len(ctx.nontrivial), len(ctx.violations), ctx.known_hits or '{}', time.time() - ctx.t0,
        os.path.relpath(path, lib.VERIF)))
    return 1 if ctx.violations else 0


if __name__ == '__main__':
    sys.exit(main(sys.argv))
