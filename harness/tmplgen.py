"""harness/tmplgen.py — structured template generator over the real Table B/D.

Templates are drawn from a grammar: plain elements (numeric by width/scale/
reference sign, code/flag, character, class 31), Table D sequences, nested fixed
and delayed replication, operator constructs (201/202/207/208 open..close,
203YYY..203255..203000, 204YYY 031021 .. 204000, 205YYY, 206YYY + local element,
221YYY) and bitmap constructs (222000/223000/224000/225000/232000, optional
236000, bitmap by fixed or delayed replication of 031031, class-33 / marker
runs, 237000 reuse, 237255, 235000).  Together with the template the generator
returns the values that class-31 fields must take (bitmap bits, bitmap lengths)
so that the value generator (Gen.v) produces structure-consistent data.
"""
from __future__ import annotations

import json
import os
from collections import Counter

import lib

_POOLS = {}


class Pools:
    def __init__(self, version=33):
        d = os.path.join(lib.REPO, 'pybufrkit', 'tables', '0', '0_0', str(version))
        b = json.load(open(os.path.join(d, 'TableB.json')))
        dd = json.load(open(os.path.join(d, 'TableD.json')))
        self.version = version
        self.b = {int(k): v for k, v in b.items()}
        self.numeric, self.codeflag, self.string, self.c33 = [], [], [], []
        for id_, (name, unit, scale, ref, nbits) in ((k, v[:5]) for k, v in self.b.items()):
            X = id_ // 1000
            if X == 31 or X == 0:
                continue
            if X == 33:
                self.c33.append(id_)
            elif unit == 'CCITT IA5':
                if nbits <= 256:
                    self.string.append(id_)
            elif unit in ('CODE TABLE', 'FLAG TABLE'):
                self.codeflag.append(id_)
            else:
                self.numeric.append(id_)
        for l in (self.numeric, self.codeflag, self.string, self.c33):
            l.sort()
        self.neg_ref = [i for i in self.numeric if self.b[i][3] < 0]
        self.neg_scale = [i for i in self.numeric if self.b[i][2] < 0]
        self.narrow = [i for i in self.numeric if self.b[i][4] <= 4]
        self.wide = [i for i in self.numeric if self.b[i][4] >= 24]
        self.lowclass = [i for i in self.numeric + self.codeflag if 1 <= i // 1000 <= 9]
        # small sequences (flat expansion computed by a direct walk of the table file)
        self.d = {int(k): [int(x) for x in v[1]] for k, v in dd.items()}
        self.seqs = []
        for k in sorted(self.d):
            n = self._flat_len(k, 0)
            if n is not None and n <= 14:
                self.seqs.append(k)

    def _flat_len(self, k, depth):
        if depth > 6 or k not in self.d:
            return None
        n = 0
        for m in self.d[k]:
            if m >= 300000:
                s = self._flat_len(m, depth + 1)
                if s is None:
                    return None
                n += s
            elif m >= 200000:
                if m // 1000 not in (201, 202, 204, 207, 208):
                    return None            # keep bitmap operators out of the sequence pool
                n += 1
            elif m >= 100000:
                if m % 1000 > 4:
                    return None
                n += 1
            else:
                if m not in self.b:
                    return None
                n += 1
        return n


def pools(version=33) -> Pools:
    if version not in _POOLS:
        _POOLS[version] = Pools(version)
    return _POOLS[version]


class TemplateGen:
    """One generated template: .ids, .forced (id -> list of raw values), .features."""

    def __init__(self, rng, version=33, max_depth=3, allow_bitmaps=True, allow_unclosed=False,
                 allow_delayed=True, size=8, allow_ops=True):
        self.rng = rng
        self.p = pools(version)
        self.max_depth = max_depth
        self.allow_bitmaps = allow_bitmaps
        self.allow_unclosed = allow_unclosed
        self.allow_delayed = allow_delayed
        self.allow_ops = allow_ops
        self.size = size
        self.features = Counter()
        self.forced = {}
        self.ids = []
        self.static_plain = 0          # plain elements emitted at top level so far (lower bound of back refs)
        self.bitmap_len = None         # length of the back references in force
        self.have_bitmap = False
        self._gen_top()

    # -- element choices ---------------------------------------------------
    def elem(self, for_refval=False):
        r, p = self.rng, self.p
        k = r.random()
        if for_refval:
            return r.choice(p.numeric + p.codeflag)
        if k < 0.45:
            pool = r.choice([p.numeric, p.numeric, p.neg_ref or p.numeric, p.neg_scale or p.numeric,
                             p.narrow or p.numeric, p.wide or p.numeric])
            self.features['elem-numeric'] += 1
            return r.choice(pool)
        if k < 0.7:
            self.features['elem-codeflag'] += 1
            return r.choice(p.codeflag)
        if k < 0.82:
            self.features['elem-string'] += 1
            return r.choice(p.string)
        if k < 0.9:
            self.features['elem-c33-plain'] += 1
            return r.choice(p.c33)
        self.features['elem-lowclass'] += 1
        return r.choice(p.lowclass)

    # -- blocks: flat id lists that are closed w.r.t. replication counting ---
    def block(self, depth, n_items):
        out = []
        for _ in range(n_items):
            out += self.item(depth)
        return out

    def item(self, depth):
        r = self.rng
        k = r.random()
        if depth < self.max_depth and k < 0.16:
            return self.replication(depth)
        if k < 0.24 and self.p.seqs:
            self.features['sequence'] += 1
            return [r.choice(self.p.seqs)]
        if self.allow_ops and k < 0.46:
            return self.operator_construct(depth)
        return [self.elem()]

    def replication(self, depth):
        r = self.rng
        body = self.block(depth + 1, r.choice([1, 1, 2, 3]))
        if len(body) > 40:
            body = [self.elem()]
        X = len(body)
        if self.allow_delayed and r.random() < 0.5:
            factor = r.choice([31000, 31001, 31001, 31002])
            self.features['delayed-replication'] += 1
            self.features['depth-%d' % (depth + 1)] += 1
            return [100000 + X * 1000, factor] + body
        self.features['fixed-replication'] += 1
        self.features['depth-%d' % (depth + 1)] += 1
        return [100000 + X * 1000 + r.choice([1, 1, 2, 3])] + body

    def operator_construct(self, depth):
        r, p = self.rng, self.p
        k = r.choice(['201', '202', '207', '208', '203', '204', '205', '206', '221', '201+202', '201wide'])
        self.features['op-' + k] += 1
        unclosed = self.allow_unclosed and r.random() < 0.3
        if unclosed:
            self.features['unclosed'] += 1
        self._op_nest = getattr(self, '_op_nest', 0)

        def inner(n):
            self._scope = getattr(self, '_scope', 0) + 1       # everything generated here is under this operator
            try:
                return inner_items(n)
            finally:
                self._scope -= 1

        def inner_items(n):
            out = []
            for _ in range(n):
                q = r.random()
                if q < 0.15 and self._op_nest < 2:
                    # operators nested inside operators (e.g. 203 definitions used under 207, 204 under 201)
                    self._op_nest += 1
                    self.features['op-nested'] += 1
                    out += self.operator_construct(depth)
                    self._op_nest -= 1
                elif q < 0.3 and depth < self.max_depth:
                    out += self.replication(depth)
                else:
                    out.append(self.elem())
            return out
        if k == '201wide' and (getattr(self, '_op_nest', 0) > 0 or getattr(self, '_scope', 0) > 0):
            k = '201'            # not under another modifier: the field must stay within 64 bits and scale 0
        if k == '201wide':
            # a scale-0 element widened beyond 53 bits: integers a double cannot hold
            zs = [i for i in p.numeric if p.b[i][2] == 0 and p.b[i][4] <= 40]
            e = r.choice(zs)
            w = r.choice([54, 55, 56, 60, 63, 64])
            return [201000 + 128 + (w - p.b[e][4]), e] + ([] if unclosed else [201000])
        if k == '201':
            y = r.choice([129, 130, 132, 136, 127, 126, 124, 140])
            return [201000 + y] + inner(r.choice([1, 2, 3])) + ([] if unclosed else [201000])
        if k == '202':
            y = r.choice([129, 130, 127, 126, 131, 125])
            return [202000 + y] + inner(r.choice([1, 2])) + ([] if unclosed else [202000])
        if k == '201+202':
            return ([201000 + r.choice([130, 126, 134]), 202000 + r.choice([129, 127])] + inner(r.choice([1, 2]))
                    + ([] if unclosed else [202000, 201000]))
        if k == '207':
            return [207000 + r.choice([1, 2, 3, 4])] + inner(r.choice([1, 2, 3])) + ([] if unclosed else [207000])
        if k == '208':
            return ([208000 + r.choice([1, 2, 4, 8, 24])] + [r.choice(p.string) for _ in range(r.choice([1, 2]))]
                    + [self.elem()] + ([] if unclosed else [208000]))
        if k == '203':
            n = r.choice([1, 2])
            es = [r.choice(p.numeric) for _ in range(n)]
            y = r.choice([8, 12, 16, 20, 24])
            uses = [r.choice(es + [self.elem()]) for _ in range(r.choice([1, 2, 3]))]
            if r.random() < 0.4:
                # the redefined elements used under a width/scale/reference modifier
                op = r.choice([(207000 + r.choice([1, 2, 3]), 207000), (201000 + r.choice([129, 132, 126]), 201000),
                               (202000 + r.choice([129, 130, 127]), 202000)])
                uses = [op[0]] + [r.choice(es) for _ in range(r.choice([1, 2]))] + [op[1]] + uses
                self.features['op-203-under-modifier'] += 1
            tail = [] if unclosed else [203000]
            defs = list(es)
            if r.random() < 0.3:
                # a code / flag table element (or a character element) inside the definition block: it too occupies YYY
                # bits there (sign and magnitude), whatever its unit, and is used as an ordinary element afterwards
                other = r.choice(p.codeflag + p.codeflag + p.string[:3])
                defs.insert(r.randrange(len(defs) + 1), other)
                uses = uses + [other]
                self.features['op-203-non-numeric-in-definition'] += 1
            if self.allow_delayed and r.random() < 0.25:
                # a delayed replication INSIDE the definition block: its factor is an ordinary count (not a new reference
                # value), the replicated elements are definitions once per repetition
                e3 = r.choice(p.numeric)
                defs += [101000, r.choice([31001, 31001, 31000]), e3]
                uses = uses + [e3]
                self.features['op-203-delayed-replication-in-definition'] += 1
            if r.random() < 0.3:
                tail = tail + [r.choice(es)]           # used again after cancellation
            if r.random() < 0.3:
                # a SECOND definition phase (another width, another element) before any cancellation: the values of the
                # first phase stay in force
                e2 = r.choice([x for x in p.numeric if x not in es] or p.numeric)
                y2 = r.choice([yy for yy in (8, 12, 16, 20, 24) if yy != y])
                uses = [203000 + y2, e2, 203255] + [r.choice(es), e2] + uses
                self.features['op-203-two-phases'] += 1
            return [203000 + y] + defs + [203255] + uses + tail
        if k == '204':
            y = r.choice([1, 2, 4, 6, 8])
            body = [31021] + inner(r.choice([1, 2, 3]))
            if r.random() < 0.25:   # nested associated fields
                body += [204000 + r.choice([2, 3]), 31021] + inner(1) + [204000]
                self.features['op-204-nested'] += 1
                if r.random() < 0.7:      # elements that carry only the OUTER field again, after the inner cancellation
                    body += inner(r.choice([1, 2]))
                    self.features['op-204-nested-then-outer'] += 1
            return [204000 + y] + body + ([] if unclosed else [204000])
        if k == '205':
            return [205000 + r.choice([1, 2, 5, 16])]
        if k == '206':
            local = r.choice([63255, 48255, 1192, 50001, 63001])   # not in any WMO table
            return [206000 + r.choice([1, 7, 8, 13, 24])] + [local]
        if k == '221':
            if r.random() < 0.5:
                n = r.choice([1, 2, 3])
                body = [r.choice([self.elem(), r.choice(p.lowclass or p.numeric)]) for _ in range(n)]
                return [221000 + n] + body
            # a NON-element descriptor inside the span (every descriptor visited counts, also a sequence, a replication, an
            # operator and the members below them); the count ends inside or right after it; present elements of a class
            # that is NOT kept under 221 follow
            hi = [i for i in p.numeric if i // 1000 >= 10 and i // 1000 != 31] or p.numeric
            kind = r.choice(['seq', 'rep', 'op'] + (['drep'] if self.allow_delayed else []))
            if kind == 'drep':
                struct, visited = [101000, 31001, r.choice(hi)], 3       # the factor is not a member: it does not count
            elif kind == 'seq':
                struct, visited = r.choice([([301011], 4), ([301012], 3), ([301021], 3), ([301023], 3), ([301013], 4)])
            elif kind == 'rep':
                struct, visited = [101002, r.choice(hi)], 3
            else:
                struct, visited = [201130, r.choice(hi), 201000], 3
            n = r.choice([1, 2, visited, visited, visited + 1])
            self.features['op-221-span-with-' + kind] += 1
            return [221000 + n] + struct + [r.choice(hi), r.choice(hi)]
        raise AssertionError(k)

    # -- bitmap constructs (top level only) ----------------------------------
    def bitmap_definition(self, n):
        """ids defining a bitmap of n bits + registers the bits; returns (ids, zero_count)."""
        r = self.rng
        pat = r.random()
        if pat < 0.15:
            bits = [0] * n
        elif pat < 0.25:
            bits = [1] * n
        elif pat < 0.4:
            bits = [1] * n
            bits[r.randrange(n)] = 0
        else:
            bits = [r.randrange(2) for _ in range(n)]
        self.forced.setdefault(31031, []).extend(bits)
        self.bitmap_segments = getattr(self, 'bitmap_segments', []) + [len(bits)]
        if r.random() < 0.3:
            self.forced.setdefault(31002, []).append(n)
            self.features['bitmap-delayed-def'] += 1
            ids = [101000, 31002, 31031]
        else:
            if n <= 999 and r.random() < 0.8:
                ids = [101000 + n, 31031]
            else:
                ids = [31031] * n
        return ids, bits.count(0)

    def bitmap_construct(self):
        r, p = self.rng, self.p
        out = []
        op = r.choice([222, 222, 223, 224, 225, 232])
        if self.bitmap_len is None:
            n = r.randint(1, min(self.static_plain, 8))
        else:
            n = self.bitmap_len
        self.features['bitmap-%d' % op] += 1
        self.features['bitmap-len-%d' % n] += 1
        out.append(op * 1000)
        mode = r.random()
        if self.have_bitmap and mode < 0.3:
            out.append(237000)
            zeros = self.last_zeros
            self.features['bitmap-237000'] += 1
        else:
            if mode < 0.6:
                out.append(236000)
                self.features['bitmap-236000'] += 1
            ids, zeros = self.bitmap_definition(n)
            out += ids
            self.have_bitmap = True
            self.last_zeros = zeros
            self.bitmap_len = n
        k = zeros if r.random() < 0.85 else max(zeros - 1, 0)
        if op == 222:
            out += [r.choice(p.c33) for _ in range(k)]
            if k == 0:
                out.append(self.elem())
        else:
            if op in (224, 225) and r.random() < 0.8:
                out.append(8023 if op == 224 else 8024)
            markers = [op * 1000 + 255] * k
            if k >= 2 and r.random() < 0.3:
                # the marker operator replicated instead of written k times (a one-statement loop body)
                markers = [101000 + k, op * 1000 + 255]
                self.features['marker-replicated'] += 1
                if self.allow_ops and r.random() < 0.6:
                    on = r.choice([201129, 201130, 202129, 207001, 208002])
                    markers = [on] + markers + [on // 1000 * 1000]
                    self.features['marker-under-%d' % (on // 1000)] += 1
            elif k >= 1 and self.allow_ops and r.random() < 0.4:
                # some of the markers while a width/scale/string-width modifier is in force, the rest after its cancellation
                j = r.randint(1, k - 1) if k >= 2 else 1     # a later marker follows the cancellation when there are two
                on = r.choice([201129, 201130, 201132, 202129, 202130, 207001, 207002, 208002, 208005])
                markers = [on] + markers[:j] + [on // 1000 * 1000] + markers[j:]
                self.features['marker-under-%d' % (on // 1000)] += 1
            out += markers
            if k == 0:
                out.append(self.elem())
        if r.random() < 0.2:
            out.append(237255)
            self.features['bitmap-237255'] += 1
        if r.random() < 0.2:
            out.append(235000)
            self.features['bitmap-235000'] += 1
            self.bitmap_len = None
            self.static_plain = 0
        return out

    def bitmap_in_replication(self):
        """a whole bitmap construct (elements, operator, definition, values, 235000) inside a fixed replication that
        runs 2-3 times: every repetition defines its bitmap anew"""
        r, p = self.rng, self.p
        m = r.randint(2, 3)
        els = [r.choice(p.numeric) for _ in range(m)]
        bits = [r.randrange(2) for _ in range(m)]
        if sum(bits) == m:
            bits[r.randrange(m)] = 0
        zeros = bits.count(0)
        op = r.choice([222, 223, 224])
        if op == 222:
            tail = [r.choice(p.c33) for _ in range(zeros)]
        else:
            tail = ([8023] if op == 224 else []) + [op * 1000 + 255] * zeros
        body = els + [op * 1000, 236000, 101000 + m, 31031] + tail + [235000]
        count = r.choice([2, 3])
        self.forced.setdefault(31031, []).extend(bits * count)
        self.bitmap_segments = getattr(self, 'bitmap_segments', []) + [m] * count
        self.features['bitmap-construct-inside-replication'] += 1
        return [100000 + len(body) * 1000 + count] + body

    def _gen_top(self):
        r = self.rng
        if self.allow_bitmaps and r.random() < 0.1:
            self.ids += self.bitmap_in_replication()
        n_items = r.randint(1, self.size)
        for _ in range(n_items):
            it = self.item(0)
            self.ids += it
            # plain elements at top level (not inside replication / after operators that hide them)
            if len(it) == 1 and it[0] < 100000:
                self.static_plain += 1
        if self.allow_bitmaps and self.static_plain >= 1 and r.random() < 0.6:
            for _ in range(r.choice([1, 1, 2, 3])):
                if self.bitmap_len is None and self.static_plain < 1:
                    # after 235000 new back references are needed
                    e = [self.elem() for _ in range(r.randint(1, 3))]
                    self.ids += e
                    self.static_plain += len(e)
                self.ids += self.bitmap_construct()
                if r.random() < 0.4:
                    self.ids.append(self.elem())

    def forced_str(self):
        if not self.forced:
            return '-'
        return ';'.join('%d=%s' % (k, '.'.join(str(x) for x in v)) for k, v in sorted(self.forced.items()))
