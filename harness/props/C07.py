"""C07 — bitmap-driven and associated attributes are linked to the element they qualify."""
import itertools

import lib
import bufrlib as B
import pipeline as P
import tmplgen
from props import C09

LEVEL = 'proof'

OPS = {222: None, 223: 223255, 224: 224255, 225: 225255, 232: 232255}


def bitmap_templates(ctx, max_n):
    """Base templates x bitmap lengths 1..N x ALL 0/1 patterns x operators x definition styles."""
    rng = ctx.rng
    p = tmplgen.pools(33)
    out = []
    for n in range(1, max_n + 1):
        pats = list(itertools.product([0, 1], repeat=n))
        if n > 5:
            pats = [pats[0], pats[-1]] + rng.sample(pats[1:-1], min(len(pats) - 2, ctx.n(10, 60)))
        for bits in pats:
            for op in rng.sample(sorted(OPS), ctx.n(3, 5)):
                n_before = rng.randint(n, n + 2)
                base = [rng.choice(p.numeric + p.codeflag) for _ in range(n_before)]
                style = rng.choice(['fixed', 'delayed', 'explicit'])
                ids = list(base)
                if rng.random() < 0.3:      # elements inside a replication before the operator still count
                    ids = [102002] + ids[:2] + ids[2:] if len(ids) >= 2 else ids
                ids.append(op * 1000)
                forced = {31031: list(bits)}
                if rng.random() < 0.5:
                    ids.append(236000)
                if style == 'fixed':
                    ids += [101000 + n, 31031]
                elif style == 'delayed':
                    ids += [101000, 31002, 31031]
                    forced[31002] = [n]
                else:
                    ids += [31031] * n
                zeros = bits.count(0)
                if op == 222:
                    ids += [rng.choice(p.c33) for _ in range(zeros)] or [rng.choice(p.numeric)]
                else:
                    if op in (224, 225):
                        ids.append(8023 if op == 224 else 8024)
                    ids += [OPS[op]] * zeros or [rng.choice(p.numeric)]
                # sometimes a second operator re-using or re-defining the bitmap
                q = rng.random()
                if q < 0.25 and zeros:
                    op2 = rng.choice([223, 232])
                    ids += [op2 * 1000, 237000] + [OPS[op2]] * zeros
                elif q < 0.4:
                    bits2 = [rng.randrange(2) for _ in range(n)]
                    op2 = rng.choice([223, 232, 222])
                    ids += [op2 * 1000, 101000 + n, 31031]
                    forced[31031] = list(bits) + bits2
                    z2 = bits2.count(0)
                    ids += ([rng.choice(p.c33) for _ in range(z2)] if op2 == 222 else [OPS[op2]] * z2) or [rng.choice(p.numeric)]
                elif q < 0.6:
                    # 235000, other elements, and a new bitmap (often of the SAME length) over those
                    m = rng.randint(n, n + 2)
                    n2 = n if rng.random() < 0.7 else rng.randint(1, m)
                    bits2 = [rng.randrange(2) for _ in range(n2)]
                    if n2 >= 2 and sum(bits2) == n2:
                        bits2[rng.randrange(n2)] = 0
                    op2 = rng.choice([223, 224, 225, 232, 222])
                    ids += [235000] + [rng.choice(p.numeric + p.codeflag) for _ in range(m)]
                    ids += [op2 * 1000] + ([236000] if rng.random() < 0.5 else []) + [101000 + n2, 31031]
                    forced[31031] = list(bits) + bits2
                    z2 = bits2.count(0)
                    if op2 in (224, 225):
                        ids.append(8023 if op2 == 224 else 8024)
                    ids += ([rng.choice(p.c33) for _ in range(z2)] if op2 == 222 else [OPS[op2]] * z2) or [rng.choice(p.numeric)]
                    feats_extra = {'after-235000': 1, 'after-235000-same-length': int(n2 == n)}
                fs = ';'.join('%d=%s' % (k, '.'.join(map(str, v))) for k, v in sorted(forced.items()))
                comp = rng.random() < 0.35
                out.append({'ids': ids, 'version': 33, 'edition': 4, 'nsub': rng.choice([1, 1, 2, 3]),
                            'compressed': comp, 'forced': fs, 'seed': rng.randrange(1, 2 ** 32), 'maxrep': 3,
                            'features': dict({'bitmap-len-%d' % n: 1, 'op-%d' % op: 1, 'def-' + style: 1},
                                             **(feats_extra if 0.4 <= q < 0.6 else {})), 'shared': comp,
                            'bits': list(bits), 'op': op, 'simple': q >= 0.6})
    return out


def expected_links(labels, values, ids=()):
    """Independent reading of the property for a message with bitmap operators: the
    k-th attribute value after a bitmap belongs to the k-th zero bit, bits matched
    to the N plain elements preceding the (first) operator.  Returns dict or None
    when the structure is not the simple one this oracle understands."""
    BOPS = (222000, 223000, 224000, 225000, 232000)
    # 235000 leaves no trace in the decoded labels: which bitmap operators follow one is read off the template
    # (bitmap constructs of the generated templates are at top level, so operator labels come in template order)
    resets, pending = [], False
    for x in ids:
        if x == 235000:
            pending = True
        elif x in BOPS:
            resets.append(pending)
            pending = False
    if 235000 in ids and sum(1 for l in labels if l in ('222000', '223000', '224000', '225000', '232000')) != len(resets):
        return None          # operators inside replications / sequences: outside this oracle
    if 'marker-under-204' in B.wiring_hazards(ids):
        return None          # D14/D16: a marker operator while 204YYY is in force (labels carry extra A-entries)
    plain = lambda l: len(l) == 6 and l.isdigit() and l[0] == '0'
    links = {}
    refs = None
    i = 0
    n = len(labels)
    n_op = 0
    while i < n:
        l = labels[i]
        if l in ('222000', '223000', '224000', '225000', '232000'):
            if 235000 in ids and resets[n_op]:
                refs = None          # back references cancelled: the N elements preceding THIS operator
            n_op += 1
            boundary = i
            j = i + 1
            if j < n and labels[j] == '236000':
                j += 1
            if j < n and labels[j] == '237000':
                j += 1
                bits_now = last_bits
            else:
                if j < n and labels[j] == '031002':
                    j += 1
                bits_now = []
                while j < n and labels[j] == '031031':
                    bits_now.append(values[j])
                    j += 1
                if refs is None:
                    cand = [k for k in range(boundary) if plain(labels[k])]
                    refs = cand[len(cand) - len(bits_now):] if bits_now else cand
                if len(refs) != len(bits_now):
                    return None
            last_bits = bits_now
            owners = [r for r, b in zip(refs, bits_now) if b == 0]
            if l == '222000':
                k = 0
                assoc = lambda x: x[0] == 'A'          # 204YYY in force: every value is preceded by its associated field
                jj = j + 1 if j < n and assoc(labels[j]) else j
                if jj < n and labels[jj][:3] != '033' and labels[jj] not in ('222000', '223000', '224000', '225000', '232000', '235000', '237255', '204000'):
                    return None      # other elements between the bitmap and the quality values: outside this oracle
                while j < n and k < len(owners):
                    if assoc(labels[j]):
                        j += 1
                        continue
                    if labels[j][:3] != '033':
                        break
                    links[j] = owners[k]
                    k += 1
                    j += 1
            else:
                k = 0
                if j < n and labels[j][:3] == '033':
                    return None      # a class-33 element directly under a 223/224/225/232 operator: outside this oracle
                while j < n and k < len(owners):
                    if labels[j] in ('008023', '008024'):
                        j += 1
                        continue
                    if labels[j][0] in 'TFDR':
                        links[j] = owners[k]
                        k += 1
                        j += 1
                    else:
                        break
            i = j
        else:
            i += 1
    return links


def run(ctx):
    ctx.rule = ('base templates x bitmap lengths 1..N x ALL 0/1 patterns (N <= 5; sampled above, N up to 8) x operators '
                '222/223/224/225/232 x definition by fixed / delayed replication / explicit 031031 x optional 236000, re-use '
                'by 237000 and redefinition x compressed / uncompressed x 1..3 subsets; compared: bitmap_links and labels of '
                'decoder (implementation vs extracted model), the attributes of the nested rendering (implementation vs '
                'Wire/Nested model), and an independent recomputation of the links from the decoded labels and bitmap bits '
                '(k-th value -> k-th zero bit among the N elements preceding the operator).')
    # regression witnesses first (D24: explicit 031031 directly after the operator)
    corpus = [{'ids': [22065, 25113, 232000, 31031, 21160, 232000, 101001, 31031, 232255], 'version': 33, 'edition': 4,
               'nsub': 1, 'compressed': False, 'forced': '31031=0.0', 'seed': 7, 'maxrep': 3,
               'features': {'corpus': 1}, 'shared': False}]
    cases = corpus + bitmap_templates(ctx, ctx.n(7, 8))
    # plus the general generator with bitmaps
    cases += P.build_cases(ctx, ctx.n(120, 3000), gen_kwargs=dict(size=5), nsub_choices=(1, 2), compressed=(False, True),
                           versions=(33,), editions=(4,))
    # associated fields, nested: an inner 204 span inside an outer one, elements after the inner cancellation (they
    # carry the OUTER field again), optionally followed by a bitmap over those elements
    rng = ctx.rng
    pl = tmplgen.pools(33)
    for k in range(ctx.n(20, 300)):
        el = lambda: rng.choice(pl.numeric + pl.codeflag)
        a, b2 = rng.choice([1, 2, 4, 8]), rng.choice([2, 3, 5])
        inner = [204000 + b2, 31021, el(), 204000]
        ids = [204000 + a, 31021, el()] + inner + [el(), el(), 204000]
        forced = '-'
        if k % 3 == 1:
            ids += [el(), 222000, 236000, 101002, 31031, 33007]
            forced = '31031=%d.%d' % tuple(rng.choice([(0, 1), (1, 0)]))
        elif k % 3 == 2:
            # 204YYY still in force while the quality values after 222000 are coded: each 033007 is preceded by its
            # own associated field, the link belongs to the 033007 value
            bits = rng.choice([(0, 0, 1), (0, 1, 0), (1, 0, 0), (0, 0, 0)])
            ids = [204000 + a, 31021, el(), el(), el(), 222000, 236000, 101003, 31031] + [33007] * bits.count(0) + [204000]
            forced = '31031=%d.%d.%d' % bits
        cases.append({'ids': ids, 'version': 33, 'edition': 4, 'nsub': rng.choice([1, 2]), 'compressed': rng.random() < 0.3,
                      'forced': forced, 'seed': rng.randrange(1, 2 ** 32), 'maxrep': 3,
                      'features': {'nested-204-then-outer': 1}, 'shared': False})
        cases[-1]['shared'] = cases[-1]['compressed']
    # the same flat descriptor list in every subset, but a DIFFERENT bitmap per subset (uncompressed): which element owns a
    # value is decided by the subset's own bitmap (links, marker widths, attributes)
    for k in range(ctx.n(20, 300)):
        n = rng.choice([2, 3, 4])
        els = rng.sample([1001, 1002, 12001, 10004, 11001, 2001, 4004, 5002, 7001, 13003], n)
        zeros = rng.randint(1, n - 1)
        op = rng.choice([222, 223, 224, 225, 232])
        sig = [8023] if op == 224 else [8024] if op == 225 else []
        tail = [33007] * zeros if op == 222 else sig + [op * 1000 + 255] * zeros
        ids = els + [op * 1000, 236000, 101000 + n, 31031] + tail
        nsub = rng.choice([2, 3])
        bits = [0] * zeros + [1] * (n - zeros)
        variants, seen = [], set()
        for j in range(nsub):
            b = bits[:]
            for _ in range(8):
                rng.shuffle(b)
                if tuple(b) not in seen:
                    break
            seen.add(tuple(b))
            variants.append('31031=' + '.'.join(map(str, b)))
        cases.append({'ids': ids, 'version': 33, 'edition': 4, 'nsub': nsub, 'compressed': False, 'forced': '||'.join(variants),
                      'seed': rng.randrange(1, 2 ** 32), 'maxrep': 3, 'features': {'same-labels-different-bitmaps': 1},
                      'shared': False})
    # uncompressed subsets whose layout BEFORE a marker operator differs (different delayed-replication counts) while the
    # bitmap designates the same positions: what a marker takes from its element is decided per subset
    for k in range(ctx.n(16, 200)):
        a, b2, c3 = rng.sample([12001, 10004, 11001, 7001, 1001, 20003, 13003], 3)
        op = rng.choice([223, 224, 225, 232])
        m = rng.choice([2, 3])
        sig = [8023] if op == 224 else [8024] if op == 225 else []
        ids = [a, 101000, 31001, b2, 101000, 31001, c3, op * 1000, 236000, 101000 + m, 31031] + sig + [op * 1000 + 255] * m
        if k % 3 == 0:
            ids += [(op if op != 232 else 224) * 1000 + (0), 237000] + ([8023] if op in (224, 232) else [8024] if op == 225 else []) + \
                   [(op if op != 232 else 224) * 1000 + 255] * m
        nsub = rng.choice([2, 3, 4])
        tot = rng.choice([2, 3])
        variants = []
        for j in range(nsub):
            n1 = (j + k) % (tot + 1)
            variants.append('31001=%d.%d;31031=%s' % (n1, tot - n1, '.'.join(['0'] * m)))
        cases.append({'ids': ids, 'version': 33, 'edition': 4, 'nsub': nsub, 'compressed': False, 'forced': '||'.join(variants),
                      'seed': rng.randrange(1, 2 ** 32), 'maxrep': 3, 'features': {'same-boundary-different-layout': 1},
                      'shared': False})
    # after 235000 a new bitmap LONGER than the elements coded since: it reaches back over the marker values (and the
    # significance / bitmap elements) of the earlier operator; marker values are not elements and are passed over
    for k in range(ctx.n(16, 200)):
        e = rng.sample([12001, 10004, 11001, 7001, 1001, 20003, 13003, 2001], 5)
        op = rng.choice([223, 224, 225, 232])
        n1 = rng.choice([2, 3])
        bits1 = [0] * n1 if k % 2 == 0 else [0] + [rng.randrange(2) for _ in range(n1 - 1)]
        sig = [8023] if op == 224 else [8024] if op == 225 else []
        m = rng.choice([0, 1, 2])
        n2 = m + rng.choice([1, 2, 3])
        bits2 = [rng.randrange(2) for _ in range(n2)]
        bits2[rng.randrange(n2)] = 0
        op2 = rng.choice([222, 222, 223, 232])
        tail2 = [33007] * bits2.count(0) if op2 == 222 else [op2 * 1000 + 255] * bits2.count(0)
        ids = e[:3] + [op * 1000, 236000, 101000 + n1, 31031] + sig + [op * 1000 + 255] * bits1.count(0) + [235000] + e[3:3 + m] + \
              [op2 * 1000] + ([236000] if k % 3 == 0 else []) + [101000 + n2, 31031] + tail2
        comp = rng.random() < 0.35
        cases.append({'ids': ids, 'version': 33, 'edition': 4, 'nsub': rng.choice([1, 2]), 'compressed': comp,
                      'forced': '31031=' + '.'.join(map(str, bits1 + bits2)), 'seed': rng.randrange(1, 2 ** 32), 'maxrep': 3,
                      'features': {'after-235000-bitmap-reaches-over-marker-values': 1}, 'shared': comp})
    P.attach_templates(cases)
    P.run_gen(cases)
    P.run_encode(cases)
    P.run_decode(cases)
    for c in cases:
        if not c.get('toks') or not c.get('gen', '').startswith('ok'):
            ctx.dist['generator-rejected'] += 1
            continue
        e = c.get('impl_enc')
        case = {'ids': c['ids'], 'seed': c['seed'], 'forced': c['forced'], 'nsub': c['nsub'], 'version': c['version'],
                'edition': c['edition'], 'compressed': c['compressed']}
        # the coder side of the property also covers encoding (marker values are CODED with the owner's width /
        # width+1 and reference -2^width): bits and refusals of the implementation's encoder vs the model's
        eeq, edetail = P.compare_encode(c)
        if not eeq:
            ctx.compare(case, 'impl-encode', 'model-encode', kind='C07-encode-mismatch',
                        holds=lambda e=e: bool(e) and e[0] == 'ok', extra={'detail': edetail})
        if not e or e[0] != 'ok':
            ctx.dist['encoder-refused'] += 1
            continue
        for f in c['features']:
            ctx.dist[f] += 1
        ctx.count((tuple(c['ids']), c['seed'], c['forced']), True)
        eq, detail = P.compare_decode(c)
        i = c.get('impl_dec')
        if not eq and not ('ulp=1' in detail and 'scale=-' in detail):
            def holds(c=c, i=i):
                if not i or i[0] != 'ok':
                    return False
                return all(expected_links(ls, vs, c['ids']) in (None, dict(lk)) for vs, ls, lk in zip(i[1], i[2], i[3]))
            ctx.compare(case, 'impl', 'model', kind='C07-links-mismatch', holds=holds, extra={'detail': detail})
            continue
        if i and i[0] == 'ok':
            for si, (vs, ls, lk) in enumerate(zip(i[1], i[2], i[3])):
                exp = expected_links(ls, vs, c['ids'])
                if exp is None:
                    ctx.dist['oracle-not-applicable'] += 1
                elif exp != dict(lk):
                    # D24: 031031 listed explicitly right after the operator (no 236000 / replication in between)
                    explicit = any(a in (222000, 223000, 224000, 225000, 232000) and b == 31031
                                   for a, b in zip(c['ids'], c['ids'][1:]))
                    ctx.violation({'kind': 'C07-kth-zero', 'case': case, 'subset': si, 'links': lk, 'expected': sorted(exp.items()),
                                   'explicit_031031_directly_after_operator': explicit},
                                  'links %r, expected %r for ids=%s' % (lk, sorted(exp.items()), c['ids']))
                else:
                    ctx.dist['oracle-agrees'] += 1
        # the hierarchical view (uncompressed: per subset; the model's wire)
        if not c['compressed']:
            C09.check_message(ctx, case, c['toks'], e[3], 'C07', converters=False)
        ctx.sample({'ids': c['ids'], 'forced': c['forced'], 'links': i[3][0] if i and i[0] == 'ok' else None}, limit=3)
    ctx.partial = ['wire_links_attributes (each linked value is an attribute of its owner in the hierarchical view) is checked '
                   'differentially against Wire.v/Nested.v; the Coq theorems here are about the coder\'s links']
    ctx.assumptions = ['templates where 204YYY is in force at a marker operator / at 008023 (D14, D16: wiring fails) are reported by C09 machinery']


def replay(ctx, rec):
    c = rec['case']
    cases = [{'ids': c['ids'], 'version': c.get('version', 33), 'edition': c.get('edition', 4), 'nsub': c['nsub'],
              'compressed': c.get('compressed', False), 'forced': c['forced'], 'seed': c['seed'], 'maxrep': 3,
              'features': {}, 'shared': c.get('compressed', False)}]
    P.attach_templates(cases); P.run_gen(cases); P.run_encode(cases); P.run_decode(cases)
    eq, detail = P.compare_decode(cases[0])
    if not eq:
        ctx.violation({'kind': 'C07-links-mismatch', 'case': c, 'detail': detail}, detail)
    return {'equal': eq, 'detail': detail}
