"""C04 — section framing and length accounting
(pybufrkit encoder.process/process_section, decoder.process/process_section,
bufr.SectionConfigurer, definitions/*.json  vs  coq/theories/Frame.v)."""
import glob
import json
import os

import lib
from props import frame_common as fc

LEVEL = 'proof'
CORPUS = os.path.join(lib.VERIF, 'corpus', 'C04')


# ---------------------------------------------------------------------------
# expectations derived from the property text (independent of the model)
# ---------------------------------------------------------------------------
def expected_encode(ed, nbits, sec2, ign, lens):
    """('ok', declared-dict) or ('err', 6)."""
    exact = fc.exact_lengths(ed, nbits, sec2)
    if ign:
        return 'ok', {}
    declared = {}
    for k in (1, 2, 3, 4):
        v = lens.get(k, 0)
        if k == 2 and sec2 is None:
            continue
        if v == 0:
            continue
        if v < exact[k]:
            return 'err', 6
        if v > exact[k]:
            declared[k] = v
    total = 8 + sum(declared.get(k, exact[k]) for k in exact if k != 0) + 4
    if lens.get(0, 0) not in (0, total):
        return 'err', 6
    return 'ok', declared


def holds_encode(case, io, obj):
    ed, nbits, sec2, ign, lens = case['ed'], len(case['bits']), case['sec2'], case['ign'], case['lens']
    lens = {int(k): v for k, v in lens.items()}
    want, declared = expected_encode(ed, nbits, sec2, ign, lens)
    if want == 'err':
        return io == 'err 6', 'declared length shorter / wrong total must be refused with PyBufrKitError'
    if obj is None:
        return False, 'encoding failed (%s) where the property requires success' % io
    b = obj.serialized_bytes
    ok, why = fc.frame_holds(b, ed, nbits, sec2, declared)
    if not ok:
        return False, why
    if obj.length.value != len(b):
        return False, 'msg.length.value %r != %d bytes produced' % (obj.length.value, len(b))
    f = fc.parse_frame(b)
    for s in obj.sections:
        k = s.get_metadata('index')
        if 'section_length' in s and s.section_length.value != f['sections'][k][1]:
            return False, 'section %d object length %r != stream %r' % (k, s.section_length.value, f['sections'][k][1])
    # data bits really are where the framing says (4-octet header of section 4)
    pos, n = f['sections'][4]
    got = ''.join('{:08b}'.format(x) for x in b[pos + 4:pos + n])[:nbits]
    if got != case['bits']:
        return False, 'data bits not at the start of section 4 content'
    return True, ''


def holds_decode(case, io, obj):
    """Decoder clauses on a message whose framing is known by construction."""
    want = case.get('want')
    if want is None:
        return True, ''
    if want.startswith('err'):
        return io == want, 'expected %s' % want
    if obj is None:
        return False, 'decoding failed (%s) where the property requires success' % io
    msg = bytes.fromhex(case['msg_hex'])
    if case.get('info'):
        if obj.serialized_bytes != msg[:len(msg) - 4]:
            return False, 'info-only bytes are not the span up to the end of section 4'
        return True, ''
    if obj.serialized_bytes != msg:
        return False, 'serialized_bytes is not the span BUFR..7777'
    f = fc.parse_frame(msg)
    for s in obj.sections:
        k = s.get_metadata('index')
        if 'section_length' in s and s.section_length.value != f['sections'][k][1]:
            return False, 'section %d length differs' % k
    return True, ''


# ---------------------------------------------------------------------------
def run_enc_cases(ctx, cases, tag):
    """cases: dicts with ed, bits, sec2, ign, lens (+ rngseed for the random
    section-1 fields). Returns the implementation's objects."""
    import random
    msgs = []
    for c in cases:
        rng = random.Random(c['vseed'])
        msgs.append(fc.build_json(c['ed'], c['bits'], c['sec2'], {int(k): v for k, v in c['lens'].items()},
                                  rng=rng, sig=c.get('sig', 'BUFR'), stop=c.get('stop', '7777')))
    lines = [fc.enc_line(c['ign'], m) for c, m in zip(cases, msgs)]
    mouts = lib.run_model_sharded(lines)
    objs = []
    for c, m, line, mo in zip(cases, msgs, lines, mouts):
        io, obj = fc.impl_encode(m, c['ign'])
        objs.append(obj)
        ctx.count(('enc', line), True)
        ctx.dist['enc:' + tag] += 1
        ctx.dist['enc-edition-%d' % c['ed']] += 1
        ctx.dist['enc-data-bits-mod16=%d' % (len(c['bits']) % 16)] += 1
        ctx.dist['enc-sec2-' + ('absent' if c['sec2'] is None else '%dbits' % len(c['sec2']))] += 1
        ctx.dist['enc-result-' + (io.split(' ')[0] + (io[3:] if io.startswith('err') else ''))] += 1
        rec = dict(c)
        rec['op'] = 'enc'
        h = holds_encode(c, io, obj)
        ctx.compare(rec, io, mo, kind='frame-encode', holds=lambda: h[0], extra={'why': h[1]})
        if io == mo and not h[0]:
            ctx.violation({'kind': 'frame-encode-predicate', 'case': rec, 'impl': io[:300], 'why': h[1]},
                          'framing predicate false: ' + h[1])
        ctx.sample({'case': {k: rec[k] for k in ('ed', 'bits', 'sec2', 'ign', 'lens')}, 'impl': io[:160], 'model': mo[:160]}, limit=4)
    return objs


def run_dec_cases(ctx, cases, tag):
    """cases: dicts with hex, sig, info, ignexp (+ want, msg_hex for the predicate)."""
    lines = [fc.dec_line(bytes.fromhex(c['hex']), c['sig'], c['info'], c['ignexp']) for c in cases]
    mouts = lib.run_model_sharded(lines)
    for c, line, mo in zip(cases, lines, mouts):
        io, obj = fc.impl_decode(bytes.fromhex(c['hex']), c['sig'], c['info'], c['ignexp'])
        ctx.count(('dec', line), True)
        ctx.dist['dec:' + tag] += 1
        ctx.dist['dec-result-' + (io.split(' ')[0] + (io[3:] if io.startswith('err') else ''))] += 1
        if c['info']:
            ctx.dist['dec-info-only'] += 1
        if c.get('edition_altered') and mo == 'err 2' and io in ('err 1', 'err 6', 'err 14'):
            # under another edition's layout the "section 2 present" flag is read from another octet; when it comes out
            # set, the descriptor list is read from the octets of the data section.  The framing model's template decoder
            # knows the 031031 templates of these messages only (anything else: unknown descriptor); the real one builds
            # a template from the garbage first (malformed replication: PyBufrKitError) or runs out of bits.  Both refuse
            # with a library error; which one is not a question about framing
            # (err 14: the garbage held an operator the library does not implement, e.g. 211160: NotImplementedError;
            # the library has no Table C, every 2XXYYY is an operator to it: an observation, not a question about framing)
            ctx.dist['edition altered: descriptor list read from data octets, both refuse (%s)' % ('library error' if io != 'err 14' else 'NotImplementedError for an operator the library does not implement')] += 1
            continue
        rec = dict(c)
        rec['op'] = 'dec'
        h = holds_decode(c, io, obj)
        extra = {'why': h[1]}
        if io == 'err 7':
            extra['exception'] = 'AssertionError'
        ctx.compare(rec, io, mo, kind='frame-decode', holds=lambda: h[0], extra=extra)
        if io == mo and not h[0]:
            ctx.violation({'kind': 'frame-decode-predicate', 'case': rec, 'impl': io[:300], 'why': h[1]},
                          'framing predicate false: ' + h[1])


def length_variants(rng, ed, nbits, sec2, count):
    """Declared-length variants for one base message: lens dict + label."""
    exact = fc.exact_lengths(ed, nbits, sec2)
    secs = [1, 3, 4] + ([2] if sec2 is not None else [])
    out = [({}, 'zero'), ({k: exact[k] for k in exact}, 'exact')]
    pool = []
    for k in secs:
        for d in ((1,) if k == 3 else (1, 2, 3)):
            lens = {k: exact[k] + d, 0: 0}
            pool.append((lens, 'plus'))
            lens2 = dict(lens)
            lens2[0] = exact[0] + d           # consistent declared total
            pool.append((lens2, 'plus-total'))
        for d in (1, 2, 3):
            if exact[k] - d > 0:
                pool.append(({k: exact[k] - d}, 'minus'))
    pool.append(({0: exact[0] + rng.choice([1, 2, 5])}, 'total-plus'))
    pool.append(({0: max(exact[0] - rng.choice([1, 2, 5]), 1)}, 'total-minus'))
    pool.append(({3: exact[3] + 2}, 'sec3-plus2'))
    rng.shuffle(pool)
    return out + pool[:count]


def sec2_options(thorough):
    opts = [None, '', '10110001', '1011000111110000', '101100011111000010101010']
    if thorough:
        opts += ['10110', '10110001111']
    return opts


def run(ctx):
    rng = ctx.rng
    ctx.rule = (
        'data tie: definitions/*.json exported from the repo and compared with the literal layouts of Frame.v. '
        'Encoder grid: data sections of 0..47 bits (template of N x 031031, random bit values; every length mod 16 three times) '
        'x editions {2,3,4} x section 2 {absent, 0..3 local octets (thorough also 5 and 11 local bits)} '
        'x Encoder(ignore_declared_length=True/False) x declared lengths {0, exact, +k in one of sections 1,2,4 (k=1..3) or +1 in section 3, '
        'with and without a consistent declared total, -k, total +-k, +2 in section 3}; random values in the other section-1 fields. '
        'Decoder: every encoded message and hand-packed messages with surplus octets (0..3 in sections 1,2,4; 0..2 in section 3) '
        'x trailing {none, noise, another message} x leading noise x info_only x ignore_value_expectation, and a malformed stream '
        '(damaged BUFR / 7777 / edition, declared lengths -k and +k patched in the bytes, truncation at every section boundary +-1). '
        'Compared with the extracted model: serialized_bytes, every parameter value of every section incl. all length fields, '
        'section extents (bitpos_start differences), exception class. The property\'s own predicate (independent framing parser: '
        'BUFR/7777, total = bytes produced, declared = real extent, even octets for edition <= 3, zero padding, < 16/8 pad bits, '
        'refusal of shorter declared lengths, serialized_bytes = span) is evaluated on every case. '
        'Non-trivial: every case (each is a full message); distinct = distinct command line.')
    thorough = not ctx.quick
    fc.check_layouts(ctx)

    # --- corpus first ---------------------------------------------------------
    for f in sorted(glob.glob(os.path.join(CORPUS, '*.json'))):
        rec = json.load(open(f))
        if rec.get('op') == 'enc':
            run_enc_cases(ctx, [rec], 'corpus')
        else:
            run_dec_cases(ctx, [rec], 'corpus')

    # --- encoder grid -----------------------------------------------------------
    cases = []
    for ed in (2, 3, 4):
        for sec2 in sec2_options(thorough):
            ns = list(range(48))
            if ctx.quick:
                # every residue mod 16 once per (edition, section 2), spread over the three repetitions
                ns = [r + 16 * rng.randrange(3) for r in range(16)]
            for n in ns:
                bits = ''.join(rng.choice('01') for _ in range(n))
                for ign in (True, False):
                    nvar = (3 if ign else 5) if thorough else (0 if ign else 2)
                    for lens, label in length_variants(rng, ed, n, sec2, nvar):
                        if ctx.quick and label == 'exact' and ign:
                            continue
                        cases.append({'ed': ed, 'bits': bits, 'sec2': sec2, 'ign': ign,
                                      'lens': {str(k): v for k, v in lens.items()},
                                      'variant': label, 'vseed': rng.randrange(1 << 30)})
    for c in cases:
        ctx.dist['enc-variant-' + c['variant'] + ('-ignored' if c['ign'] else '-honoured')] += 1
    objs = run_enc_cases(ctx, cases, 'grid')

    # --- decoder: encoded messages with trailing data ------------------------------
    dcases = []
    encoded = [(c, o.serialized_bytes) for c, o in zip(cases, objs) if o is not None]
    step = 1 if thorough else max(1, len(encoded) // 250)
    for i in range(0, len(encoded), step):
        c, b = encoded[i]
        trailing = rng.choice([b'', bytes(rng.randrange(256) for _ in range(rng.randrange(1, 9))),
                               encoded[rng.randrange(len(encoded))][1], b'7777', b'BUFR'])
        leading = rng.choice([b'', b'', b'\r\r\n', b'BUF', bytes(rng.randrange(65) for _ in range(rng.randrange(1, 5)))])
        # the FM-94 reading of two surplus octets in section 3: one more descriptor (000000)
        try:
            plus2 = fc.parse_frame(b)['sections'][3][1] - (7 + 2 * len(c['bits'])) >= 2
        except (ValueError, KeyError, IndexError):
            plus2 = False        # badly framed output of a (mutated) encoder: already reported above
        for info in ((False, True) if (thorough or i % 2 == 0) else (False,)):
            dcases.append({'hex': (leading + b + trailing).hex(), 'sig': True, 'info': info, 'ignexp': False,
                           'want': 'err 2' if (plus2 and not info) else 'ok', 'msg_hex': b.hex()})
    run_dec_cases(ctx, dcases, 'encoded+trailing')

    # --- decoder: hand-packed messages with surplus octets ---------------------------
    dcases = []
    nlist = list(range(48)) if thorough else [r + 16 * rng.randrange(3) for r in range(16)]
    for ed in (2, 3, 4):
        for n in nlist:
            bits = ''.join(rng.choice('01') for _ in range(n))
            for sec2o in (None, b'', b'\xa5', b'\xa5\x5a', b'\xa5\x5a\xff'):
                if ctx.quick and rng.random() < 0.5:
                    continue
                k = rng.choice([1, 2, 3, 4] if sec2o is not None else [1, 3, 4])
                sur = rng.randrange(0, 4) if k != 3 else rng.choice([0, 1, 1, 2])
                unit = 2 if ed <= 3 else 1
                if k != 3 and ed <= 3 and thorough is False:
                    sur = sur
                b = fc.craft(ed, bits, sec2o, {k: sur}, rng=rng)
                want = 'ok'
                # FM-94: the descriptor count comes from the section length, so two octets
                # beyond the descriptors (pad octet of editions <= 3 included) are a descriptor
                sec3_len = fc.parse_frame(b)['sections'][3][1]
                if sec3_len - (7 + 2 * n) >= 2:
                    want = 'err 2'
                trailing = rng.choice([b'', b'\x00', b'7777', b])
                dcases.append({'hex': (b + trailing).hex(), 'sig': True, 'info': False, 'ignexp': False,
                               'want': want, 'msg_hex': b.hex(), 'surplus': [k, sur]})
                ctx.dist['dec-surplus-sec%d-%d' % (k, sur)] += 1
                if rng.random() < 0.3:
                    dcases.append({'hex': (b + trailing).hex(), 'sig': False, 'info': True, 'ignexp': True,
                                   'want': 'ok', 'msg_hex': b.hex()})
    run_dec_cases(ctx, dcases, 'hand-packed-surplus')

    # --- malformed stream ----------------------------------------------------------
    dcases = []
    base = []
    for ed in (2, 3, 4):
        for sec2o in (None, b'\xa5\x5a'):
            for n in ((0, 5, 13, 16, 31) if thorough else (rng.randrange(48),)):
                bits = ''.join(rng.choice('01') for _ in range(n))
                base.append((ed, fc.craft(ed, bits, sec2o, {}, rng=rng)))
    for ed, b in base:
        f = fc.parse_frame(b)

        def add(bb, want=None, **kw):
            d = {'hex': bytes(bb).hex(), 'sig': kw.get('sig', True), 'info': kw.get('info', False),
                 'ignexp': kw.get('ignexp', False), 'want': want, 'msg_hex': b.hex()}
            dcases.append(d)
        # damaged stop signature: library error (D10 repaired), tolerated with ignore_value_expectation
        bad = bytearray(b)
        bad[-1] = 0x38
        add(bad, 'err 6')
        add(bad, None, ignexp=True)
        add(bad, 'ok', info=True)
        # damaged start signature: not found / library error when the search is off
        bad = bytearray(b)
        bad[1] = 0x55 ^ 0xff
        add(bad, 'err 6')
        add(bad, 'err 6', sig=False)
        add(bad, None, sig=False, ignexp=True)
        # declared lengths patched in the stream
        for k, (pos, n) in f['sections'].items():
            for d in (-3, -2, -1, 1, 2):
                if n + d < 0:
                    continue
                bad = bytearray(b)
                bad[pos:pos + 3] = (n + d).to_bytes(3, 'big')
                add(bad)
                add(bad, None, info=True)
                # with the expected values (7777) not enforced an undetected overrun would go through silently;
                # trailing bytes so that a misaligned section 5 still finds four octets
                add(bad, None, ignexp=True)
                add(bytes(bad) + b'7777\x00\x00', None, ignexp=True)
            # a section declared shorter than its content: overrun error
            content = {1: n, 2: 4, 3: 7, 4: 4}[k]
            if k in (1,):
                bad = bytearray(b)
                bad[pos:pos + 3] = (5).to_bytes(3, 'big')
                add(bad, 'err 6')
        # edition field altered
        for e2 in (0, 1, 2, 3, 4, 5):
            bad = bytearray(b)
            bad[7] = e2
            add(bad)
            dcases[-1]['edition_altered'] = True
        # truncation around every section boundary
        cuts = set()
        for k, (pos, n) in f['sections'].items():
            cuts.update([pos - 1, pos, pos + 1, pos + 3, pos + 4, pos + n - 1])
        cuts.update([0, 3, 4, 7, 8, len(b) - 4, len(b) - 1])
        for cpos in sorted(x for x in cuts if 0 <= x < len(b)):
            add(b[:cpos])
            if thorough:
                add(b[:cpos], None, info=True)
        # total length field is not used by the full decode
        bad = bytearray(b)
        bad[4:7] = (1).to_bytes(3, 'big')
        add(bad, 'ok')
        dcases[-1]['msg_hex'] = bytes(bad).hex()
    run_dec_cases(ctx, dcases, 'malformed')

    ctx.exhaustive = False
    ctx.extra['encoder_grid'] = ('thorough: all 48 data lengths x 3 editions x 7 section-2 variants x both flags, each with the zero and '
                                 'exact variants plus 3-5 drawn +-k variants; quick: every residue mod 16 once per (edition, section 2)')

    # --- extraction cross-check ------------------------------------------------------
    items = []
    sample = [c for c in cases if len(c['bits']) <= 12][:ctx.n(12, 40)]
    import random
    for c in sample:
        m = fc.build_json(c['ed'], c['bits'], c['sec2'], {int(k): v for k, v in c['lens'].items()},
                          rng=random.Random(c['vseed']))
        mo = lib.run_model([fc.enc_line(c['ign'], m)])[0]
        term = 'match encode_message %s %s with Ok m => Ok (m_bytes m) | Err e => Err e end' % (
            'true' if c['ign'] else 'false', coq_json(m))
        if mo.startswith('ok '):
            hx = mo.split(' ')[1]
            exp = 'Ok [%s]%%N' % ';'.join(str(x) for x in bytes.fromhex(hx))
        else:
            code = int(mo.split(' ')[1])
            exp = 'Err %s' % {6: 'ELib', 8: 'EValue', 7: 'EAssert', 9: 'EIndex', 11: 'EType'}.get(code, 'EOther')
        items.append((term, exp))
    n, err = lib.vm_cross_check('C04', 'From PBK Require Import Base Bits Frame.\nOpen Scope Z_scope.', items)
    ctx.extra['extraction_cross_check_vm_compute'] = n
    if err:
        ctx.violation({'kind': 'extraction-cross-check', 'error': err, 'no_failing_input': True,
                       'broken': 'OCaml extraction of Frame.v disagrees with vm_compute'})
    ctx.partial = PARTIAL
    ctx.assumptions = [
        'the data section is abstract in the model: the encoder model is given the data bits, the decoder model a stub '
        'template decoder (n_subsets x number of 031031 descriptors bits; any other descriptor = UnknownDescriptor); '
        'what is compared is framing, not data coding',
        'Encoder with default overrides (master_table_number/version not forced); well-typed JSON values only',
        'the expected-value check is modelled after fixes/C12_expected_value_error.diff (D10): on a tree without that '
        'repair every damaged-signature case is reported as a violation (AssertionError instead of PyBufrKitError)',
    ]


PARTIAL = []


def coq_json(msg):
    ed = msg[0][2]
    has2 = len(msg) == 6
    idxs = [0, 1, 2, 3, 4, 5] if has2 else [0, 1, 3, 4, 5]
    secs = []
    for idx, vals in zip(idxs, msg):
        ps = fc.section_params(idx, ed)
        vs = []
        for p, v in zip(ps, vals):
            t = p['type']
            if t == 'uint':
                vs.append('PUint (%d)' % v)
            elif t == 'bytes':
                vs.append('PBytes [%s]%%N' % ';'.join(str(x) for x in v.encode('latin-1')))
            elif t == 'bin':
                vs.append('PBin [%s]' % ';'.join('true' if ch == '1' else 'false' for ch in v))
            elif t == 'bool':
                vs.append('PBool %s' % ('true' if v else 'false'))
            elif t == 'unexpanded_descriptors':
                vs.append('PDescs [%s]' % ';'.join('%d' % x for x in v))
            else:
                vs.append('PData [%s]' % ';'.join('true' if x else 'false' for sub in v for x in sub))
        secs.append('[%s]' % '; '.join(vs))
    return '[%s]' % '; '.join(secs)


def replay(ctx, rec):
    case = rec.get('case', rec)
    if case.get('op') == 'enc':
        run_enc_cases(ctx, [case], 'replay')
    else:
        run_dec_cases(ctx, [case], 'replay')
    return {'case': case, 'violations': len(ctx.violations)}
