"""C12 — damage is detected, reported as a library error, and isolated to one message."""
import os
import subprocess
import sys

import lib
import bufrlib as B
import pipeline as P
from props import C11 as S

LEVEL = 'proof'


def truncation_cases(ctx, cases):
    """Every truncation point of every message: no proper prefix decodes; the
    failure is a library error.  Also: bytes after the message do not matter."""
    from pybufrkit.decoder import Decoder
    from pybufrkit.errors import PyBufrKitError
    dec = Decoder()
    n_pts = 0
    model_lines, model_meta = [], []
    for c in cases:
        e = c.get('impl_enc')
        if not e or e[0] != 'ok':
            continue
        b = e[3]
        for f in c.get('features', {}):
            ctx.dist['truncated: ' + f] += 1
        case = {'ids': c['ids'], 'seed': c['seed'], 'forced': c['forced'], 'nsub': c['nsub'],
                'version': c['version'], 'edition': c['edition'], 'compressed': c['compressed']}
        off, ndata = B.data_section_bits(b)
        step = 1 if len(b) <= 400 else max(1, len(b) // 300)
        for k in list(range(0, len(b), step)):
            n_pts += 1
            try:
                with lib.time_limit(30):
                    dec.process(b[:k], wire_template_data=False)
                ctx.violation({'kind': 'C12-prefix-decodes', 'case': case, 'cut': k, 'length': len(b)},
                              'a proper prefix (%d of %d bytes) decodes successfully, ids=%s' % (k, len(b), c['ids']))
            except PyBufrKitError:
                ctx.dist['truncation -> library error'] += 1
            except lib.CaseTimeout:
                raise
            except Exception as ex:
                ctx.violation({'kind': 'C12-truncation-error-class', 'case': case, 'cut': k, 'length': len(b),
                               'error': type(ex).__name__},
                              'truncation at %d of %d raises %s, not the library error' % (k, len(b), type(ex).__name__))
            # the model on the truncated DATA bits (cuts inside section 4, whole section otherwise intact)
            if off < k < off + ndata and (k - off) % 1 == 0 and ctx.rng.random() < 0.25:
                data = b[off:k]
                model_lines.append('%s %d %s:%d %s' % ('decc' if c['compressed'] else 'decu', c['nsub'], data.hex() or '-',
                                                       8 * len(data), c['toks']))
                model_meta.append((case, k))
        # trailing bytes never matter
        junk = bytes(ctx.rng.randrange(256) for _ in range(ctx.rng.randrange(1, 40)))
        try:
            m2 = dec.process(b + junk, wire_template_data=False)
            i = c.get('impl_dec')
            same = (m2.serialized_bytes == b and i and i[0] == 'ok'
                    and repr(m2.template_data.value.decoded_values_all_subsets) == repr(i[1]))
        except Exception as ex:
            same = False
        ctx.count(('suffix', tuple(c['ids']), c['seed']), True)
        if not same and c.get('impl_dec') and c['impl_dec'][0] == 'ok':
            ctx.violation({'kind': 'C12-suffix-dependence', 'case': case, 'junk': junk.hex()},
                          'bytes after the message changed its decoding, ids=%s' % c['ids'])
    # model: a truncated data section never decodes (theorem decode_prefix_fails); when the cut removes
    # needed bits the error is the bit-read error
    for (case, k), mo in zip(model_meta, lib.run_model_sharded(model_lines)):
        ctx.count(('trunc-model', case['seed'], k), True)
        if mo.startswith('ok'):
            # a prefix of the data bits that still decodes: only padding was cut
            ctx.dist['model: cut inside padding'] += 1
        elif mo != 'err 1':
            ctx.compare(dict(case, cut=k), 'err 1', mo, kind='C12-truncation-model', holds=lambda: True)
    ctx.extra['truncation_points'] = n_pts


def frame_truncation_cases(ctx):
    """Message-level truncation against the framing model (theorems C12_message_cut,
    C12_encoded_prefix_fails, C12_encoded_info_prefix): messages of N x 031031 in
    editions 2-4, section 2 present or not, optionally embedded in leading noise and
    trailing bytes; EVERY cut k of the input, full and metadata-only decoding.
    The implementation is compared with the extracted Frame.v model (same stub
    template decoder as C04) and, independently, with the theorem's prediction:
    the cut decodes to the SAME message iff it keeps the signature and every
    consumed bit (all of the message; all but section 5 for metadata-only),
    and raises a PyBufrKitError otherwise."""
    import random
    from props import frame_common as fc
    rng = ctx.rng
    thorough = not ctx.quick
    inputs = []
    sec2s = [None, '', '10110', '1011000111110000'] if thorough else [None, '10110']
    for ed in (2, 3, 4):
        for sec2 in sec2s:
            for n in ([0, 1, 7, 8, 9, 16, 23, 40] if thorough else [rng.randrange(0, 9), rng.randrange(9, 48)]):
                bits = ''.join(rng.choice('01') for _ in range(n))
                msg = fc.build_json(ed, bits, sec2, {}, rng=random.Random(rng.randrange(1 << 30)))
                io, obj = fc.impl_encode(msg, True)
                if obj is None:
                    continue
                b = obj.serialized_bytes
                lead = rng.choice([b'', b'', b'\r\r\n', b'BUF'])
                trail = rng.choice([b'', b'', b'7777', b'BUFR\x00', bytes(rng.randrange(256) for _ in range(rng.randrange(1, 6)))])
                inputs.append((ed, sec2, n, lead, b, trail))
    lines, meta = [], []
    for (ed, sec2, n, lead, b, trail) in inputs:
        s = lead + b + trail
        modes = [(False, False), (True, False)] + ([(False, True), (True, True)] if thorough else [])
        for info, ignexp in modes:
            for k in range(len(s) + 1):
                lines.append(fc.dec_line(s[:k], True, info, ignexp))
                meta.append((ed, sec2, n, lead, b, trail, info, ignexp, k))
    mouts = lib.run_model_sharded(lines)
    whole = {}
    n_pts = 0
    for (ed, sec2, n, lead, b, trail, info, ignexp, k), line, mo in zip(reversed(meta), reversed(lines), reversed(mouts)):
        s = lead + b + trail
        io, obj = fc.impl_decode(s[:k], True, info, ignexp)
        key = (s, info, ignexp)
        if k == len(s):
            whole[key] = io
        need = len(lead) + len(b) - (4 if info else 0)
        if k >= need:
            holds = io.startswith('ok') and io == whole.get(key)
            why = 'a cut that keeps every consumed bit must decode to the same message'
        else:
            holds = io.startswith('err ') and 1 <= int(io.split()[1]) <= 6
            why = 'a cut into the consumed span must raise a PyBufrKitError'
        n_pts += 1
        ctx.count(('frame-cut', line), True)
        ctx.dist['frame-cut-edition-%d' % ed] += 1
        ctx.dist['frame-cut-' + ('info' if info else 'full') + ('-ignexp' if ignexp else '')] += 1
        ctx.dist['frame-cut-result-' + (io.split(' ')[0] + (io[3:] if io.startswith('err') else ''))] += 1
        ctx.dist['frame-cut-sec2-' + ('absent' if sec2 is None else 'present')] += 1
        rec = {'op': 'frame-cut', 'hex': s.hex(), 'cut': k, 'edition': ed, 'sec2': sec2, 'data_bits': n,
               'lead': len(lead), 'msg_len': len(b), 'trail': len(trail), 'info': info, 'ignexp': ignexp}
        h = holds
        ctx.compare(rec, io, mo, kind='C12-frame-truncation', holds=lambda: h, extra={'why': why})
        if io == mo and not holds:
            ctx.violation({'kind': 'C12-frame-truncation-predicate', 'case': rec, 'impl': io[:200], 'why': why},
                          'cut %d of %d (message at %d..%d, %s): %s; got %s'
                          % (k, len(s), len(lead), len(lead) + len(b), 'info' if info else 'full', why, io[:60]))
    ctx.extra['frame_truncation_points'] = n_pts



def cli_sample(ctx, pool):
    """The command line reports a damaged message without a traceback."""
    d = [x for x in pool if len(x['bytes']) < 2000][:1]
    if not d:
        return
    out_dir = os.path.join(lib.VERIF, 'replays')
    os.makedirs(out_dir, exist_ok=True)
    for kind in ('stop', 'undef-element', 'sec4-len-minus'):
        bad = S.damage(d[0]['bytes'], kind, ctx.rng)
        path = os.path.join(out_dir, 'C12_cli_%s_%d.bufr' % (kind, os.getpid()))
        with open(path, 'wb') as f:
            f.write(bad)
        env = dict(os.environ, PYTHONPATH=lib.REPO)
        p = subprocess.run([sys.executable, '-m', 'pybufrkit', 'decode', path], env=env,
                           stdout=subprocess.PIPE, stderr=subprocess.PIPE, text=True, timeout=120)
        ctx.count(('cli', kind), True)
        if 'Traceback' in p.stderr or 'Traceback' in p.stdout:
            ctx.violation({'kind': 'C12-cli-traceback', 'damage': kind, 'stderr': p.stderr[-400:]},
                          'pybufrkit decode prints a traceback for a message with damage %s' % kind)
        os.remove(path)


def classify_completed_stop(c, pieces, err):
    """D25: a message whose section 3/4 length was increased by k is k bytes longer than its declared total
    length; the decoder never compares the two, so when the k bytes FOLLOWING the message in the stream happen to
    complete the stop signature (separator starting with '7' characters) it is accepted.  The cause is named only
    when the whole outcome is exactly what follows from accepting precisely those messages."""
    from pybufrkit.decoder import Decoder
    from pybufrkit.errors import PyBufrKitError
    stream, starts, dmg = c['stream'], c['starts'], c['damaged']
    kinds = iter(c['damage_kinds'])
    adjusted, completed, first_unaccepted = [], 0, None
    for off, bad in zip(starts, dmg):
        declared = int.from_bytes(stream[off + 4: off + 7], 'big')
        if not bad:
            adjusted.append(stream[off: off + declared])
            continue
        kind = next(kinds)
        got = None
        if kind in ('sec3-len-plus', 'sec4-len-plus'):
            try:
                got = Decoder().process(stream[off:], start_signature=None).serialized_bytes
            except PyBufrKitError:
                got = None
        if got is not None and declared < len(got) <= declared + 7 \
                and set(stream[off + declared: off + len(got)]) <= {0x37} and got == stream[off: off + len(got)]:
            adjusted.append(got)
            completed += 1
        else:
            if first_unaccepted is None:
                first_unaccepted = len(adjusted)
            adjusted.append(None)
    if not completed:
        return {}
    if c['continue_on_error']:
        want, want_lib = [a for a in adjusted if a is not None], False
    elif first_unaccepted is None:
        want, want_lib = adjusted, False
    else:
        want, want_lib = adjusted[:first_unaccepted], True
    if pieces == want and ((err in (1, 2, 3, 4, 5, 6)) if want_lib else err is None):
        return {'cause': 'section-length-plus-completed-by-following-sevens'}
    return {}


def classify_damaged(c, pieces, err):
    """Names the cause of an outcome that differs from the expectation when it is EXACTLY a recorded finding.
    D25 (see classify_completed_stop) and D35: a damaged message whose metadata cannot be read either (section 3 length
    changed) is not skipped by its declared total length: the scan resumes one byte behind its signature, and a complete
    message held in its body is delivered.  The cause is named only when every delivered piece is a good message at its
    own start, a D25-completed message at its start, or a standalone-decodable message strictly inside such a damaged
    message, and every good message is delivered."""
    r = classify_completed_stop(c, pieces, err)
    if r:
        return r
    if not c['continue_on_error'] or c['info_only'] or err is not None:
        return {}
    from pybufrkit.decoder import Decoder
    from pybufrkit.errors import PyBufrKitError
    stream, starts, dmg = c['stream'], c['starts'], c['damaged']
    kinds = iter(c['damage_kinds'])
    good, completed, unreadable = {}, {}, []
    for off, bad in zip(starts, dmg):
        declared = int.from_bytes(stream[off + 4: off + 7], 'big')
        if not bad:
            good[off] = stream[off: off + declared]
            continue
        kind = next(kinds)
        try:
            got = bytes(Decoder().process(stream[off:], start_signature=None).serialized_bytes)
            if kind in ('sec3-len-plus', 'sec4-len-plus') and declared < len(got) <= declared + 7 \
                    and set(stream[off + declared: off + len(got)]) <= {0x37} and got == stream[off: off + len(got)]:
                completed[off] = got
            continue
        except PyBufrKitError:
            pass
        try:
            Decoder().process(stream[off:], start_signature=None, info_only=True)
        except PyBufrKitError:
            unreadable.append((off, off + declared))
    cursor, seen_good, n_inner, n_completed = 0, [], 0, 0
    for p in pieces:
        # the first occurrence at or behind the cursor that is one of the three admissible places
        i, what = stream.find(p, cursor), None
        while i >= 0:
            if good.get(i) == p:
                what = 'good'
            elif completed.get(i) == p:
                what = 'completed'
            elif any(lo < i and i + len(p) <= hi for lo, hi in unreadable):
                what = 'inner'
            if what:
                break
            i = stream.find(p, i + 1)
        if what is None:
            return {}
        if what == 'good':
            seen_good.append(i)
        elif what == 'completed':
            n_completed += 1
        else:
            try:
                if bytes(Decoder().process(p).serialized_bytes) != p:
                    return {}
            except Exception:
                return {}
            n_inner += 1
        cursor = i + len(p)
    if seen_good != sorted(good) or not n_inner:
        return {}
    out = {'cause': 'embedded-message-delivered-from-damaged-message-with-unreadable-metadata'}
    if n_completed:
        out['also'] = 'section-length-plus-completed-by-following-sevens'
    return out


def dnp_span_cases(pool):
    """An undefined element substituted INSIDE a 221YYY (data not present) span: the descriptor is still reached
    and must still be reported, the message skipped."""
    import struct
    cases = []
    good = [d for d in pool if d.get('crafted') and 'dnp' not in d['name']][:2]
    for d in [x for x in pool if x.get('crafted') and 'dnp' in x['name']]:
        b = d['bytes']
        so = S.section_offsets(b)
        for k in (2, 3):                      # 012001 / 010004 of [001015 221003 012001 010004 001001 002001]
            for code in (0x3FFF, 0x0CFA):     # 063255, 012250: classes outside 1-9 and 31
                bad = bytearray(b)
                bad[so['o3'] + 7 + 2 * k: so['o3'] + 9 + 2 * k] = struct.pack('>H', code)
                msgs = [good[0]['bytes'], bytes(bad), good[1]['bytes']]
                stream = b''.join(msgs)
                starts = [0, len(msgs[0]), len(msgs[0]) + len(msgs[1])]
                for io_, coe in ((False, True), (False, False)):
                    exp, err = ([msgs[0], msgs[2]], None) if coe else ([msgs[0]], 'lib')
                    cases.append({'name': 'dnp-span-%s-%d-%04x' % (d['name'], k, code), 'stream': stream, 'starts': starts,
                                  'info_only': io_, 'continue_on_error': coe, 'filter': None, 'expect': exp,
                                  'expect_err': err, 'tags': ['damaged', 'undefined-element-inside-221-span'],
                                  'damage_kinds': ['undef-element'], 'damaged': [False, True, False], 'in_domain': False})
    # an undefined element / sequence substituted at EVERY position of templates whose descriptors are reached through
    # other handlers than the plain member loop: a 203YYY definition list, a 204YYY span, a bitmap definition and its
    # class-33 values, 201/202/207/208 spans, a fixed replication, a marker operator (data all zero: nothing is skipped)
    import pipeline as P2
    from pybufrkit.decoder import Decoder
    for ti, ids in enumerate([[203012, 7001, 12001, 203255, 7001, 203000, 1001],
                              [204004, 31021, 12001, 204000, 1001],
                              [1001, 1002, 222000, 236000, 101002, 31031, 33007, 33007],
                              [208004, 1015, 208000, 201130, 12001, 201000, 202129, 7001, 202000],
                              [102002, 12001, 7001, 1001],
                              [207002, 12001, 207000, 223000, 236000, 101001, 31031, 223255]]):
        whole = P2.frame_message(ids, 1, False, 33, bytes(64))
        try:
            with S.quiet():
                Decoder().process(whole)
        except Exception:
            continue
        so = S.section_offsets(whole)
        for k in range(len(ids)):
            for code in (0x3FFF, 0xFFFF):         # 063255, 363255
                bad = bytearray(whole)
                bad[so['o3'] + 7 + 2 * k: so['o3'] + 9 + 2 * k] = struct.pack('>H', code)
                msgs = [good[0]['bytes'], bytes(bad), good[1]['bytes']]
                stream = b''.join(msgs)
                starts = [0, len(msgs[0]), len(msgs[0]) + len(msgs[1])]
                for io_, coe in ((False, True), (False, False)):
                    exp, err = ([msgs[0], msgs[2]], None) if coe else ([msgs[0]], 'lib')
                    cases.append({'name': 'undef-at-%d-%d-%04x' % (ti, k, code), 'stream': stream, 'starts': starts,
                                  'info_only': io_, 'continue_on_error': coe, 'filter': None, 'expect': exp,
                                  'expect_err': err, 'tags': ['damaged', 'undefined-descriptor-at-every-position'],
                                  'damage_kinds': ['undef-element' if code == 0x3FFF else 'undef-sequence'],
                                  'damaged': [False, True, False], 'in_domain': False})
    # the stop signature overwritten by every pattern, incl. bytes that are not UTF-8 (whatever the error message
    # is built from, the error must be the library's)
    for pat in (b'XXXX', b'7778', b'\x00\x00\x00\x00', b'\xff\xff\xff\xff', b'77\x807', b'\xc3\x28\xa0\xa1', b'\x80\x80\x80\x80'):
        bad = bytearray(good[1]['bytes'])
        bad[-4:] = pat
        msgs = [good[0]['bytes'], bytes(bad), good[0]['bytes']]
        stream = b''.join(msgs)
        starts = [0, len(msgs[0]), len(msgs[0]) + len(msgs[1])]
        for io_, coe in ((False, True), (False, False)):
            exp, err = ([msgs[0], msgs[2]], None) if coe else ([msgs[0]], 'lib')
            cases.append({'name': 'stop-overwritten-%s' % pat.hex(), 'stream': stream, 'starts': starts,
                          'info_only': io_, 'continue_on_error': coe, 'filter': None, 'expect': exp, 'expect_err': err,
                          'tags': ['damaged', 'stop-signature-pattern'], 'damage_kinds': ['stop'],
                          'damaged': [False, True, False], 'in_domain': False})
    return cases


def run(ctx):
    ctx.rule = ('fault enumeration: (1) every truncation point (every byte; sampled above 400 bytes) of generated messages '
                '(templates of C01, compressed or not): the implementation must raise a PyBufrKitError, never succeed and never '
                'another exception; cuts inside the data section are also given to the extracted model (EBitRead); trailing bytes '
                'must not change the result; (1b) message-level cuts against the framing model Frame.v (theorems C12_message_cut / '
                'C12_encoded_prefix_fails / C12_encoded_info_prefix): messages of N x 031031, editions 2-4, section 2 present or not, '
                'with leading noise and trailing bytes, EVERY cut of the input, full and metadata-only (thorough: also '
                'ignore_value_expectation): implementation = extracted model, and = the theorem\'s prediction (same message iff the cut '
                'keeps the signature and every consumed bit — everything but section 5 for metadata-only — else PyBufrKitError); '
                '(2) streams of 2..5 real messages with every kind of damage {stop signature '
                'overwritten, undefined element / sequence descriptor, section length -k / +k} (total length intact) scanned '
                'with and without continue-on-error, full and metadata-only: compared with the extracted Stream.v model fed '
                'with the per-offset observations, and with the expectation of the property (others delivered unchanged and '
                'in order / prefix then library error); (3) CLI sample: no traceback.')
    n = ctx.n(60, 1200)
    cases = P.build_cases(ctx, n, gen_kwargs=dict(size=5), nsub_choices=(1, 1, 2), compressed=(False, False, True),
                          versions=(33,), editions=(4, 4, 3))
    # fields read through OTHER primitives than read_uint at the very start of the data or on an octet boundary: a new
    # reference value (sign bit first), a one-bit flag, a character field, a skipped local field: every cut, also the one
    # that leaves exactly zero bits for them
    rng = ctx.rng
    for ids in ([203012, 7001, 203255, 7001], [203016, 12001, 10004, 203255, 12001, 10004, 203000], [203008, 7001, 203255, 1001],
                [31031, 31031, 1001], [1015, 203024, 7002, 203255, 7002], [206008, 63255, 203016, 7001, 203255, 7001],
                [204001, 31021, 12001, 204000, 203012, 7001, 203255]):
        for comp in (False, True):
            cases.append({'ids': ids, 'version': 33, 'edition': 4, 'nsub': 2 if comp else 1, 'compressed': comp, 'forced': '-',
                          'seed': rng.randrange(1, 2 ** 32), 'maxrep': 3, 'features': {'non-uint-field-at-octet-boundary': 1},
                          'shared': comp})
    P.attach_templates(cases)
    P.run_gen(cases)
    P.run_encode(cases)
    P.run_decode(cases)
    truncation_cases(ctx, cases)
    frame_truncation_cases(ctx)
    with S.quiet():
        pool, _files = S.build_pool(ctx)
        dmg = S.make_damaged_cases(ctx, pool, ctx.n(40, 900))
        dmg += dnp_span_cases(pool)
        S.run_stream_cases(ctx, dmg, kind='C12-stream', enforce_expect=True, classify=classify_damaged)
    # end to end: damaged streams through the extracted scanner over the concrete framing decoder (StreamFrame.v)
    from props import c11_e2e
    c11_e2e.run(ctx, damaged=True)
    cli_sample(ctx, pool)
    ctx.partial = []
    ctx.assumptions = ['Stream.v is instantiated with per-offset observations of the real decoder (C11)',
                       'the model describes /repo after "fix: an unexpected signature value is reported as PyBufrKitError"']


def replay(ctx, rec):
    if 'stream' in rec or 'case' in rec and 'stream' in rec.get('case', {}):
        return S.replay(ctx, rec)
    return {'record': rec.get('kind')}
