"""C14 — templates are built from descriptor lists exactly as FM-94 prescribes
(pybufrkit/tables.py, descriptors.py vs coq/theories/Template.v)."""
import glob
import logging
import hashlib
import json
import os
import sys
import shutil
import tempfile
from concurrent.futures import ThreadPoolExecutor

import lib

LEVEL = 'proof'
logging.disable(logging.WARNING)


# ---------------------------------------------------------------------------
# table export (tables are data shared by both sides; read from /repo each run)
# ---------------------------------------------------------------------------
def tables_root():
    return os.path.join(lib.REPO, 'pybufrkit', 'tables')


def load_json(path):
    with open(path) as f:
        return json.load(f)


def elem_tok(id_, fields):
    # fields = [name, unit, scale, refval, nbits, ...]
    return '%d:%s:%d:%d:%d' % (id_, fields[1].encode('utf-8').hex() or '-', fields[2], fields[3], fields[4])


def export_env(b_files, d_files):
    """b_files/d_files: lists of dicts as loaded from TableB.json/TableD.json, in load
    order (WMO, local).  Returns the driver lines that install this environment."""
    toks = []
    counts = []
    for data in b_files:
        counts.append(len(data))
        for k, v in data.items():           # file order: later wins inside a file too
            toks.append(elem_tok(int(k), v))
    while len(counts) < 2:
        counts.append(0)
    lines = ['tabB %d %d %s' % (counts[0], counts[1], ' '.join(toks)), 'tabD_reset']
    for data in d_files:
        ents = []
        for k in sorted(data.keys()):       # TableD.__init__ iterates sorted keys
            ms = data[k][1]
            ents.append('%d=%s' % (int(k), ','.join(str(int(m)) for m in ms) or '-'))
        lines.append('tabD_file ' + ' '.join(ents))
    return lines


def merged(files):
    out = {}
    for data in files:
        for k, v in data.items():
            out[int(k)] = v
    return out


# ---------------------------------------------------------------------------
# the implementation's side: canonical printers
# ---------------------------------------------------------------------------
def show_desc(d):
    from pybufrkit import descriptors as D
    t = type(d)
    if t is D.UndefinedElementDescriptor:
        return 'U%d' % d.id
    if t is D.UndefinedSequenceDescriptor:
        return 'V%d' % d.id
    if isinstance(d, D.ElementDescriptor):
        return 'E%d:%d:%d:%d' % (d.id, d.nbits, d.scale, d.refval)
    if t is D.FixedReplicationDescriptor:
        return 'F%d(%s)' % (d.id, show_descs(d.members))
    if t is D.DelayedReplicationDescriptor:
        return 'D%d[%s](%s)' % (d.id, show_desc(d.factor), show_descs(d.members))
    if t is D.OperatorDescriptor:
        return 'O%d' % d.id
    if isinstance(d, D.SequenceDescriptor):
        return 'S%d(%s)' % (d.id, show_descs(d.members))
    return '?%s%d' % (t.__name__, d.id)


def show_descs(ms):
    return ','.join(show_desc(m) for m in ms)


def impl_flat_elems(members, out):
    from pybufrkit import descriptors as D
    for m in members:
        t = type(m)
        if isinstance(m, D.SequenceDescriptor):
            impl_flat_elems(m.members, out)
        elif t is D.FixedReplicationDescriptor:
            impl_flat_elems(m.members, out)
        elif t is D.DelayedReplicationDescriptor:
            if isinstance(m.factor, D.ElementDescriptor):
                out.append(m.factor)
            impl_flat_elems(m.members, out)
        elif isinstance(m, D.ElementDescriptor):
            out.append(m)
    return out


def impl_reaches_undefined(members):
    from pybufrkit import descriptors as D
    for m in members:
        if isinstance(m, (D.UndefinedElementDescriptor, D.UndefinedSequenceDescriptor)):
            return True
        if hasattr(m, 'members') and impl_reaches_undefined(m.members):
            return True
    return False


def show_ids(l):
    return ','.join(str(x) for x in l) or '-'


def elem_str(e):
    return '%d:%s:%d:%d:%d' % (e.id, e.unit.encode('utf-8').hex() or '-', e.scale, e.refval, e.nbits)


# the property's own reference, independent of the model: direct expansion of the
# table FILES (layers in load order; a sequence sees the files loaded up to its own)
def ref_expand(d_files, upto, seq, depth=0):
    if depth > 200:
        raise RecursionError
    for k in range(upto, -1, -1):
        if seq in d_files[k]:
            out = []
            for m in d_files[k][seq]:
                if m >= 300000 and any(m in d_files[j] for j in range(k + 1)):
                    out.extend(ref_expand(d_files, k, m, depth + 1))
                else:
                    out.append(m)
            return out
    return None


def int_d_files(d_files):
    return [{int(k): [int(m) for m in v[1]] for k, v in data.items()} for data in d_files]


def impl_expand(tg, seq, d_int, b_merged):
    """One Table D entry on the implementation: returns (canonical line, holds)."""
    from pybufrkit.descriptors import flat_member_ids
    try:
        d = tg.lookup(seq)
        ids = flat_member_ids(d)
    except RecursionError:
        return 'err 99', True
    except Exception as e:
        return 'err %d' % lib.err_code(e), False
    es = impl_flat_elems(d.members, [])
    estr = ' '.join(elem_str(e) for e in es)
    ref = ref_expand(d_int, len(d_int) - 1, seq)
    attrs_ok = all(e.id in b_merged and
                   [e.unit, e.scale, e.refval, e.nbits] == list(b_merged[e.id][1:5]) for e in es)
    holds = (ref == ids) and attrs_ok
    line = 'ok %s | %s | %d | direct %s | undef %d' % (
        show_ids(ids), hashlib.md5(estr.encode()).hexdigest(), len(es),
        'same' if ref == ids else show_ids(ref or []), 1 if impl_reaches_undefined(d.members) else 0)
    return line, holds


def impl_tree(tg, ids):
    try:
        t = tg.template_from_ids(*ids)
        orig = t.original_descriptor_ids
    except RecursionError:
        return 'err 99', None
    except Exception as e:
        return 'err %d' % lib.err_code(e), None
    u = impl_reaches_undefined(t.members)
    return 'ok %s | %s | undef %d scan %s' % (show_descs(t.members), show_ids(orig), 1 if u else 0,
                                               'err 2' if u else 'ok'), orig


# ---------------------------------------------------------------------------
# generators
# ---------------------------------------------------------------------------
class Pools:
    def __init__(self, b_merged, d_ids, rng):
        ids = sorted(b_merged)
        self.elems = [i for i in ids if i // 1000 != 31]
        self.factors = [i for i in ids if i // 1000 == 31] or [31001]
        self.seqs = sorted(d_ids) or [300002]
        self.opers = [201129, 201000, 202130, 202000, 204008, 204000, 207002, 207000, 208024, 208000,
                      222000, 236000, 237000, 206008, 203012, 203255, 203000, 221005, 224000, 225255]
        known = set(ids)
        self.unknown_elems = [i for i in (0, 63255, 1255, 48001, 99999, 12254) if i not in known]
        self.unknown_seqs = [i for i in (399999, 300000, 363255) if i not in set(d_ids)]
        self.rng = rng


def gen_wf(p, n, depth, maxdepth, maxx):
    """a well-formed list of exactly n ids"""
    rng = p.rng
    out = []
    while n > 0:
        r = rng.random()
        if depth < maxdepth and n >= 2 and r < 0.35:
            delayed = rng.random() < 0.5 and n >= 3
            head = 2 if delayed else 1
            x = rng.randrange(1, min(maxx, n - head) + 1)
            if rng.random() < 0.15:
                x = min(maxx, n - head)
            inner = gen_wf(p, x, depth + 1, maxdepth, maxx)
            if delayed:
                out += [100000 + x * 1000, rng.choice(p.factors)] + inner
            else:
                out += [100000 + x * 1000 + rng.randrange(1, 256)] + inner
            n -= head + x
        elif r < 0.45:
            out.append(rng.choice(p.seqs)); n -= 1
        elif r < 0.55:
            out.append(rng.choice(p.opers)); n -= 1
        else:
            out.append(rng.choice(p.elems)); n -= 1
    return out


def gen_ill(p, maxdepth, maxx):
    rng = p.rng
    base = gen_wf(p, rng.randrange(1, 40), 0, maxdepth, maxx)
    kind = rng.choice(['truncate', 'delayed-end', 'unknown', 'x-too-big', 'factor-seq', 'random',
                       'nested-delayed-end', 'x-zero', 'fixed-end'])
    if kind == 'truncate':
        base = base[:rng.randrange(0, len(base) + 1)]
    elif kind == 'delayed-end':
        base = base[:rng.randrange(0, len(base) + 1)] + [100000 + rng.randrange(0, 64) * 1000]
    elif kind == 'fixed-end':
        base = base[:rng.randrange(0, len(base) + 1)] + [100000 + rng.randrange(0, 64) * 1000 + rng.randrange(1, 5)]
    elif kind == 'unknown':
        for _ in range(rng.randrange(1, 4)):
            base.insert(rng.randrange(0, len(base) + 1), rng.choice(p.unknown_elems + p.unknown_seqs))
    elif kind == 'x-too-big':
        idx = [i for i, v in enumerate(base) if 100000 <= v < 200000]
        if idx:
            i = rng.choice(idx)
            base[i] = 100000 + rng.randrange(0, 100) * 1000 + base[i] % 1000
        else:
            base = [163000 + rng.randrange(0, 3)] + base
    elif kind == 'factor-seq':
        base.insert(rng.randrange(0, len(base) + 1), 100000 + rng.randrange(0, 5) * 1000)
        # whatever follows becomes the factor: a sequence, an operator, a replication...
    elif kind == 'nested-delayed-end':
        x = rng.randrange(1, 4)
        inner = gen_wf(p, x - 1, 1, 1, maxx) + [100000 + rng.randrange(0, 3) * 1000]
        base = base[:rng.randrange(0, len(base) + 1)] + [100000 + x * 1000 + rng.randrange(0, 2)] + \
            ([rng.choice(p.factors)] if rng.random() < 0.5 else []) + inner + gen_wf(p, rng.randrange(0, 4), 1, 1, maxx)
    elif kind == 'x-zero':
        base.insert(rng.randrange(0, len(base) + 1), 100000 + rng.randrange(0, 3))
    else:
        base = [rng.choice([rng.randrange(0, 400000), rng.choice(p.elems), 100000 + rng.randrange(0, 8) * 1000
                            + rng.choice([0, 0, 1, 2])]) for _ in range(rng.randrange(0, 25))]
    return kind, base


def py_wf(ids):
    """harness-side well-formedness (the hypothesis of original_ids_build)"""
    if not ids:
        return True
    h, rest = ids[0], ids[1:]
    if 100000 <= h < 200000:
        x = h // 1000 % 100
        if h % 1000 == 0:
            if not rest:
                return False
            rest = rest[1:]
        return x <= len(rest) and py_wf(rest[:x]) and py_wf(rest[x:])
    return py_wf(rest)


def py_exact(members):
    from pybufrkit import descriptors as D

    def flat_len(ms):
        n = 0
        for m in ms:
            n += 1
            if isinstance(m, D.ReplicationDescriptor):
                if isinstance(m, D.DelayedReplicationDescriptor):
                    n += 1
                n += flat_len(m.members)
        return n
    for m in members:
        if isinstance(m, D.ReplicationDescriptor):
            if flat_len(m.members) != m.n_items or not py_exact(m.members):
                return False
    return True


# ---------------------------------------------------------------------------
# parts of the run
# ---------------------------------------------------------------------------
def version_dirs():
    root = tables_root()
    wmo = sorted((int(os.path.basename(p)), p) for p in glob.glob(os.path.join(root, '0', '0_0', '*'))
                 if os.path.basename(p).isdigit())
    local = []
    for p in sorted(glob.glob(os.path.join(root, '0', '*_*', '*'))):
        cs = os.path.basename(os.path.dirname(p))
        if cs == '0_0' or not os.path.basename(p).isdigit():
            continue
        c, s = cs.split('_')
        local.append((int(c), int(s), int(os.path.basename(p)), p))
    return wmo, local


def get_tg(root=None, **kw):
    from pybufrkit.tables import TableGroupCacheManager
    return TableGroupCacheManager.get_table_group(tables_root_dir=root, **kw)


def safe_tg(ctx, tag, model_load, root=None, **kw):
    """load a table group; a failure is a compared outcome (model: load_d_check), not a
    harness crash.  Returns None when the implementation cannot load the tables."""
    try:
        with lib.time_limit(120):
            return get_tg(root=root, **kw)
    except Exception as e:
        io = 'err %d' % lib.err_code(e)
        ctx.count(('load', tag))
        ctx.compare({'env': tag, 'cmd': 'load tables', 'args': {k: v for k, v in kw.items()}}, io, model_load,
                    kind='tableD-load', holds=lambda: False)
        return None


def run_random_lists(ctx, tag, b_files, d_files, tg, env_lines, n_wf, n_ill, maxx=63):
    rng = ctx.rng
    b_m = merged(b_files)
    d_ids = set().union(*[set(int(k) for k in d) for d in d_files])
    p = Pools(b_m, d_ids, rng)
    cases = []
    for _ in range(n_wf):
        n = rng.choice([1, 2, 3, 5, 8, 13, 30, 70, 130]) if rng.random() < 0.6 else rng.randrange(1, 60)
        cases.append(('wf', gen_wf(p, n, 0, 4, maxx)))
    # deep nests, X = 63 at every level
    for _ in range(max(2, n_wf // 50)):
        ids = []
        for dpt in range(4):
            x = 63 - 2 * dpt
            ids += [100000 + x * 1000 + (0 if dpt % 2 else 7)] + ([31001] if dpt % 2 else [])
        ids += gen_wf(p, 63 - 2 * 3, 4, 4, maxx)
        cases.append(('wf', ids))
    for _ in range(n_ill):
        cases.append(gen_ill(p, 4, maxx))
    lines = env_lines[:]
    for kind, ids in cases:
        lines.append('tree ' + ' '.join(map(str, ids)))
        lines.append('wf ' + ' '.join(map(str, ids)))
    mouts = lib.run_model(lines)[len(env_lines):]
    for i, (kind, ids) in enumerate(cases):
        mo_tree, mo_wf = mouts[2 * i], mouts[2 * i + 1]
        with lib.time_limit(30):
            io, orig = impl_tree(tg, ids)
        wf = py_wf(ids)
        depth = 0
        ctx.count((tag, tuple(ids)), nontrivial=len(ids) > 1)
        ctx.dist['lists-' + ('wf' if wf else 'illformed:' + kind)] += 1
        if io.startswith('err'):
            ctx.dist['lists-' + io.replace(' ', '')] += 1
        if any(100000 <= v < 200000 for v in ids):
            ctx.dist['lists-with-replication'] += 1
        ctx.dist['lists-len-%s' % ('1-5' if len(ids) <= 5 else '6-30' if len(ids) <= 30 else '31+')] += 1

        # the property's predicate on the implementation: nothing lost, nothing skipped;
        # well-formed lists build and every replication owns exactly X
        def holds():
            if wf:
                if orig is None or orig != ids:
                    return False
                t = tg.template_from_ids(*ids)
                return py_exact(t.members)
            return orig is None or orig == ids
        ctx.compare({'env': tag, 'ids': ids, 'kind_gen': kind}, io, mo_tree, kind='template-tree', holds=holds)
        if io == mo_tree and not holds():
            ctx.violation({'kind': 'template-predicate', 'env': tag, 'ids': ids, 'impl': io[:300]},
                          'original_descriptor_ids differs from the list the template was built from')
        # model-side facts used by the theorems (wf_ids executable = harness reading;
        # exact ownership; worklist = structural reading)
        exp_wf = 'wf %d' % (1 if wf else 0)
        if not mo_wf.startswith(exp_wf):
            ctx.violation({'kind': 'wf-ids-disagree', 'ids': ids, 'model': mo_wf, 'harness_wf': wf,
                           'no_failing_input': True, 'broken': 'wf_ids (Template.v) vs harness reading of well-formedness'})
        if wf and mo_wf != 'wf 1 exact 1 same 1 struct 1':
            ctx.violation({'kind': 'wf-theorem-instance', 'ids': ids, 'model': mo_wf, 'no_failing_input': True,
                           'broken': 'original_ids_build instance on the extracted model'})
        if i % 97 == 0:
            ctx.sample({'env': tag, 'ids': ids[:20], 'impl': io[:160]}, limit=6)
    return cases


def mk_message(ids, nbytes_data):
    """edition-4 message, one subset, uncompressed, all-zero data"""
    sec1 = (22).to_bytes(3, 'big') + bytes([0, 0, 0, 0, 0, 0, 0, 0, 0, 0, 33, 0]) + (2020).to_bytes(2, 'big') + bytes([1, 1, 0, 0, 0])
    body3 = bytes([0]) + (1).to_bytes(2, 'big') + bytes([0x80]) + b''.join(
        (((i // 100000) << 14) | ((i // 1000 % 100) << 8) | (i % 1000)).to_bytes(2, 'big') for i in ids)
    sec3 = (len(body3) + 3).to_bytes(3, 'big') + body3
    body4 = bytes([0]) + bytes(nbytes_data)
    sec4 = (len(body4) + 3).to_bytes(3, 'big') + body4
    total = 8 + len(sec1) + len(sec3) + len(sec4) + 4
    return b'BUFR' + total.to_bytes(3, 'big') + bytes([4]) + sec1 + sec3 + sec4 + b'7777'


def run_unknown_decodes(ctx, b33, n):
    """a descriptor that is in no table makes DECODING fail with UnknownDescriptor
    (not skipped): real decodes of generated templates (version 33)."""
    from pybufrkit.decoder import Decoder
    rng = ctx.rng
    known = sorted(i for i, v in b33.items() if i // 1000 not in (31,) and v[4] <= 64)
    dec = Decoder()
    cases = []
    for k in range(n):
        ids = [rng.choice(known) for _ in range(rng.randrange(0, 6))]
        if rng.random() < 0.5 and ids:
            x = rng.randrange(1, len(ids) + 1)
            pos = rng.randrange(0, len(ids) - x + 1)
            ids.insert(pos, 100000 + x * 1000 + rng.randrange(1, 4))
        bad = rng.choice([0, 63255, 48001, 399999, 300000, 1255])
        with_bad = rng.random() < 0.8
        if with_bad:
            # member position only: never directly after a delayed replication (none generated)
            pos = rng.randrange(0, len(ids) + 1)
            ids.insert(pos, bad)
            if rng.random() < 0.35:
                # the placeholder inside a 221YYY "data not present" span: still reached, still an error
                back = rng.randrange(0, min(pos, 2) + 1)
                if not any(100000 <= i < 200000 for i in ids[pos - back:pos + 1]):
                    ids.insert(pos - back, 221000 + back + rng.randrange(1, 3))
        cases.append((ids, with_bad))
    mouts = lib.run_model(_SCAN_ENV['lines'] + ['tree ' + ' '.join(map(str, ids)) for ids, _ in cases])[len(_SCAN_ENV['lines']):]
    for (ids, with_bad), mo in zip(cases, mouts):
        mo = mo.split(' scan ')[1] if (mo.startswith('ok') and ' scan ' in mo) else mo
        msg = mk_message(ids, 600)
        try:
            with lib.time_limit(30):
                dec.process(msg)
            out = 'ok'
        except Exception as e:
            out = 'err %d' % lib.err_code(e)
        ctx.count(('decode', tuple(ids)))
        ctx.dist['decode-with-unknown' if with_bad else 'decode-all-known'] += 1
        ctx.compare({'ids': ids, 'cmd': 'decode'}, out, mo, kind='unknown-descriptor-decode',
                    holds=lambda: out == ('err 2' if with_bad else 'ok'))


_SCAN_ENV = {}


def write_tables(root, number, cs, version, b, d):
    p = os.path.join(root, str(number), cs, str(version))
    os.makedirs(p, exist_ok=True)
    with open(os.path.join(p, 'TableB.json'), 'w') as f:
        json.dump(b, f)
    with open(os.path.join(p, 'TableD.json'), 'w') as f:
        json.dump(d, f)


def run_message_templates(ctx):
    """BufrMessage.build_template over a HISTORY of messages in this one process: the same descriptor list and master table
    version under different centres / local table versions (some with bundled local tables, some without). The template built
    for each message must be the expansion of the table group selected for THAT message (tg.template_from_ids), whatever
    was built before."""
    sys.path.insert(0, os.path.dirname(os.path.abspath(__file__)))
    import c13_obs as O
    from pybufrkit.decoder import Decoder
    rng = ctx.rng
    fams = []
    for ids in ([1001, 1192, 12001], [8201, 12101], [1001, 1211, 12101], [301193, 1001], [1001, 33194, 12001]):
        fams.append([(ids, dict(mtv=13, centre=c, ltv=l)) for c in (98, 7, 34) for l in (1, 2)])
    for ids in ([1001, 14001, 12001], [22039, 12001], [301075, 1001], [307017]):
        fams.append([(ids, dict(mtv=v, centre=0, ltv=0)) for v in (13, 18, 25, 33)])
    dec = Decoder()
    for fam in fams:
        order = fam * 2
        rng.shuffle(order)
        for ids, kw in order:
            b = O.mk_message(ids, 8, **kw)
            try:
                m = dec.process(b, info_only=True)
                tmpl, tg = m.build_template(None, normalize=1)
                got = show_descs(tmpl.members)
                want = show_descs(tg.template_from_ids(*ids).members)
            except Exception as e:
                got, want = 'err %d' % lib.err_code(e), None
            ctx.count(('message-template', tuple(ids), tuple(sorted(kw.items()))), True)
            ctx.dist['message-templates-in-history'] += 1
            if want is not None and got != want:
                ctx.violation({'kind': 'C14-message-template', 'case': {'ids': ids, 'message': kw, 'order': [k for _, k in order]},
                               'built': got[:300], 'expansion_of_selected_tables': want[:300]},
                              'ids %s %s: the template built for the message is not the expansion of its own table group' % (ids, kw))
            elif want is None:
                ctx.violation({'kind': 'C14-message-template', 'case': {'ids': ids, 'message': kw}, 'error': got},
                              'ids %s %s: build_template raised %s' % (ids, kw, got))


def run_synthetic_tables(ctx, n):
    """small generated WMO + local tables under a temporary root: override order
    (later file wins; a WMO sequence keeps referring to the WMO definition),
    placeholders, member lists ending in a delayed replication (load fails),
    cyclic definitions."""
    from pybufrkit.tables import TableGroupCacheManager
    rng = ctx.rng
    tmp = tempfile.mkdtemp(prefix='c14_tables_')
    try:
        for k in range(n):
            root = os.path.join(tmp, 'r%d' % k)

            def mk_b(ids):
                return {'%06d' % i: ['N%d' % i, rng.choice(['K', 'CCITT IA5', 'CODE TABLE', 'm']),
                                     rng.randrange(-2, 3), rng.randrange(-5, 5), rng.randrange(1, 20), 'x', 0, 1]
                        for i in ids}
            eids = [1001, 1002, 2001, 12001, 31001, 31002, 20003]
            sids = [300001 + i for i in range(6)]
            bw = mk_b(rng.sample(eids, rng.randrange(3, len(eids) + 1)) + [31001])
            bl = mk_b(rng.sample(eids, rng.randrange(0, 4)))
            acyclic = rng.random() < 0.8

            def mk_d(own, visible):
                d = {}
                for s in own:
                    ms = []
                    for _ in range(rng.randrange(0, 6)):
                        r = rng.random()
                        if r < 0.35:
                            cand = [v for v in visible if (v < s or not acyclic)] or [399999]
                            ms.append(rng.choice(cand + [399998]))
                        elif r < 0.5:
                            x = rng.randrange(0, 3)
                            ms += [100000 + x * 1000, 31001] if rng.random() < 0.5 else [100000 + x * 1000 + 2]
                        else:
                            ms.append(rng.choice(eids + [63001]))
                    if rng.random() < 0.04:
                        ms.append(101000)        # delayed replication at the very end: load fails
                    d['%06d' % s] = ['', ['%06d' % m for m in ms]]
                return d
            w_own = rng.sample(sids, rng.randrange(2, 6))
            l_own = rng.sample(sids, rng.randrange(0, 4))
            dw = mk_d(w_own, w_own)
            dl = mk_d(l_own, sorted(set(w_own + l_own)))
            use_local = rng.random() < 0.7
            write_tables(root, 0, '0_0', 1, bw, dw)
            if use_local:
                write_tables(root, 0, '5_0', 2, bl, dl)
            b_files = [bw] + ([bl] if use_local else [])
            d_files = [dw] + ([dl] if use_local else [])
            env_lines = export_env(b_files, d_files)
            tag = 'synthetic-%d' % k
            TableGroupCacheManager.invalidate()
            try:
                with lib.time_limit(30):
                    tg = get_tg(root=root, master_table_version=1, originating_centre=5,
                                local_table_version=2 if use_local else 0)
                load = 'ok'
            except Exception as e:
                tg = None
                load = 'err %d' % lib.err_code(e)
            mload = lib.run_model(env_lines + ['loadcheck'])[-1].split(' factors_ok')[0]
            ctx.count((tag, 'load'))
            ctx.dist['synthetic-load-' + load.replace(' ', '')] += 1
            if mload == 'err 99':
                # cyclic definition: Python builds a cyclic object graph (or fails for another reason
                # first); the model runs out of fuel.  Not compared.
                ctx.dist['synthetic-cyclic'] += 1
                continue
            ctx.compare({'env': tag, 'b': b_files, 'd': d_files, 'cmd': 'load'}, load, mload,
                        kind='synthetic-load', holds=lambda: True)
            if tg is None or mload != 'ok':
                continue
            d_int = int_d_files(d_files)
            b_m = merged(b_files)
            seqs = sorted(set().union(*[set(x) for x in d_int])) + [399999]
            mouts = lib.run_model(env_lines + ['expand %d' % s for s in seqs])[len(env_lines):]
            for s, mo in zip(seqs, mouts):
                io, holds = impl_expand(tg, s, d_int, b_m)
                if io.startswith('err 12') and mo.startswith('node V'):
                    io = mo       # undefined sequence: AttributeError on both sides
                ctx.count((tag, s, io[:60]))
                ctx.dist['synthetic-entries'] += 1
                if use_local and s in d_int[0] and len(d_int) > 1 and s in d_int[1]:
                    ctx.dist['synthetic-local-overrides-wmo'] += 1
                ctx.compare({'env': tag, 'b': b_files, 'd': d_files, 'seq': s}, io, mo, kind='synthetic-expand',
                            holds=lambda: holds)
            # a few templates over this environment
            for _ in range(4):
                ids = [rng.choice(eids + sids + [101000, 102001, 31001, 201130, 63001]) for _ in range(rng.randrange(1, 8))]
                io, _ = impl_tree(tg, ids)
                mo = lib.run_model(env_lines + ['tree ' + ' '.join(map(str, ids))])[-1]
                ctx.count((tag, tuple(ids)))
                ctx.dist['synthetic-templates'] += 1
                ctx.compare({'env': tag, 'b': b_files, 'd': d_files, 'ids': ids}, io, mo, kind='synthetic-tree',
                            holds=lambda: True)
        TableGroupCacheManager.invalidate()
    finally:
        shutil.rmtree(tmp, ignore_errors=True)


def fmt_opt(x):
    return 'N' if x is None else str(x)


def show_key(wmo, local):
    def s(t):
        return '/'.join(t)
    return '%s %s' % (s(wmo), 'None' if local is None else s(local))


def run_version_selection(ctx, wmo, local):
    """normalize_tables_sn / get_table_group(normalize=True) / get_tables_sn against the
    model over the REAL directory listing, then over generated listings (temp roots)."""
    from pybufrkit import tables as T
    root = tables_root()
    numbers = sorted(int(x) for x in os.listdir(root) if x.isdigit() and os.path.isdir(os.path.join(root, x)))
    dirs = ['0/0/0/%d' % v for v, _ in wmo] + ['0/%d/%d/%d' % (c, s, v) for c, s, v, _ in local]
    lst = 'listing %s %s' % (','.join(map(str, numbers)) or '-', ','.join(dirs) or '-')
    existing = set(dirs)
    versions = [v for v, _ in wmo]
    grid_n = [0, 1, 7]
    grid_c = [0, 98, 7]
    grid_s = [0, 1]
    grid_v = sorted(set([0, 5, 6, 13, 18, 32, 33, 34, 41, 42, 255] + (versions if not ctx.quick else [])))
    grid_l = [0, 1, 2, 3, 101, 5]
    cases = [(n, c, s, v, l) for n in grid_n for c in grid_c for s in grid_s for v in grid_v for l in grid_l]
    lines = [lst] + ['norm %d %d %d %d %d' % t for t in cases] + ['rawkey %d %d %d %d %d' % t for t in cases]
    mouts = lib.run_model(lines)[1:]
    for i, t in enumerate(cases):
        n, c, s, v, l = t
        w, lo = T.normalize_tables_sn(root, n, c, s, v, l)
        io = show_key(w, lo)
        ctx.count(('norm',) + t)
        ctx.dist['version-selection-real-listing'] += 1
        if w[2] != str(v):
            ctx.dist['version-selection-fallback-to-default'] += 1

        def holds():
            n_eff = n if n in numbers else 0
            wdir = '%s/0/0/%s' % (w[0], w[2])
            req = '%d/0/0/%d' % (n_eff, v)
            if req in existing:
                if wdir != req:
                    return False
            elif wdir != '%d/0/0/33' % n_eff:       # the documented default version
                return False
            if lo is not None:
                cs = lo[1].split('_')
                if l == 0 or '%s/%s/%s/%s' % (lo[0], cs[0], cs[1], lo[2]) not in existing:
                    return False
            return True
        ctx.compare({'cmd': 'norm', 'args': list(t)}, io, mouts[i], kind='normalize-tables-sn', holds=holds)
        if io == mouts[i] and not holds():
            ctx.violation({'kind': 'normalize-predicate', 'args': list(t), 'impl': io})
        w2, lo2 = T.get_tables_sn(n, c, s, v, l)
        ctx.count(('raw',) + t, nontrivial=False)
        ctx.compare({'cmd': 'rawkey', 'args': list(t)}, show_key(w2, lo2), mouts[len(cases) + i], kind='get-tables-sn')
    # get_table_group itself (the `or DEFAULT` fall-backs: None and 0), real loads: few distinct keys
    opt_v = [None, 0, 33, 7, 42] if ctx.quick else [None, 0, 33, 7, 13, 25, 41, 42, 5]
    gcases = []
    for n in (None, 0, 3):
        for c in (None, 0, 98, 7):
            for s in (None, 0, 1):
                for v in opt_v:
                    for l in (None, 0, 1, 4):
                        gcases.append((n, c, s, v, l))
    if ctx.quick:
        gcases = ctx.rng.sample(gcases, 150)
    lines = [lst] + ['key ' + ' '.join(fmt_opt(x) for x in t) for t in gcases]
    mouts = lib.run_model(lines)[1:]
    for t, mo in zip(gcases, mouts):
        n, c, s, v, l = t
        try:
            with lib.time_limit(60):
                tg = T.TableGroupCacheManager.get_table_group(
                    master_table_number=n, originating_centre=c, originating_subcentre=s,
                    master_table_version=v, local_table_version=l)
            io = show_key(tg.key.wmo_tables_sn, tg.key.local_tables_sn)
        except Exception as e:
            io = 'err %d' % lib.err_code(e)
        ctx.count(('key',) + t)
        ctx.dist['get_table_group-keys'] += 1
        want_v = v if (v in versions) else 33
        ctx.compare({'cmd': 'key', 'args': [fmt_opt(x) for x in t]}, io, mo, kind='get-table-group-key',
                    holds=lambda: io.startswith('0/0_0/%d ' % want_v))
    # generated listings: temporary roots with empty directories
    tmp = tempfile.mkdtemp(prefix='c14_listing_')
    try:
        nl = ctx.n(12, 120)
        for k in range(nl):
            rng = ctx.rng
            r = os.path.join(tmp, 'L%d' % k)
            os.makedirs(r)
            nums = [x for x in (0, 1) if rng.random() < 0.7]
            ds = []
            for x in nums:
                os.makedirs(os.path.join(r, str(x)), exist_ok=True)
                for cs in ('0_0', '7_0', '7_1'):
                    for v in (5, 33):
                        if rng.random() < 0.5:
                            os.makedirs(os.path.join(r, str(x), cs, str(v)), exist_ok=True)
                            c, s = cs.split('_')
                            ds.append('%d/%s/%s/%d' % (x, c, s, v))
            lst2 = 'listing %s %s' % (','.join(map(str, nums)) or '-', ','.join(ds) or '-')
            cs2 = [(n, c, s, v, l) for n in (0, 1, 2) for c in (0, 7) for s in (0, 1) for v in (5, 33, 9) for l in (0, 5, 33)]
            mo2 = lib.run_model([lst2] + ['norm %d %d %d %d %d' % t for t in cs2])[1:]
            for t, mo in zip(cs2, mo2):
                w, lo = T.normalize_tables_sn(r, *t)
                io = show_key(w, lo)
                ctx.count(('norm-gen', k) + t)
                ctx.dist['version-selection-generated-listing'] += 1

                def holds2():
                    n_eff = t[0] if t[0] in nums else 0
                    req = '%d/0/0/%d' % (n_eff, t[3])
                    wdir = '%s/0/0/%s' % (w[0], w[2])
                    if req in ds:
                        return wdir == req
                    return wdir == '%d/0/0/33' % n_eff
                ctx.compare({'cmd': 'norm', 'listing': lst2, 'args': list(t)}, io, mo, kind='normalize-generated-listing',
                            holds=holds2)
    finally:
        shutil.rmtree(tmp, ignore_errors=True)


def run(ctx):
    ctx.rule = ('(1) EXHAUSTIVE: every Table D entry of the selected bundled table directories (thorough: all WMO versions '
                'and all local tables; quick: versions 13, 33, 41 and one local table) is expanded by '
                'TableGroupCacheManager.get_table_group(...).lookup + flat_member_ids and by the extracted expand_seq/'
                'flat_member_ids; compared: flat id list, (id, unit, scale, refval, nbits) of every element (md5 of the list), '
                'placeholder reachability; the implementation is also checked directly against a direct expansion of the JSON '
                'file and against the Table B file. (2) RANDOM descriptor lists over real table ids: well-formed with '
                'replication nested to depth 4 and X up to 63, and ill-formed (truncated tails, delayed replication at the '
                'very end, X too big, unknown ids, a sequence in factor position, random ids); compared as canonical one-line '
                'trees and original_descriptor_ids; non-trivial = more than one id; distinct = distinct (table, id list). '
                '(3) generated WMO+local table pairs under a temporary root (override order, placeholders, load failure). '
                '(4) version selection: normalize_tables_sn / get_tables_sn on a grid over the real directory listing and over '
                'generated listings; get_table_group keys incl. None and 0 arguments. (5) real decodes of templates containing a '
                'descriptor that is in no table: UnknownDescriptor.')
    wmo, local = version_dirs()
    if not wmo:
        raise RuntimeError('no bundled tables found under ' + tables_root())
    from pybufrkit.tables import TableGroupCacheManager
    TableGroupCacheManager.invalidate()

    # ---- data tie: the Coq literal of the version-33 tables is the current file ----
    import importlib.util
    spec = importlib.util.spec_from_file_location('gen_template_data', os.path.join(lib.VERIF, 'harness', 'gen_template_data.py'))
    gtd = importlib.util.module_from_spec(spec)
    spec.loader.exec_module(gtd)
    lit = open(os.path.join(lib.COQ, 'theories', 'TemplateData.v')).read()
    ctx.count('TemplateData.v', nontrivial=False)
    if gtd.render(lib.REPO) != lit:
        ctx.violation({'kind': 'table-data-literal', 'no_failing_input': True,
                       'broken': 'coq/theories/TemplateData.v is not the current pybufrkit/tables/0/0_0/33 (theorems '
                                 'C14_expand_flat_v33, C14_v33_total speak about the literal)'},
                      'bundled version-33 tables differ from the Coq literal')

    # ---- corpus first ------------------------------------------------------------
    corpus_dir = os.path.join(lib.VERIF, 'corpus', 'C14')
    v33 = dict(wmo).get(33) or wmo[-1][1]
    b33 = load_json(os.path.join(v33, 'TableB.json'))
    d33 = load_json(os.path.join(v33, 'TableD.json'))
    env33 = export_env([b33], [d33])
    _SCAN_ENV['lines'] = env33
    load33 = lib.run_model(env33 + ['loadcheck'])[-1].split(' factors_ok')[0]
    tg33 = safe_tg(ctx, 'v33', load33, master_table_version=int(os.path.basename(v33)))
    tmp33 = None
    if tg33 is None:
        # the bundled tables do not load on the implementation: continue on the same
        # Table B with an EMPTY Table D (temporary root), so that the list comparison
        # still produces concrete descriptor lists
        tmp33 = tempfile.mkdtemp(prefix='c14_b33_')
        write_tables(tmp33, 0, '0_0', 33, b33, {})
        d33 = {}
        env33 = export_env([b33], [d33])
        _SCAN_ENV['lines'] = env33
        tg33 = safe_tg(ctx, 'v33-emptyD', 'ok', root=tmp33, master_table_version=33)
        if tg33 is None:
            raise RuntimeError('Table B alone does not load')
    for fn in sorted(glob.glob(os.path.join(corpus_dir, '*.json'))):
        rec = load_json(fn)
        for ids in rec.get('id_lists', []):
            io, orig = impl_tree(tg33, ids)
            mo = lib.run_model(env33 + ['tree ' + ' '.join(map(str, ids))])[-1]
            ctx.count(('corpus', tuple(ids)))
            ctx.dist['corpus'] += 1
            ctx.compare({'env': 'v33', 'ids': ids, 'corpus': os.path.basename(fn)}, io, mo, kind='template-tree',
                        holds=lambda: orig is None or orig == ids)

    # ---- (1) exhaustive Table D ---------------------------------------------------
    if ctx.quick:
        sel = [(v, p) for v, p in wmo if v in (13, 33, 41)] or wmo[:2]
        sel_local = local[:1]
        # ... and the local tables that RE-DEFINE elements of the master Table B (the override must also be seen through the
        # master's own sequences)
        b_master = set(load_json(os.path.join(dict(wmo).get(33) or wmo[-1][1], 'TableB.json')))
        for t in local[1:]:
            try:
                if b_master & set(load_json(os.path.join(t[3], 'TableB.json'))) and len(sel_local) < 3:
                    sel_local.append(t)
            except Exception:
                pass
    else:
        sel, sel_local = wmo, local
    jobs = []
    for v, p in sel:
        b = load_json(os.path.join(p, 'TableB.json'))
        d = load_json(os.path.join(p, 'TableD.json'))
        jobs.append(('wmo-%d' % v, [b], [d], dict(master_table_version=v)))
    base_for_local = [v for v, _ in wmo if v in ((33,) if ctx.quick else (13, 33))] or [wmo[-1][0]]
    for c, s, lv, p in sel_local:
        for v in base_for_local:
            pw = dict(wmo)[v]
            b = [load_json(os.path.join(pw, 'TableB.json')), load_json(os.path.join(p, 'TableB.json'))]
            d = [load_json(os.path.join(pw, 'TableD.json')), load_json(os.path.join(p, 'TableD.json'))]
            jobs.append(('wmo-%d+local-%d_%d-%d' % (v, c, s, lv), b, d,
                         dict(master_table_version=v, originating_centre=c, originating_subcentre=s,
                              local_table_version=lv)))

    def model_job(job):
        tag, b, d, kw = job
        env_lines = export_env(b, d)
        d_int = int_d_files(d)
        seqs = sorted(set().union(*[set(x) for x in d_int]))
        lines = env_lines + ['loadcheck'] + ['expand %d' % s for s in seqs]
        return env_lines, seqs, lib.run_model(lines)
    with ThreadPoolExecutor(max_workers=12) as ex:
        mres = list(ex.map(model_job, jobs))
    total_undef = 0
    for (tag, b, d, kw), (env_lines, seqs, mouts) in zip(jobs, mres):
        n_env = len(env_lines)
        tg = safe_tg(ctx, tag, mouts[n_env].split(' factors_ok')[0], **kw)
        if tg is None:
            continue
        key = show_key(tg.key.wmo_tables_sn, tg.key.local_tables_sn)
        ctx.dist['table-environments'] += 1
        d_int = int_d_files(d)
        b_m = merged(b)
        n_env = len(env_lines)
        ctx.count(('load', tag))
        ctx.compare({'env': tag, 'cmd': 'loadcheck'}, 'ok factors_ok 1', mouts[n_env], kind='tableD-load',
                    holds=lambda: True)
        for s, mo in zip(seqs, mouts[n_env + 1:]):
            with lib.time_limit(30):
                io, holds = impl_expand(tg, s, d_int, b_m)
            ctx.count((tag, s, io[:40]))
            ctx.dist['tableD-entries'] += 1
            if ' undef 1' in io:
                total_undef += 1
                ctx.dist['tableD-entries-reaching-a-placeholder'] += 1
            ctx.compare({'env': tag, 'seq': s, 'key': key}, io, mo, kind='tableD-expand', holds=lambda: holds)
            if io == mo and not holds:
                ctx.violation({'kind': 'tableD-expand-predicate', 'env': tag, 'seq': s, 'impl': io[:300]},
                              'sequence %d of %s: flat_member_ids differs from the direct expansion of the table file, '
                              'or an element lost its Table B attributes' % (s, tag))
        ctx.sample({'env': tag, 'seq': seqs[len(seqs) // 2], 'impl/model': mouts[n_env + 1 + len(seqs) // 2][:140]}, limit=3)
    ctx.exhaustive = not ctx.quick
    ctx.extra['tableD_exhaustive'] = ('every entry of %d table environments (%s)' % (
        len(jobs), 'all bundled WMO versions and local tables' if not ctx.quick else 'quick selection'))

    # ---- (2) random lists ----------------------------------------------------------
    run_random_lists(ctx, 'v33', [b33], [d33], tg33, env33, ctx.n(500, 12000), ctx.n(400, 8000))
    vlow = [(v, p) for v, p in wmo if v < 19]
    if vlow:
        v, p = vlow[-1]
        bl, dl = load_json(os.path.join(p, 'TableB.json')), load_json(os.path.join(p, 'TableD.json'))
        envl = export_env([bl], [dl])
        tgl = safe_tg(ctx, 'v%d' % v, lib.run_model(envl + ['loadcheck'])[-1].split(' factors_ok')[0], master_table_version=v)
        if tgl is not None:
            run_random_lists(ctx, 'v%d' % v, [bl], [dl], tgl, envl, ctx.n(100, 3000), ctx.n(100, 2000))

    # ---- (3) generated tables --------------------------------------------------------
    run_synthetic_tables(ctx, ctx.n(25, 400))
    run_message_templates(ctx)

    # ---- (4) version selection ---------------------------------------------------------
    run_version_selection(ctx, wmo, local)

    # ---- (5) UnknownDescriptor on real decodes --------------------------------------------
    run_unknown_decodes(ctx, merged([b33]), ctx.n(40, 600))

    # ---- extraction cross-check -----------------------------------------------------------
    rng = ctx.rng
    p = Pools(merged([b33]), set(), rng)
    items = []
    small = []
    for _ in range(ctx.n(20, 100)):
        ids = gen_wf(p, rng.randrange(1, 12), 0, 3, 6) if rng.random() < 0.7 else gen_ill(p, 2, 5)[1][:12]
        ids = [i if i < 300000 else 399999 for i in ids]
        small.append(ids)
    used = sorted({i for ids in small for i in ids if i < 100000} | {31001})
    bsmall = {('%06d' % i): b33['%06d' % i] for i in used if ('%06d' % i) in b33}
    envs = export_env([bsmall], [{}])
    outs = lib.run_model(envs + ['tree ' + ' '.join(map(str, ids)) for ids in small])[len(envs):]

    def coq_elem(i, f):
        return '(mkElem %d%%N [%s] (%d)%%Z (%d)%%Z (%d)%%Z)' % (
            i, ';'.join('%d%%N' % c for c in f[1].encode('utf-8')), f[2], f[3], f[4])
    tb_term = '(mk_tabB [%s] [] [])' % ';'.join(coq_elem(int(k), v) for k, v in bsmall.items())
    for ids, out in zip(small, outs):
        idl = '[%s]' % ';'.join('%d%%N' % i for i in ids)
        if out.startswith('ok '):
            orig = out.split(' | ')[1]
            exp = '[%s]' % ';'.join('%s%%N' % x for x in orig.split(',')) if orig != '-' else '[]'
            items.append(('match template_from_ids TB [] %s with Ok t => Some (original_ids t) | Err _ => None end' % idl,
                          'Some %s' % exp))
        else:
            code = int(out.split(' ')[1])
            items.append(('match template_from_ids TB [] %s with Ok _ => 0%%N | Err e => err_code e end' % idl,
                          '%d%%N' % code))
    header = 'From PBK Require Import Base Descr Template.\nDefinition TB := %s.' % tb_term
    nchk, err = lib.vm_cross_check('C14', header, items)
    ctx.extra['extraction_cross_check_vm_compute'] = nchk
    if err:
        ctx.violation({'kind': 'extraction-cross-check', 'error': err, 'no_failing_input': True,
                       'broken': 'OCaml extraction of Template.v disagrees with vm_compute'})
    ctx.extra['tableD_entries_reaching_placeholders'] = total_undef
    if tmp33:
        shutil.rmtree(tmp33, ignore_errors=True)
    ctx.assumptions = [
        'the directory listing given to the model is the one os.listdir/os.path.isdir showed at the start of the run',
        'Table B/D JSON files are exported by the harness (int() of keys and member ids, unit as UTF-8 bytes); names and CREX '
        'columns are not part of the model',
        'cyclic Table D definitions: Python builds a cyclic object graph, the model runs out of fuel (not compared)',
        'no extra (in-stream, NCEP) table entries: _fix_ncep_descriptors is outside this property (C20)',
    ]


def replay(ctx, rec):
    case = rec.get('case', rec)
    wmo, local = version_dirs()
    out = {}
    if 'ids' in case and 'b' not in case:
        env = case.get('env', 'v33')
        v = int(env[1:]) if env[1:].isdigit() else 33
        p = dict(wmo)[v]
        b, d = load_json(os.path.join(p, 'TableB.json')), load_json(os.path.join(p, 'TableD.json'))
        tg = get_tg(master_table_version=v)
        io, orig = impl_tree(tg, case['ids'])
        mo = lib.run_model(export_env([b], [d]) + ['tree ' + ' '.join(map(str, case['ids']))])[-1]
        out = {'impl': io, 'model': mo, 'agree': io == mo}
        if io != mo:
            ctx.violation({'kind': rec.get('kind', 'replay'), 'case': case, 'impl': io, 'model': mo})
    else:
        out = {'note': 'replay by re-running the check with the recorded seed (VERIF_SEED=%s)' % rec.get('seed')}
    return out
