"""C01 — decoding yields exactly the values FM-94 assigns to the bit stream."""
import json
import os

import lib
import bufrlib as B
import pipeline as P

LEVEL = 'proof'


def classify_mismatch(detail):
    """Turn a decode mismatch into a record specific enough for known_findings matching."""
    rec = {'kind': 'C01-decode-mismatch', 'detail': detail}
    if 'ulp=1 ' in detail + ' ' and 'scale=-' in detail:
        rec = {'kind': 'C01-decimal-1ulp-negative-scale', 'detail': detail}
    return rec


def units_spelling_probe(ctx):
    """D15: master tables >= 35 spell the units 'Code table' / 'Flag table'; the
    comparison in coder.py is with the upper-case spelling, so code/flag elements
    take the numeric path and 201YYY changes their width.  FM-94: operators do not
    apply to code or flag tables.  Probe: same bits, template [201129, 020003,
    201000, 002001], decoded under version 33 and under version 36."""
    import json as _j
    tables = os.path.join(lib.REPO, 'pybufrkit', 'tables', '0', '0_0')
    hit = None
    for v in (36, 38, 41):
        p = os.path.join(tables, str(v), 'TableB.json')
        if not os.path.exists(p):
            continue
        tb = _j.load(open(p))
        unit = tb.get('020003', [None, None])[1]
        ids = [201129, 20003, 201000, 2001]
        # 9-bit code table value 5 then 2-bit value 1, as a v33 message (no width change for code tables)
        try:
            m33 = B.encode_message(ids, [[5, 1]], mtv=33)
            b = bytearray(m33.serialized_bytes)
            # patch master table version (edition 4: octet 14 of section 1 -> index 8+13)
            b[8 + 13] = v
            _, vals, _, _ = B.decode_impl(bytes(b))
            ctx.count(('units-probe', v))
            if vals != [[5, 1]]:
                hit = {'kind': 'C01-units-spelling', 'version': v, 'unit': unit, 'decoded': vals, 'expected': [[5, 1]],
                       'case': {'ids': ids, 'bytes': bytes(b).hex()}}
                ctx.violation(hit, 'code table element widened by 201YYY under master table %d (unit %r)' % (v, unit))
        except Exception as e:
            ctx.violation({'kind': 'C01-units-spelling', 'version': v, 'unit': unit, 'error': lib.err_code(e),
                           'case': {'ids': ids}}, 'units probe raised %r' % e)
    return hit


def narrow_field_cases(ctx, n):
    """Stratum: one- and two-bit fields of every kind (associated field 204001/204002,
    skipped local 206001/206002, numeric elements cut down by 201YYY, 1-bit flag
    tables), several subsets with differing values, compressed and not."""
    import tmplgen
    rng = ctx.rng
    p = tmplgen.pools(33)
    out = []
    for _ in range(n):
        ids = []
        for _ in range(rng.randint(1, 3)):
            k = rng.choice(['assoc', 'skipped', 'cut', 'flag', 'assoc-marker'])
            w = rng.choice([1, 1, 2])
            if k == 'assoc':
                ids += [204000 + w, 31021] + [rng.choice(p.numeric + p.codeflag) for _ in range(rng.randint(1, 2))] + [204000]
            elif k == 'skipped':
                ids += [206000 + w, rng.choice([63255, 48255, 50001])]
            elif k == 'cut':
                e = rng.choice([i for i in p.numeric if 3 <= p.b[i][4] <= 20])
                ids += [201000 + 128 - (p.b[e][4] - w), e, 201000]
            elif k == 'flag':
                ids += [rng.choice([i for i in p.codeflag if p.b[i][4] <= 2] or [31031])]
            else:
                ids += [204000 + w, 31021, rng.choice(p.numeric), 204000]
        out.append({'ids': ids, 'version': 33, 'edition': 4, 'nsub': rng.choice([2, 3, 4, 6]),
                    'compressed': rng.random() < 0.7, 'forced': '-', 'seed': rng.randrange(1, 2 ** 32),
                    'maxrep': 3, 'features': {'stratum-narrow-fields': 1}, 'shared': False})
        out[-1]['shared'] = out[-1]['compressed']
    return out


def widened_allones_cases(ctx, n):
    """Stratum: a numeric element whose field is WIDENED (201YYY with YYY > 128, 207YYY) and whose raw value in one subset is
    the all-ones pattern of its TABLE B width: an ordinary value of the wider field, not missing. Several subsets with
    differing values, mostly compressed."""
    import tmplgen
    rng = ctx.rng
    p = tmplgen.pools(33)
    els = [i for i in p.numeric if 3 <= p.b[i][4] <= 20 and 0 <= p.b[i][2] <= 3 and i // 1000 != 31]
    out = []
    for _ in range(n):
        e = rng.choice(els)
        on = rng.choice([201129, 201130, 201132, 201136, 207001, 207002])
        out.append({'ids': [1001, on, e, on // 1000 * 1000, e], 'version': 33, 'edition': 4, 'nsub': rng.choice([2, 3, 4]),
                    'compressed': rng.random() < 0.8, 'forced': '-', 'seed': rng.randrange(1, 2 ** 32), 'maxrep': 3,
                    'features': {'stratum-tableB-allones-in-widened-field': 1}, 'shared': False,
                    'probe': 'tableB-allones-in-widened-field'})
    return out


def cross_version_marker_cases(ctx, n):
    """Stratum: the same marker-operator template over an element whose Table B entry DIFFERS between two master table
    versions (scale / reference / width), decoded under both versions in this one process, in both orders: what a marker
    (or any other pseudo descriptor) takes from its element belongs to the message's table group."""
    import tmplgen
    rng = ctx.rng
    vs = [13, 14, 15, 16, 17, 19, 25, 28, 30, 33]
    pools = {}
    for v in vs:
        try:
            pools[v] = tmplgen.pools(v)
        except Exception:
            pass
    diffs = []
    vl = sorted(pools)
    for i, a in enumerate(vl):
        for b2 in vl[i + 1:]:
            for e in pools[a].numeric:
                if e in pools[b2].b and e // 1000 != 31 and pools[a].b[e][2:5] != pools[b2].b[e][2:5] \
                        and 2 <= pools[a].b[e][4] <= 30 and 2 <= pools[b2].b[e][4] <= 30:
                    diffs.append((e, a, b2))
    out = []
    for _ in range(min(n, len(diffs))):
        e, a, b2 = rng.choice(diffs)
        op = rng.choice([223, 224, 225, 232])
        sig = [8023] if op == 224 else [8024] if op == 225 else []
        ids = [e, op * 1000, 236000, 101001, 31031] + sig + [op * 1000 + 255]
        order = [a, b2] if rng.random() < 0.5 else [b2, a]
        for v in order + [order[0]]:
            out.append({'ids': ids, 'version': v, 'edition': 4, 'nsub': rng.choice([1, 2]), 'compressed': rng.random() < 0.3,
                        'forced': '31031=0', 'seed': rng.randrange(1, 2 ** 32), 'maxrep': 3,
                        'features': {'stratum-marker-across-table-versions': 1}, 'shared': False})
            out[-1]['shared'] = out[-1]['compressed']
    return out


def model_message_pass(ctx, cases):
    """Decoding must not lean on the implementation's own encoder: where that encoder refuses the generated values, or writes
    other bits than the extracted model encoder (proved: Spec.layout), the MODEL's bits are framed by hand and given to the
    decoder: the values must be the generated ones."""
    todo = []
    for c in cases:
        if not c.get('toks') or not c.get('gen', '').startswith('ok') or not c.get('model_enc', '').startswith('ok '):
            continue
        ie = c.get('impl_enc')
        same = False
        if ie and ie[0] == 'ok':
            same, _ = P.compare_encode(c)
        if not same:
            todo.append(c)
    for c in todo[:400]:
        mm = P.model_message(c)
        if mm is None:
            continue
        b, n = mm
        case = {'ids': c['ids'], 'seed': c['seed'], 'forced': c['forced'], 'nsub': c['nsub'], 'version': c['version'],
                'edition': 4, 'compressed': c['compressed'], 'shared': c['shared'], 'bytes': b.hex()}
        ctx.count(('model-message', tuple(c['ids']), c['seed']), True)
        ctx.dist['model-encoded message decoded (implementation encoder refused or wrote other bits)'] += 1
        c2 = dict(c, impl_enc=('ok', b[-4 - ((n + 7) // 8):-4].hex(), 8 * ((n + 7) // 8), b))
        c2['impl_dec'] = P.impl_decode(c2)
        if not P.roundtrip_holds(c2):
            d = c2['impl_dec']
            if d and d[0] == 'err' and d[1] == 9 and P.wide_field_cause(c2):
                ctx.violation({'kind': 'C01-roundtrip', 'case': case, 'cause': 'field-wider-than-64-bits'},
                              'model-encoded message: field wider than 64 bits, ids=%s' % c['ids'])
                continue
            dq = 'impl decode: %r' % (d[:2] if d and d[0] == 'err' else 'values differ',)
            ctx.violation({'kind': 'C01-decode-of-canonical-bits', 'case': case, 'detail': dq},
                          'the canonical bit stream of the generated values (model encoder) does not decode to them: ids=%s %s'
                          % (c['ids'], dq))


def refval_zero_cases(ctx, n):
    """Stratum: a new reference value (203YYY) that is exactly 0 for an element whose Table B reference is not 0, also as a
    re-definition of an earlier non-zero one: 0 is a value like any other (mostly compressed, where the value is a column)."""
    import tmplgen
    rng = ctx.rng
    p = tmplgen.pools(33)
    els = [i for i in p.numeric if p.b[i][3] != 0 and 4 <= p.b[i][4] <= 24 and 0 <= p.b[i][2] <= 3 and i // 1000 != 31]
    out = []
    for k in range(n):
        e = rng.choice(els)
        y = rng.choice([8, 12, 16])
        ids = [203000 + y, e, 203255, e, 203000, e] if k % 2 == 0 else [203000 + y, e, 203255, e, 203000 + y, e, 203255, e, 203000]
        out.append({'ids': ids, 'version': 33, 'edition': 4, 'nsub': rng.choice([1, 2, 3]), 'compressed': rng.random() < 0.7,
                    'forced': '-', 'seed': rng.randrange(1, 2 ** 32), 'maxrep': 3,
                    'features': {'stratum-new-reference-value-zero': 1}, 'shared': False, 'probe': 'refval-zero'})
        out[-1]['shared'] = out[-1]['compressed']
    return out


def skipped_local_width_cases(ctx, n):
    """Stratum: the same local descriptor skipped by 206YYY with two different widths in one message; a value of the later
    (other-width) field equals the all-ones pattern of the EARLIER width. Mostly compressed with differing values."""
    rng = ctx.rng
    out = []
    for k in range(n):
        L = rng.choice([63255, 48255, 50001, 21192])
        w0, w1 = rng.sample([3, 4, 5, 8, 12], 2)
        out.append({'ids': [206000 + w0, L, 1001, 206000 + w1, L], 'version': 33, 'edition': 4, 'nsub': rng.choice([2, 3, 4]),
                    'compressed': rng.random() < 0.8, 'forced': '-', 'seed': rng.randrange(1, 2 ** 32), 'maxrep': 3,
                    'features': {'stratum-skipped-local-two-widths': 1}, 'shared': False, 'probe': 'skipped-local-widths'})
    return out


def assoc_width_cases(ctx, n):
    """Stratum: the same element carries an associated field under two different 204YYY widths in one message; a value of the
    later (other-width) field equals the all-ones pattern of the earlier width. Mostly compressed with differing values."""
    rng = ctx.rng
    out = []
    for k in range(n):
        e = rng.choice([12001, 10004, 11001, 7001, 13003])
        w0, w1 = rng.sample([2, 3, 4, 6, 8], 2)
        out.append({'ids': [204000 + w0, 31021, e, 204000, 204000 + w1, 31021, e, 204000], 'version': 33, 'edition': 4,
                    'nsub': rng.choice([2, 3, 4]), 'compressed': rng.random() < 0.8, 'forced': '-',
                    'seed': rng.randrange(1, 2 ** 32), 'maxrep': 3, 'features': {'stratum-associated-field-two-widths': 1},
                    'shared': False, 'probe': 'assoc-two-widths'})
    return out


def text_inside_208_cases(ctx, n):
    """Stratum: a 205YYY character field INSIDE the scope of a 208ZZZ operator with another width (205 is not an element of
    Table B: 208 does not resize it), followed by a string element (resized) and a numeric one, then the same after 208000."""
    import tmplgen
    rng = ctx.rng
    p = tmplgen.pools(33)
    strs = [i for i in p.string if p.b[i][4] <= 160] if hasattr(p, 'string') else [1015, 1019, 1063]
    out = []
    for k in range(n):
        y, z = rng.sample([1, 2, 3, 4, 5, 6, 8, 12], 2)
        s1 = rng.choice(strs or [1015])
        e = rng.choice([12101, 10004, 4001, 7001])
        ids = [208000 + y, 205000 + z, s1, e, 208000, 205000 + z, s1] if k % 3 else [208000 + y, s1, 205000 + z, e, 205000 + y, 208000, e]
        out.append({'ids': ids, 'version': 33, 'edition': 4, 'nsub': rng.choice([1, 2, 3]), 'compressed': rng.random() < 0.5,
                    'forced': '-', 'seed': rng.randrange(1, 2 ** 32), 'maxrep': 3,
                    'features': {'stratum-205-inside-208-scope': 1}, 'shared': False})
        out[-1]['shared'] = out[-1]['compressed']
    return out


def apply_probe(c):
    """Values of a probe case: a function of the case record only (replays rebuild them)."""
    if c.get('probe') == 'assoc-two-widths' and c.get('val_toks'):
        w0, w1 = c['ids'][0] % 1000, c['ids'][4] % 1000
        for j, toks in enumerate(c['val_toks']):
            if len(toks) != 6:
                continue
            a = j % (2 ** w0 - 1)
            b2 = (2 ** w0 - 1) % (2 ** w1 - 1) if j == 0 else (j + 2) % (2 ** w1 - 1)
            toks[1], toks[4] = 'i%d' % a, 'i%d' % b2
            c['py_vals'][j][1], c['py_vals'][j][4] = a, b2
        return
    if c.get('probe') == 'skipped-local-widths' and c.get('val_toks'):
        w0, w1 = c['ids'][0] % 1000, c['ids'][3] % 1000
        for j, toks in enumerate(c['val_toks']):
            if len(toks) != 3:
                continue
            a = j % (2 ** w0 - 1)
            b2 = (2 ** w0 - 1) % (2 ** w1 - 1) if j == 1 else (j + 1) % (2 ** w1 - 1)
            toks[0], toks[2] = 'i%d' % a, 'i%d' % b2
            c['py_vals'][j][0], c['py_vals'][j][2] = a, b2
        return
    if c.get('probe') == 'refval-zero' and c.get('val_toks'):
        import tmplgen
        p = tmplgen.pools(c.get('version', 33))
        e = c['ids'][1]
        sc, r0, w = p.b[e][2], p.b[e][3], p.b[e][4]
        tok = lambda raw, ref: ('i%d' % (raw + ref)) if sc == 0 else 'd%d:%d' % (raw + ref, sc)
        two = len(c['ids']) > 6
        for j, toks in enumerate(c['val_toks']):
            raw = (j + 5) % (2 ** w - 1)
            if two:
                # [ref1, use under ref1, ref2 = 0, use under 0]
                new = ['i7', tok(raw, 7), 'i0', tok(raw, 0)]
            else:
                # [ref = 0, use under 0, use after cancellation (table reference)]
                new = ['i0', tok(raw, 0), tok(raw, r0)]
            if len(toks) == len(new):
                toks[:] = new
                c['py_vals'][j][:] = [B.model_value_to_python(t) for t in new]
        return
    if c.get('probe') != 'tableB-allones-in-widened-field' or not c.get('val_toks'):
        return
    import tmplgen
    p = tmplgen.pools(c.get('version', 33))
    on, e = c['ids'][1], c['ids'][2]
    w0, s0, r0 = p.b[e][4], p.b[e][2], p.b[e][3]
    if on // 1000 == 201:
        s, r = s0, r0
    else:
        y = on % 1000
        s, r = s0 + y, r0 * 10 ** y
    for j, toks in enumerate(c['val_toks']):
        raw = 2 ** w0 - 1 if j == 1 else (j + 1) % (2 ** w0 - 1)
        m = raw + r
        toks[1] = ('i%d' % m) if s == 0 else 'd%d:%d' % (m, s)
        c['py_vals'][j][1] = B.model_value_to_python(toks[1])


def run(ctx):
    ctx.rule = ('templates drawn from a grammar over the real Table B/D (sequences, nested fixed/delayed replication, operators '
                '201-208, 221, bitmap constructs 222-225/232/235-237) x values from the model-side generator (0, 1, max-1, '
                'missing, 1-bit fields, random) x 1..3 subsets x editions 2-4 x several master table versions; each message '
                'is encoded by the implementation, then decoded by the implementation and by the extracted model '
                '(decode_uncompressed): values (a float must be the double nearest to the model\'s exact decimal), '
                'descriptor labels and attribute links must agree, and the decoded values must equal the generated ones '
                '(round trip predicate). non-trivial = the template contains an operator or a replication.')
    n = ctx.n(500, 12000)
    cases = P.build_cases(ctx, n, gen_kwargs=dict(size=7), nsub_choices=(1, 1, 2, 3), compressed=(False, False, True),
                          versions=(33, 33, 33, 25, 19, 13, 28), editions=(4, 4, 3, 2))
    cases += narrow_field_cases(ctx, ctx.n(60, 1500))
    # fields wider than 64 bits (201YYY adds up to 127 bits): D26
    rng = ctx.rng
    for w in (65, 70, 100):
        cases.append({'ids': [1001, 201000 + 128 + (w - 15), 7001, 201000, 1002], 'version': 33, 'edition': 4, 'nsub': 1,
                      'compressed': False, 'forced': '-', 'seed': rng.randrange(1, 2 ** 32), 'maxrep': 3,
                      'features': {'field-wider-than-64-bits': 1}, 'shared': False})
    cases += widened_allones_cases(ctx, ctx.n(24, 400))
    cases += cross_version_marker_cases(ctx, ctx.n(8, 120))
    cases += refval_zero_cases(ctx, ctx.n(12, 200))
    cases += skipped_local_width_cases(ctx, ctx.n(12, 200))
    cases += assoc_width_cases(ctx, ctx.n(12, 200))
    cases += text_inside_208_cases(ctx, ctx.n(12, 200))
    P.attach_templates(cases)
    P.run_gen(cases)
    for c in cases:
        apply_probe(c)
    P.run_encode(cases)
    P.run_decode(cases)
    n_ok = 0
    for c in cases:
        if not c.get('toks') or not c.get('gen', '').startswith('ok'):
            ctx.dist['generator-rejected'] += 1
            continue
        if c['impl_enc'][0] != 'ok':
            ctx.dist['encoder-refused'] += 1
            continue
        for f in c['features']:
            ctx.dist[f] += 1
        ctx.dist['edition-%d' % c['edition']] += 1
        ctx.dist['version-%d' % c['version']] += 1
        nontriv = any(i >= 100000 for i in c['ids'])
        ctx.count((tuple(c['ids']), c['seed'], c['edition']), nontriv)
        case = {'ids': c['ids'], 'seed': c['seed'], 'forced': c['forced'], 'nsub': c['nsub'],
                'version': c['version'], 'edition': c['edition'], 'compressed': c['compressed'], 'shared': c['shared']}
        if c.get('probe'):
            case['probe'] = c['probe']
        eq, detail = P.compare_decode(c)
        if not eq:
            rec = classify_mismatch(detail)
            rec['case'] = case
            rt = P.roundtrip_holds(c)
            rec['property_predicate_holds_on_impl'] = rt
            if rt and rec['kind'] == 'C01-decode-mismatch':
                rec['no_failing_input'] = True
                rec['broken'] = 'correspondence Decode.decode_uncompressed / Decoder.process'
            ctx.violation(rec, 'ids=%s %s' % (c['ids'], detail[:160]))
        else:
            n_ok += 1
            if not P.roundtrip_holds(c):
                # model and implementation agree but the decoded values are not the generated ones
                rec = {'kind': 'C01-roundtrip', 'case': case}
                if c.get('impl_dec') and c['impl_dec'][0] == 'err' and c['impl_dec'][1] == 9 and P.wide_field_cause(c):
                    rec['cause'] = 'field-wider-than-64-bits'
                ctx.violation(rec, 'decode(encode(v)) != canon(v) for ids=%s' % c['ids'])
        if nontriv:
            ctx.sample({'ids': c['ids'], 'nsub': c['nsub'], 'values_subset0': c['val_toks'][0][:10],
                        'model_decode': c.get('model_dec', '')[:120]}, limit=3)
    model_message_pass(ctx, cases)
    ctx.extra['agreeing_cases'] = n_ok
    rej = ctx.dist['generator-rejected']
    if rej > 0.4 * len(cases):
        ctx.violation({'kind': 'harness-generator', 'no_failing_input': True,
                       'broken': 'generator rejected %d of %d cases' % (rej, len(cases))})
    units_spelling_probe(ctx)
    ctx.partial = ['compressed messages: added with DecodeC (Column.v); decode_encode (decoder inverts encoder) pending',
                   'IEEE-754: a decoded float is compared with the nearest double of the exact decimal, not proved']
    ctx.assumptions = ['FM-94 reading = Walk.v + Decode.v (shared walker; see DESIGN 6/C01 "Not shown")']


def replay(ctx, rec):
    c = rec['case']
    if rec.get('kind') == 'C01-decode-of-canonical-bits' or (rec.get('kind') == 'C01-roundtrip' and 'bytes' in c and 'seed' in c):
        cases = [{'ids': c['ids'], 'version': c.get('version', 33), 'edition': 4, 'nsub': c['nsub'],
                  'compressed': c.get('compressed', False), 'forced': c['forced'], 'seed': c['seed'], 'maxrep': 3, 'features': {},
                  'shared': c.get('shared', False), 'probe': c.get('probe')}]
        P.attach_templates(cases); P.run_gen(cases); apply_probe(cases[0]); P.run_encode(cases)
        cases[0]['impl_enc'] = ('err', 0)            # force the model-message path
        model_message_pass(ctx, cases)
        return {'violations': len(ctx.violations)}
    if 'bytes' in c:
        _, vals, _, _ = B.decode_impl(bytes.fromhex(c['bytes']))
        return {'decoded': vals}
    cases = [{'ids': c['ids'], 'version': c.get('version', 33), 'edition': c.get('edition', 4), 'nsub': c['nsub'],
              'compressed': c.get('compressed', False), 'forced': c['forced'], 'seed': c['seed'], 'maxrep': 3, 'features': {},
              'shared': c.get('shared', False), 'probe': c.get('probe')}]
    P.attach_templates(cases); P.run_gen(cases); apply_probe(cases[0]); P.run_encode(cases); P.run_decode(cases)
    eq, detail = P.compare_decode(cases[0])
    if not eq:
        r = classify_mismatch(detail); r['case'] = c
        ctx.violation(r, detail)
    return {'equal': eq, 'detail': detail}
