"""C20 — in-stream table definitions govern the messages that follow them."""
import json
import os
import subprocess
import sys
import tempfile
from concurrent.futures import ThreadPoolExecutor

import lib
import bufrlib as B

LEVEL = 'proof'

DEF_IDS = [103000, 31001, 1, 2, 3, 101000, 31001, 300004, 105000, 31001, 300003, 205064, 101000, 31001, 30]


def bits_of(v, n):
    return bin(v)[2:].zfill(n)[-n:] if n else ''


def craft_message(ids, data_bits, n_subsets=1, category=0, mtv=13, edition=3, compressed=False, centre=7, ltv=0):
    """a whole edition-3 message around hand-made data bits"""
    pad = -len(data_bits) % 8
    data = bytes(int((data_bits + '0' * pad)[i:i + 8], 2) for i in range(0, len(data_bits) + pad, 8))
    sec1 = bytes([0, 0, 18, 0, 0, centre, 0, 0, category, 0, mtv, ltv, 20, 1, 1, 0, 0, 0])
    d = b''.join(bytes([((i // 100000) << 6) | ((i // 1000) % 100), i % 1000]) for i in ids)
    l3 = 7 + len(d)
    sec3 = l3.to_bytes(3, 'big') + bytes([0]) + n_subsets.to_bytes(2, 'big') + bytes([0x80 | (0x40 if compressed else 0)]) + d
    if l3 % 2:
        sec3 = (l3 + 1).to_bytes(3, 'big') + sec3[3:] + b'\0'
    l4 = 4 + len(data)
    sec4 = l4.to_bytes(3, 'big') + b'\0' + data
    if l4 % 2:
        sec4 = (l4 + 1).to_bytes(3, 'big') + sec4[3:] + b'\0'
    body = sec1 + sec3 + sec4 + b'7777'
    total = 8 + len(body)
    return b'BUFR' + total.to_bytes(3, 'big') + bytes([edition]) + body


def fmt_def_values(b_defs, d_defs):
    """the value list of a definition subset (strings), as the NCEP layout wants them"""
    vals = [1, 'XYZ', 'TABLE A ENTRY'.ljust(32), ''.ljust(32)]
    vals.append(len(b_defs))
    for e in b_defs:
        k = '%06d' % e['id']
        vals += [k[0], k[1:3], k[3:], e['name'][:32].ljust(32), e['name'][32:64].ljust(32), e['unit'].ljust(24),
                 '+' if e['scale'] >= 0 else '-', str(abs(e['scale'])).ljust(3),
                 '+' if e['ref'] >= 0 else '-', str(abs(e['ref'])).ljust(10), str(e['nbits']).ljust(3)]
    vals.append(len(d_defs))
    for s in d_defs:
        k = '%06d' % s['id']
        vals += [k[0], k[1:3], k[3:], s['name'].ljust(64), len(s['members'])] + ['%06d' % m for m in s['members']]
    return vals


def def_message(b_defs, d_defs):
    from pybufrkit.encoder import Encoder
    vals = fmt_def_values(b_defs, d_defs)
    msg = [["BUFR", 0, 3], [0, 0, 3, 7, 0, False, "0000000", 11, 1, 13, 0, 0, 0, 0, 0, 0, 0],
           [0, "00000000", 1, True, False, "000000", DEF_IDS], [0, "00000000", [vals]], ["7777"]]
    return Encoder().process(json.loads(json.dumps(msg)), wire_template_data=False).serialized_bytes, vals


def random_history(rng, k, reuse=None, all_old=False):
    """definitions + a data message over them + the oracle (expected decoded values).
    reuse: an earlier history of the same stream: some of its element / sequence ids are defined AGAIN here,
    with other attributes / members (the later definition governs what follows it).
    all_old: EVERY id defined here was already defined by [reuse] (a definition message that brings no new id, only new
    content for known ones)"""
    n_el = rng.randint(1, 5)
    used = set()
    b_defs = []
    old_el = [e['id'] for e in reuse['b_defs'] if e['id'] != 12001] if reuse else []
    old_seq = [q['id'] for q in reuse['d_defs'] if q['id'] not in reuse['reponly']] if reuse else []
    all_old = bool(all_old and old_el)
    if all_old:
        n_el = min(n_el, len(old_el))
    for _ in range(n_el):
        while True:
            id_ = rng.randrange(48, 64) * 1000 + rng.randrange(1, 256)
            if rng.random() < 0.12:
                # an id that the bundled LOCAL tables of centre 98 (versions 1, 101) also define: the in-stream definition
                # governs there too (it is merged last)
                id_ = rng.choice([49193, 49194, 55003, 62190, 62191, 63190])
            if old_el and (all_old or rng.random() < 0.7):
                id_ = rng.choice(old_el)
            if id_ not in used:
                used.add(id_)
                break
        kind = rng.choice(['num', 'num', 'num', 'code', 'str'])
        if kind == 'str':
            nb = 8 * rng.randint(1, 8)
            e = dict(id=id_, name='NEW STRING %d' % id_, unit='CCITT IA5', scale=0, ref=0, nbits=nb, kind='str')
        elif kind == 'code':
            e = dict(id=id_, name='NEW CODE %d' % id_, unit='CODE TABLE', scale=0, ref=0, nbits=rng.randint(2, 12), kind='code')
        else:
            e = dict(id=id_, name='NEW ELEMENT %d WITH A LONGER NAME THAT SPILLS' % id_, unit=rng.choice(['K', 'M/S', 'PA', 'NUMERIC']),
                     scale=rng.choice([0, 0, 1, 2, 3, -1, -2]), ref=rng.choice([0, 0, -100, -1024, 250, -5000000]),
                     nbits=rng.randint(2, 31), kind='num')
        b_defs.append(e)
    # a standard element redefined (the definition governs), sometimes
    if rng.random() < 0.3 and (not all_old or any(e['id'] == 12001 for e in reuse['b_defs'])):
        b_defs.append(dict(id=12001, name='TEMPERATURE REDEFINED', unit='K', scale=2, ref=-27315, nbits=20, kind='num'))
    d_defs = []
    for _ in range(rng.randint(0, 2)):
        sid = 300000 + rng.randrange(48, 64) * 1000 + rng.randrange(1, 256)
        if all_old and not old_seq:
            break
        if old_seq and (all_old or rng.random() < 0.6):
            sid = rng.choice(old_seq)
        if any(q['id'] == sid for q in d_defs):
            continue
        members = [rng.choice(b_defs)['id'] for _ in range(rng.randint(1, 3))]
        if rng.random() < 0.4:
            members = [101000 + rng.choice([2, 3])] + members[:1] + members[1:]
        if d_defs and rng.random() < 0.4:
            members.append(d_defs[-1]['id'])
            if rng.random() < 0.5:
                # the SAME sub-sequence a second time in one member list (every occurrence is a member)
                members += [rng.choice(b_defs)['id'], d_defs[-1]['id']]
        d_defs.append(dict(id=sid, name='NEW SEQUENCE %d' % sid, members=members))
    by_id = {e['id']: e for e in b_defs}
    seqs = {s['id']: s for s in d_defs}
    # NCEP-style replication-only sequences (e.g. DRP8BIT 360002 = 101000 031001): the descriptor to replicate
    # is the one that FOLLOWS the sequence in the template (tables._fix_ncep_descriptors)
    reponly = {}
    if rng.random() < 0.45 and not all_old:
        for _ in range(rng.randint(1, 2)):
            rid = 360000 + rng.randrange(1, 256)
            if rid in seqs or rid in reponly:
                continue
            if rng.random() < 0.6:
                reponly[rid] = ('d', [101000, 31001])
            else:
                c = rng.choice([2, 3])
                reponly[rid] = ('f', [101000 + c])
            d_defs.append(dict(id=rid, name='REPLICATION ONLY %d' % rid, members=reponly[rid][1]))
    # nested NCEP layout: OUTER = .. rid LEVEL .., LEVEL = .. rid' INNER ..: the adopted descriptor is itself a sequence
    # containing a replication-only sequence (the repair has to reach every level)
    nested_top = None
    if reponly and rng.random() < 0.6:
        def new_sid():
            while True:
                sid = 300000 + rng.randrange(48, 60) * 1000 + rng.randrange(1, 256)
                if sid not in seqs and sid not in reponly:
                    return sid
        inner_target = rng.choice(list(by_id) + [q for q in seqs if q not in reponly])
        level = new_sid()
        lm = [rng.choice(list(by_id)), rng.choice(list(reponly)), inner_target] + ([rng.choice(list(by_id))] if rng.random() < 0.5 else [])
        if rng.random() < 0.5:
            lm += [lm[1], rng.choice(list(by_id))]           # the same replication-only sequence twice in one member list
        seqs[level] = dict(id=level, name='NESTED LEVEL %d' % level, members=lm)
        d_defs.append(seqs[level])
        outer = new_sid()
        seqs[outer] = dict(id=outer, name='NESTED OUTER %d' % outer,
                           members=([rng.choice(list(by_id))] if rng.random() < 0.5 else []) + [rng.choice(list(reponly)), level])
        d_defs.append(seqs[outer])
        nested_top = outer
    # the data template: new elements, new sequences, a standard element that is NOT redefined
    units = []
    for _ in range(rng.randint(1, 4)):
        units.append([rng.choice(list(by_id) + list(seqs)) if seqs else rng.choice(list(by_id))])
    if reponly:
        # every replication-only sequence is used, one of them (at least) twice, with differing targets when possible
        uses = list(reponly) + [rng.choice(list(reponly))] + ([rng.choice(list(reponly))] if rng.random() < 0.3 else [])
        rng.shuffle(uses)
        targets = list(by_id) + list(seqs)
        for rid in uses:
            units.insert(rng.randint(0, len(units)), [rid, rng.choice(targets)])
    if nested_top is not None:
        units.insert(rng.randint(0, len(units)), [nested_top] if rng.random() < 0.5 else [rng.choice(list(reponly)), nested_top])
    ids = [i for u in units for i in u]
    ids.append(7001)            # height of station: keeps its standard meaning (15 bits, ref -400, scale 0)
    std = {7001: dict(id=7001, unit='m', scale=0, ref=-400, nbits=15, kind='num'),
           31001: dict(id=31001, unit='Numeric', scale=0, ref=0, nbits=8, kind='num')}

    bits, expect, labels, toks = '', [], [], []

    def elem(e):
        nonlocal bits
        labels.append('%06d' % e['id'])
        if e['kind'] == 'str':
            n = e['nbits'] // 8
            s = bytes(rng.randrange(33, 127) for _ in range(n))
            bits += ''.join(bits_of(c, 8) for c in s)
            expect.append(('y', s))
        else:
            w = e['nbits']
            raw = rng.choice([0, 1, 2 ** w - 2, 2 ** w - 1, rng.randrange(0, 2 ** w)])
            bits += bits_of(raw, w)
            if raw == 2 ** w - 1 and w > 1:
                expect.append(('n',))
            elif e['kind'] == 'code' or e['scale'] == 0:
                expect.append(('i', raw + (0 if e['kind'] == 'code' else e['ref'])))
            else:
                expect.append(('d', raw + e['ref'], e['scale']))

    def tok_elem(e):
        unit = e['unit'].strip()
        return 'e %d %s %d %d %d' % (e['id'], unit.encode().hex() or '-', e['scale'] if e['kind'] != 'str' else 0,
                                     e['ref'] if e['kind'] == 'num' else 0, e['nbits'])

    def toks_list(mem):
        """model template tokens of a member list: FM-94 ownership for 1XXYYY, and the NCEP adoption rule (a
        replication-only sequence replicates the descriptor that FOLLOWS it in the same list), at every level"""
        out, j = [], 0
        while j < len(mem):
            m = mem[j]
            if m in reponly:
                kind, rm = reponly[m]
                body = toks_list([mem[j + 1]])
                if kind == 'f':
                    out.append('f %d ( %s )' % (rm[0], body))
                else:
                    out.append('d 101000 %s ( %s )' % (tok_elem(std[31001]), body))
                j += 2
            elif 100000 <= m < 200000:
                x = (m // 1000) % 100
                out.append('f %d ( %s )' % (m, toks_list(mem[j + 1:j + 1 + x])))
                j += 1 + x
            elif m in seqs:
                out.append('s %d ( %s )' % (m, toks_list(seqs[m]['members'])))
                j += 1
            else:
                out.append(tok_elem(by_id.get(m) or std[m]))
                j += 1
        return ' '.join(out)

    def draw_list(mem):
        nonlocal bits
        j = 0
        while j < len(mem):
            m = mem[j]
            if m in reponly:
                kind, rm = reponly[m]
                if kind == 'f':
                    cnt = rm[0] % 1000
                else:
                    cnt = rng.choice([0, 1, 2, 3])
                    labels.append('031001')
                    bits += bits_of(cnt, 8)
                    expect.append(('i', cnt))
                for _ in range(cnt):
                    draw_list([mem[j + 1]])
                j += 2
            elif 100000 <= m < 200000:
                x = (m // 1000) % 100
                for _ in range(m % 1000):
                    draw_list(mem[j + 1:j + 1 + x])
                j += 1 + x
            elif m in seqs:
                draw_list(seqs[m]['members'])
                j += 1
            else:
                elem(by_id.get(m) or std[m])
                j += 1

    draw_list(ids)
    top_toks = [toks_list(ids)]
    toks = '( ' + ' '.join(top_toks) + ' )'
    return dict(reponly=sorted(reponly), nested=nested_top is not None, k=k, b_defs=b_defs, d_defs=d_defs, ids=ids, bits=bits, expect=expect, labels=labels, toks=toks)


CHILD = r'''
import sys, json
sys.path.insert(0, sys.argv[1])
from pybufrkit.decoder import Decoder, generate_bufr_message
from pybufrkit.tables import TableGroupCacheManager as T
s = open(sys.argv[2], 'rb').read()
out = []
try:
    for m in generate_bufr_message(Decoder(), s, continue_on_error=(len(sys.argv) > 4 and sys.argv[4] == '1')):
        td = m.template_data.value
        fix = None
        try:
            # the template as Table B/D give it (before the NCEP repair) and as the decoder used it (after)
            sys.path.insert(0, sys.argv[3])
            import bufrlib as B
            ids = m.unexpanded_descriptors.value
            tmpl, tg = m.build_template(None, normalize=1)
            class _T: pass
            raw = _T(); raw.members = tg.descriptors_from_ids(*ids)
            fix = {'raw': B.template_tokens(raw), 'fixed': B.show_descs(tmpl.members)}
        except BaseException as e:
            fix = {'err': type(e).__name__ + ': ' + str(e)[:100]}
        out.append({'cat': m.data_category.value, 'fix': fix,
                    'vals': [[v.decode('latin-1') if isinstance(v, bytes) else v for v in vs] for vs in td.decoded_values_all_subsets],
                    'isbytes': [[isinstance(v, bytes) for v in vs] for vs in td.decoded_values_all_subsets],
                    'labels': [[str(d) for d in ds] for ds in td.decoded_descriptors_all_subsets]})
    c = T._TABLE_GROUP_CACHE
    res = {'ok': out, 'b': {k: v[:5] for k, v in c.extra_b_entries.items()}, 'd': {k: v for k, v in c.extra_d_entries.items()}}
except BaseException as e:
    res = {'err': type(e).__name__ + ': ' + str(e)[:200], 'ok': out}
print(json.dumps(res))
'''


def run_child_coe(stream):
    return run_child(stream, coe=True)


def run_child(stream, coe=False):
    with tempfile.NamedTemporaryFile(dir=os.path.join(lib.VERIF, 'replays'), suffix='.bufr', delete=False) as f:
        f.write(stream)
        path = f.name
    try:
        p = subprocess.run([sys.executable, '-c', CHILD, lib.REPO, path, os.path.join(lib.VERIF, 'harness'), '1' if coe else '0'], stdout=subprocess.PIPE, stderr=subprocess.PIPE,
                           text=True, timeout=300, env=dict(os.environ, PYTHONHASHSEED='0'))
        return json.loads(p.stdout.strip().split('\n')[-1]) if p.stdout.strip() else {'err': 'no output: ' + p.stderr[-300:], 'ok': []}
    finally:
        os.remove(path)


def expect_matches(exp, v, isb):
    if exp[0] == 'n':
        return v is None
    if exp[0] == 'i':
        return isinstance(v, int) and v == exp[1]
    if exp[0] == 'd':
        return isinstance(v, float) and v == B.nearest_double(exp[1], exp[2])
    if exp[0] == 'y':
        return isb and v.encode('latin-1') == exp[1]
    return False


def decu_line(h):
    bits = h['bits']
    pad = -len(bits) % 8
    return 'decu 1 %s:%d %s' % (bytes(int((bits + '0' * pad)[i:i + 8], 2) for i in range(0, len(bits) + pad, 8)).hex() or '-',
                                len(bits), h['toks'])


def check_data(ctx, h, dv, do, case):
    """(2) the oracle and (3) the model, for one data message decoded by the implementation"""
    ok = (len(dv['vals']) == 1 and len(dv['vals'][0]) == len(h['expect'])
          and all(expect_matches(e, v, b) for e, v, b in zip(h['expect'], dv['vals'][0], dv['isbytes'][0]))
          and dv['labels'][0] == h['labels'])
    if not ok:
        ctx.violation({'kind': 'C20-definitions-not-governing', 'case': case, 'decoded': str(dv['vals'])[:300],
                       'expected': str(h['expect'])[:300], 'labels': dv['labels']},
                      'data message after the definition message does not decode according to the definitions')
    fx = dv.get('fix') or {}
    if 'raw' in fx:
        # NcepFix.fixl (proved: C20_ncep_*) on the template as the tables give it = the template the decoder used
        mo = lib.run_model(['ncepfix ' + fx['raw']])[0]
        ctx.dist['ncep-repair-compared' + ('-nested' if h.get('nested') else '')] += 1
        if mo.split(' ')[:2] != ['ok', fx['fixed'] or '-']:
            ctx.compare(dict(case, what='template after _fix_ncep_descriptors'), fx['fixed'][:300], mo[:300],
                        kind='C20-ncep-repair', holds=lambda: ok)
    elif 'err' in fx:
        ctx.dist['ncep-repair-template-not-rebuilt: ' + fx['err'][:40]] += 1
    if not do.startswith('ok '):
        ctx.compare(dict(case, what='model decode'), 'ok', do, kind='C20-model-decode', holds=lambda: ok)
    else:
        mv = B.parse_model_subsets(do.split(' ')[1])[0]
        same = len(mv) == len(dv['vals'][0]) and all(
            B.value_matches(t, (v.encode('latin-1') if b else v))[0] for t, v, b in zip(mv, dv['vals'][0], dv['isbytes'][0]))
        if not same:
            ctx.compare(dict(case, what='model decode'), str(dv['vals'][0])[:200], do[:200], kind='C20-model-decode', holds=lambda: ok)
    return ok


def run(ctx):
    os.makedirs(os.path.join(lib.VERIF, 'replays'), exist_ok=True)
    ctx.rule = ('histories in a FRESH interpreter each (the extra entries are process-global): a generated NCEP-layout definition '
                'message (1..6 new class 48-63 elements with random width/scale/reference/sign/unit incl. code tables and strings, '
                'sometimes a redefinition of 012001, 0..2 new sequences over them incl. fixed replication and nesting) followed by a '
                'hand-assembled data message over those descriptors plus a standard element; checked: (1) the entries extracted by '
                'BufrTableDefinitionProcessor == TableDef.process_defs of the extracted model on the decoded definition values, '
                '(2) the data message decodes to the values an independent oracle computes from the definitions ((raw+ref)/10^scale, '
                'missing, bytes) and the standard element keeps its standard meaning, (3) the extracted Decode model over a template '
                'built from the definitions gives the same values; streams with TWO definition messages (DEF1 DATA1 DEF2 DATA2) where DEF2 defines '
                'some of DEF1\'s element / sequence ids again with other attributes / members (DATA1 by DEF1, DATA2 by DEF2); NCEP '
                'replication-only sequences used twice with different targets; plus the prepbufr.bufr sample.')
    rng = ctx.rng
    n = ctx.n(60, 1200)
    hist = [random_history(rng, k) for k in range(n)]
    streams = []
    for h in hist:
        dm, dvals = def_message(h['b_defs'], h['d_defs'])
        h['def_vals'] = dvals
        # the data message may come from a centre whose LOCAL tables are bundled (98: versions 1, 2, 3, 101): the
        # in-stream definitions are merged into that table group as into every other
        ctr, ltv = rng.choice([(7, 0), (7, 0), (98, 1), (98, 101), (98, 2), (98, 0), (34, 1)])
        if any(e['id'] in (49193, 49194, 55003, 62190, 62191, 63190) for e in h['b_defs']):
            ctr, ltv = 98, rng.choice([1, 101])           # the centre whose bundled local tables define the same id
        h['centre_ltv'] = (ctr, ltv)
        data = craft_message(h['ids'], h['bits'], centre=ctr, ltv=ltv)
        sep = rng.choice([b'', b'\r\r\n', b'xxBUF'])
        streams.append(dm + sep + data)
    with ThreadPoolExecutor(max_workers=8) as ex:
        results = list(ex.map(run_child, streams))
    # (1) extraction vs model
    lines = ['tabledef ' + ','.join(B.python_value_to_model(v if not isinstance(v, str) else v.encode('latin-1')) for v in h['def_vals'])
             for h in hist]
    mouts = lib.run_model(lines)
    # (3) model decode of the data message
    dlines = ['decu 1 %s:%d %s' % (bytes(int((h['bits'] + '0' * (-len(h['bits']) % 8))[i:i + 8], 2)
                                         for i in range(0, len(h['bits']) + (-len(h['bits']) % 8), 8)).hex() or '-',
                                   len(h['bits']), h['toks']) for h in hist]
    douts = lib.run_model(dlines)
    for h, res, mo, do in zip(hist, results, mouts, douts):
        case = {'k': h['k'], 'b_defs': h['b_defs'], 'd_defs': h['d_defs'], 'ids': h['ids'], 'bits': h['bits']}
        ctx.count(('history', h['k'], len(h['bits'])), True)
        ctx.dist['elements-%d' % len(h['b_defs'])] += 1
        ctx.dist['sequences-%d' % len(h['d_defs'])] += 1
        ctx.dist['data message centre %d local tables %d' % h['centre_ltv']] += 1
        if h['reponly']:
            ctx.dist['replication-only-sequences (NCEP)'] += 1
        if h.get('nested'):
            ctx.dist['nested replication-only sequences (adopted descriptor is a sequence containing one)'] += 1
        if 'err' in res or len(res['ok']) != 2:
            ctx.violation({'kind': 'C20-stream-failed', 'case': case, 'result': str(res)[:400]},
                          'definition + data stream did not decode: %s' % str(res.get('err'))[:200])
            continue
        # (1)
        impl_b = ';'.join('|'.join([k.encode().hex(), v[0].encode().hex() or '-', v[1].encode().hex() or '-', str(v[2]), str(v[3]), str(v[4])])
                          for k, v in res['b'].items())
        impl_d = ';'.join('|'.join([k.encode().hex(), v[0].encode().hex() or '-', ','.join(m.encode().hex() for m in v[1]) or '-'])
                          for k, v in res['d'].items())
        io = 'ok B %s D %s' % (impl_b or '-', impl_d or '-')
        ctx.compare(dict(case, what='extracted entries'), io, mo, kind='C20-extraction',
                    holds=lambda: all(('%06d' % e['id']) in res['b'] and res['b']['%06d' % e['id']][2:5] == [e['scale'], e['ref'], e['nbits']]
                                      for e in h['b_defs']))
        check_data(ctx, h, res['ok'][1], do, case)
        ctx.sample({'b_defs': h['b_defs'][:2], 'ids': h['ids'], 'expect': str(h['expect'])[:120]}, limit=3)
    # DEF, then a message whose template ENDS with a replication that has nothing to replicate (a damaged descriptor list,
    # or a replication-only sequence used last), then DATA; scanned with continue_on_error: whatever the middle message does,
    # nothing but a library error may come out of the NCEP repair (D33), DATA is decoded by the definitions, and the
    # template the decoder used for the middle message is NcepFix.fixl of the one the tables give
    n3 = ctx.n(16, 300)
    hist3, streams3 = [], []
    for k in range(n3):
        h = random_history(rng, 30000 + k)
        dm, _ = def_message(h['b_defs'], h['d_defs'])
        tail = rng.choice([[101000, 31001], [101002], [102000, 31001], [103002]] + [[r] for r in h['reponly']])
        h['dangling'] = [1001] + tail
        mid = craft_message(h['dangling'], '0' * 64)
        data = craft_message(h['ids'], h['bits'])
        hist3.append(h)
        streams3.append(dm + mid + rng.choice([b'', b'\r\r\n']) + data)
    with ThreadPoolExecutor(max_workers=8) as ex:
        results3 = list(ex.map(run_child_coe, streams3))
    douts3 = lib.run_model([decu_line(h) for h in hist3])
    for h, res, do in zip(hist3, results3, douts3):
        case = {'k': h['k'], 'b_defs': h['b_defs'], 'd_defs': h['d_defs'], 'ids': h['ids'], 'bits': h['bits'],
                'dangling_template': h['dangling'], 'continue_on_error': True}
        ctx.count(('dangling', h['k']), True)
        ctx.dist['dangling replication after a definition message: %s' % ('replication-only sequence' if h['dangling'][1] >= 300000
                                                                            else str(h['dangling'][1:]))] += 1
        if 'err' in res or len(res['ok']) < 2:
            ctx.violation({'kind': 'C20-dangling-replication', 'case': case, 'result': str(res)[:400]},
                          'DEF, a message whose template %s ends with a replication, DATA (continue_on_error): %s'
                          % (h['dangling'], str(res.get('err'))[:160]))
            continue
        if len(res['ok']) == 3:
            fx = res['ok'][1].get('fix') or {}
            if 'raw' in fx:
                mo = lib.run_model(['ncepfix ' + fx['raw']])[0]
                ctx.dist['ncep-repair-compared-dangling'] += 1
                if mo.split(' ')[:2] != ['ok', fx['fixed'] or '-']:
                    ctx.compare(dict(case, what='template after _fix_ncep_descriptors (dangling replication)'), fx['fixed'][:300],
                                mo[:300], kind='C20-ncep-repair', holds=lambda: True)
        check_data(ctx, h, res['ok'][-1], do, case)
    # two definition messages in one stream: DEF1 DATA1 DEF2 DATA2, DEF2 defining some of DEF1's ids AGAIN with other
    # attributes / members: what follows DEF2 is decoded by DEF2, DATA1 (before it) by DEF1
    n2 = ctx.n(24, 500)
    pairs = []
    for k in range(n2):
        h1 = random_history(rng, 10000 + k)
        h2 = random_history(rng, 20000 + k, reuse=h1 if (k % 3 == 0 or rng.random() < 0.6) else None, all_old=(k % 3 == 0))
        pairs.append((h1, h2))
    streams2 = []
    for h1, h2 in pairs:
        parts = []
        dms = []
        for h in (h1, h2):
            dm, _ = def_message(h['b_defs'], h['d_defs'])
            dms.append(dm)
            parts += [dm, craft_message(h['ids'], h['bits'])]
        # what DEF1 defined and DEF2 does not mention stays defined: DATA1 once more after DEF2
        ids2 = set(e['id'] for e in h2['b_defs']) | set(q['id'] for q in h2['d_defs'])
        ids1 = set(e['id'] for e in h1['b_defs']) | set(q['id'] for q in h1['d_defs'])
        h1['again'] = not (ids1 & ids2)
        if h1['again']:
            parts.append(craft_message(h1['ids'], h1['bits']))
        else:
            # DEF2 re-defined some of DEF1's ids: DEF1 sent AGAIN (byte for byte) governs again, DATA1 after it
            parts += [dms[0], craft_message(h1['ids'], h1['bits'])]
        streams2.append(b''.join(parts))
    with ThreadPoolExecutor(max_workers=8) as ex:
        results2 = list(ex.map(run_child, streams2))
    douts2 = lib.run_model([decu_line(h) for pr in pairs for h in pr])
    for j, ((h1, h2), res) in enumerate(zip(pairs, results2)):
        redefined = sorted(set(e['id'] for e in h1['b_defs']) & set(e['id'] for e in h2['b_defs']))
        case = {'k': h2['k'], 'stage1': {'b_defs': h1['b_defs'], 'd_defs': h1['d_defs'], 'ids': h1['ids'], 'bits': h1['bits']},
                'b_defs': h2['b_defs'], 'd_defs': h2['d_defs'], 'ids': h2['ids'], 'bits': h2['bits'], 'redefined': redefined}
        ctx.count(('history2', j, len(h2['bits'])), True)
        ctx.dist['two definition messages'] += 1
        ctx.dist['redefined-elements-%d' % min(len(redefined), 3)] += 1
        if 'err' in res or len(res['ok']) != (5 if h1['again'] else 6):
            ctx.violation({'kind': 'C20-stream-failed', 'case': case, 'result': str(res)[:400]},
                          'DEF1 DATA1 DEF2 DATA2 [DATA1 | DEF1 DATA1] did not decode: %s' % str(res.get('err'))[:200])
            continue
        check_data(ctx, h1, res['ok'][1], douts2[2 * j], dict(case, stage=1))
        check_data(ctx, h2, res['ok'][3], douts2[2 * j + 1], dict(case, stage=2))
        if h1['again']:
            ctx.dist['DATA1 again after an unrelated DEF2'] += 1
            check_data(ctx, h1, res['ok'][4], douts2[2 * j], dict(case, stage='1-again-after-DEF2'))
        else:
            ctx.dist['DEF1 repeated after a DEF2 that re-defined its ids, then DATA1'] += 1
            check_data(ctx, h1, res['ok'][5], douts2[2 * j], dict(case, stage='1-after-DEF1-repeated'))
    # the sample file with in-stream definitions
    f = os.path.join(lib.REPO, 'tests', 'data', 'prepbufr.bufr')
    if os.path.exists(f):
        res = run_child(open(f, 'rb').read())
        ctx.count(('prepbufr',), True)
        if 'err' in res or len(res['ok']) < 10:
            ctx.violation({'kind': 'C20-prepbufr', 'result': str(res)[:300]}, 'prepbufr.bufr does not decode')
        else:
            ctx.dist['prepbufr-messages'] += len(res['ok'])
    ctx.partial = ['the template of a data message is built by Template.v plus NcepFix.fixl (both proved); which Table B/D entries it is '
                   'built FROM after a definition message is the merged lookup of TableDef.v; the composition "definition values -> '
                   'entries -> template -> decoded values" is exercised end to end by the histories, each link proved separately',
                   'definition_then_data at model level relies on C13\'s tg_get_pure_guarded (invalidate then add_extra)']
    ctx.assumptions = ['each history runs in a fresh interpreter; the definition message itself is built with the implementation\'s encoder']


def replay(ctx, rec):
    return {'case': rec.get('case', {}).get('k')}
