"""C17 — metadata queries and metadata-only decoding
(pybufrkit/mdquery.py, bufr.SectionConfigurer.info_configuration, decoder.process
info_only, decoder.generate_bufr_message info_only  vs  MdQuery.v / Frame.v)."""
import glob
import itertools
import json
import os

import lib
from props import frame_common as fc

LEVEL = 'proof'
CORPUS = os.path.join(lib.VERIF, 'corpus', 'C17')


def hx(s):
    return s.encode('latin-1').hex() or '-'


# ---------------------------------------------------------------------------
# parser
# ---------------------------------------------------------------------------
def impl_parse(expr):
    from pybufrkit.mdquery import MetadataExprParser
    try:
        idx, name = MetadataExprParser().parse(expr)
    except Exception as e:
        return 'err %d' % lib.err_code(e)
    return 'ok %s %s' % ('None' if idx is None else str(idx), hx(name))


def holds_parse(expr, io):
    """The clauses of the statement about the expression syntax (independent
    reading): stripped text must start with '%'; '%k.name' needs a numeric k."""
    t = expr.strip()
    if t == '':
        return True          # not claimed (IndexError observed)
    if t[0] != '%':
        return io == 'err 4'
    body = t[1:]
    if body.count('.') == 0:
        return io == 'ok None %s' % hx(body)
    if body.count('.') == 1:
        a, b = body.split('.')
        try:
            k = int(a)
        except ValueError:
            return io == 'err 4'
        return io == 'ok %d %s' % (k, hx(b))
    return True              # two dots: not claimed (ValueError observed)


def run_parse_cases(ctx, exprs, tag):
    exprs = sorted(set(exprs))
    lines = ['mdparse ' + hx(e) for e in exprs]
    mouts = lib.run_model_sharded(lines)
    for e, line, mo in zip(exprs, lines, mouts):
        io = impl_parse(e)
        nontrivial = e.strip().startswith('%')
        ctx.count(('parse', e), nontrivial)
        ctx.dist['parse:' + tag] += 1
        ctx.dist['parse-result-' + (io.split(' ')[0] + (io[3:] if io.startswith('err') else ''))] += 1
        ok = holds_parse(e, io)
        ctx.compare({'op': 'parse', 'expr': e}, io, mo, kind='md-parse', holds=lambda: ok)
        if io == mo and not ok:
            ctx.violation({'kind': 'md-parse-predicate', 'case': {'op': 'parse', 'expr': e}, 'impl': io})


# ---------------------------------------------------------------------------
# queries
# ---------------------------------------------------------------------------
def value_str(v):
    if v is None:
        return 'None'
    if isinstance(v, bool):
        return 'b1' if v else 'b0'
    if isinstance(v, int):
        return 'u%d' % v
    if isinstance(v, bytes):
        return 'y' + (v.hex() or '-')
    if isinstance(v, str):
        return 'n' + (v or '-')
    if isinstance(v, list):
        return 'd' + ('.'.join(str(x) for x in v) or '-')
    if hasattr(v, 'decoded_values_all_subsets'):
        return fc.value_token('template_data', v)
    return 'other:' + repr(v)


def reference_query(msg, expr):
    """The property's own reading: first section (in order) that has the name,
    or section k only."""
    t = expr.strip()
    body = t[1:]
    if '.' in body:
        a, name = body.split('.')
        k = int(a)
    else:
        k, name = None, body
    for s in msg.sections:
        if k is not None and s.get_metadata('index') != k:
            continue
        if name in s:
            return value_str(getattr(s, name).value)
    return 'None'


def run_query_cases(ctx, items, tag):
    """items: (bytes, info_only, [exprs])"""
    from pybufrkit.mdquery import MetadataExprParser, MetadataQuerent
    from pybufrkit.decoder import Decoder
    q = MetadataQuerent(MetadataExprParser())
    dec = Decoder()
    lines = ['mdquery %d %s %s' % (info, b.hex(), ' '.join(hx(e) for e in exprs)) for (b, info, exprs) in items]
    mouts = lib.run_model_sharded(lines)
    for (b, info, exprs), mo in zip(items, mouts):
        try:
            msg = dec.process(b, info_only=bool(info), wire_template_data=False)
        except Exception as e:
            ctx.compare({'op': 'query', 'hex': b.hex(), 'info': info}, 'decode-err %d' % lib.err_code(e), mo, kind='md-query-decode')
            ctx.count(('query-decode', b.hex(), info), True)
            continue
        mres = mo.split(' ; ')
        if len(mres) != len(exprs):
            ctx.violation({'kind': 'md-query-shape', 'case': {'op': 'query', 'hex': b.hex(), 'info': info}, 'model': mo[:200],
                           'no_failing_input': True, 'broken': 'driver output does not line up with the expressions'})
            continue
        for e, m1 in zip(exprs, mres):
            try:
                io = value_str(q.query(msg, e))
            except Exception as ex:
                io = 'err %d' % lib.err_code(ex)
            ctx.count(('query', b.hex(), info, e), True)
            ctx.dist['query:' + tag] += 1
            ctx.dist['query-result-' + ('None' if io == 'None' else ('error' if io.startswith('err') else 'value'))] += 1
            case = {'op': 'query', 'hex': b.hex(), 'info': info, 'expr': e}

            def holds():
                if io.startswith('err'):
                    return holds_parse(e, io)
                return io == reference_query(msg, e)
            ok = holds()
            ctx.compare(case, io, m1, kind='md-query', holds=lambda: ok)
            if io == m1 and not ok:
                ctx.violation({'kind': 'md-query-predicate', 'case': case, 'impl': io},
                              'query %r: %s, direct scan of the sections says %s' % (e, io, reference_query(msg, e) if not io.startswith('err') else '-'))
        ctx.sample({'message': b.hex()[:60] + '...', 'info_only': info, 'exprs': exprs[:4], 'model': mres[:4]}, limit=3)


# ---------------------------------------------------------------------------
# info-only decoding
# ---------------------------------------------------------------------------
def sections_0_3(m):
    return [(s.get_metadata('index'), [(p.name, value_str(p.value)) for p in s])
            for s in m.sections if s.get_metadata('index') <= 3]


def run_info_cases(ctx, cases, tag):
    """cases: dict(intact=bytes, damaged=bytes, model_full=bool).  The info-only
    decode of the damaged message must succeed and agree with the full decode
    of the intact one on sections 0-3; it is also compared with the model."""
    # metadata-only decoding with and without ignore_value_expectation (the two options compose)
    cases = [dict(c, ignexp=ign) for c in cases for ign in (False, True)]
    lines = [fc.dec_line(c['damaged'], True, True, c['ignexp']) for c in cases]
    mouts = lib.run_model_sharded(lines)
    for c, line, mo in zip(cases, lines, mouts):
        io, mi = fc.impl_decode(c['damaged'], True, True, c['ignexp'])
        full_io, mf = fc.impl_decode(c['intact'], True, False, False)
        ctx.count(('info', line), True)
        ctx.dist['info:' + tag + (':ignore_value_expectation' if c['ignexp'] else '')] += 1
        rec = {'op': 'info', 'intact': c['intact'].hex(), 'damaged': c['damaged'].hex(), 'what': c.get('what', ''),
               'ignore_value_expectation': c['ignexp']}

        def holds():
            if mi is None or mf is None:
                return False
            if sections_0_3(mi) != sections_0_3(mf):
                return False
            # section 4 of the info-only result: length and reserved bits only
            last = mi.sections[-1]
            return last.get_metadata('index') == 4 and [p.name for p in last] == ['section_length', 'reserved_bits']
        ok = holds()
        ctx.compare(rec, io, mo, kind='info-decode', holds=lambda: ok)
        if io == mo and not ok:
            ctx.violation({'kind': 'info-decode-predicate', 'case': rec, 'impl': io[:300], 'full': full_io[:300]},
                          'info-only decode differs from the full decode on sections 0-3 (or failed)')
        # the full decode of the damaged message: record what happens (only compared
        # with the model when the template is the stub's)
        dio, _ = fc.impl_decode(c['damaged'], True, False, False)
        ctx.dist['info-full-decode-of-damaged-' + dio.split(' ')[0] + (dio[3:] if dio.startswith('err') else '')] += 1


def impl_scan(s):
    from pybufrkit.decoder import Decoder, generate_bufr_message
    out = []
    try:
        with lib.time_limit(20):
            for m in generate_bufr_message(Decoder(), s, info_only=True):
                out.append(m.serialized_bytes.hex() or '-')
    except lib.CaseTimeout:
        return 'timeout'
    except Exception as e:
        return 'scan %s err %d' % (','.join(out), lib.err_code(e))
    return 'scan %s end' % ','.join(out)


def run_scan_cases(ctx, streams, tag):
    lines = ['fscan ' + (s.hex() or '-') for (s, _) in streams]
    mouts = lib.run_model_sharded(lines)
    for (s, expect), line, mo in zip(streams, lines, mouts):
        io = impl_scan(s)
        ctx.count(('scan', line), True)
        ctx.dist['scan:' + tag] += 1
        rec = {'op': 'scan', 'hex': s.hex()}

        def holds():
            # every message's bytes are s[i : i + declared] with i at a BUFR
            if not io.startswith('scan'):
                return False
            chunks = [x for x in io.split(' ')[1].split(',') if x]
            pos = 0
            for ch in chunks:
                b = b'' if ch == '-' else bytes.fromhex(ch)
                i = s.find(b'BUFR', pos)
                if i < 0:
                    return False
                declared = int.from_bytes(s[i + 4:i + 7], 'big')
                if b != s[i:i + declared]:
                    return False
                pos = i + len(b)
            if expect is not None and chunks != expect:
                return False
            return True
        ok = holds()
        ctx.compare(rec, io, mo, kind='info-scan', holds=lambda: ok)
        if io == mo and not ok:
            ctx.violation({'kind': 'info-scan-predicate', 'case': rec, 'impl': io[:300]},
                          'a scanned message is not s[i:i+declared length]')


# ---------------------------------------------------------------------------
def index_variants(thorough):
    base = ['0', '1', '2', '3', '4', '5', '6', '9', '-1', '+1', '1_0', '007', ' 2 ', '03']
    if thorough:
        base += ['255', '-0', '+3', '0_4', '\t4', '5\n', '12345678901234567890']
    return base


def run(ctx):
    rng = ctx.rng
    thorough = not ctx.quick
    ctx.rule = (
        'Parser: every bundled parameter name as %name and %k.name for k in {0..6, 9, -1, +1, 1_0, 007, padded, ...}, with leading/'
        'trailing whitespace (incl. \\x1c-\\x1f); malformed: no %, non-numeric / empty / signed-only / underscore-misplaced index, two dots, '
        'empty; all strings up to length 4 (thorough 5) over the alphabet {%,.,0,1,_,+,-,space,a,\\x1c}. '
        'Queries: MetadataQuerent(MetadataExprParser()).query on decoded generated messages (editions 2,3,4 x section 2 absent/present; '
        'full and info-only decode) for all 29 names x {no index, index 0..6, out of range, negative} plus unknown names; compared with the '
        'extracted model and with a direct scan of the sections. Info-only: messages whose section-4 content is randomised, whose template '
        'needs more bits than section 4 holds, or whose descriptors are undefined: info-only must succeed and equal the full decode of the '
        'intact message on sections 0-3. Scan: generate_bufr_message(info_only=True) over streams of 1-4 messages with separators and '
        'declared total lengths exact / longer / shorter. Non-trivial: every query/info/scan case, parser cases starting with %.')
    fc.check_layouts(ctx)
    names = fc.all_param_names()
    ctx.extra['parameter_names'] = len(names)

    # corpus
    for f in sorted(glob.glob(os.path.join(CORPUS, '*.json'))):
        rec = json.load(open(f))
        replay(ctx, {'case': rec})

    # --- parser ---------------------------------------------------------------
    exprs = []
    for n in names:
        exprs.append('%' + n)
        exprs.append(' %' + n + '\n')
        for k in index_variants(thorough):
            exprs.append('%' + k + '.' + n)
        exprs.append(n)
        exprs.append('%x.' + n)
        exprs.append('%1.2.' + n)
    exprs += ['', ' ', '%', '%.', '%..', '.', '%1.', '%.x', '%%', '% x', '\x1c%length\x1f', '%\x1c1.length', '%1\x1f.length',
              '%_1.length', '%1_.length', '%1__0.length', '%+.length', '%-.length', '%- 1.length', '%1 2.length',
              '%0x1.length', '%1e2.length', '%1.0.length', 'length%', '$length', '%length.', '%1.length.', '%1.len gth', '%1.%length']
    run_parse_cases(ctx, exprs, 'names-and-malformed')
    alphabet = '%.01_+- a\x1c'
    maxlen = 5 if thorough else 4
    small = [''.join(t) for L in range(0, maxlen + 1) for t in itertools.product(alphabet, repeat=L)]
    run_parse_cases(ctx, small, 'small-alphabet')

    # --- queries on generated messages ------------------------------------------
    items = []
    msgs = []
    for ed in (2, 3, 4):
        for sec2o in (None, b'\xa5\x5a'):
            for rep in range(ctx.n(2, 5)):
                n = rng.randrange(0, 24)
                bits = ''.join(rng.choice('01') for _ in range(n))
                b = fc.craft(ed, bits, sec2o, {}, rng=rng)
                msgs.append((ed, sec2o, b))
    qexprs = []
    for n in names + ['nosuchname', '', 'Section_length']:
        qexprs.append('%' + n)
        for k in ['0', '1', '2', '3', '4', '5', '6', '-1', '99', '1_0', '+3']:
            qexprs.append('%' + k + '.' + n)
    qexprs += [' %length ', '%1.2.length', 'length', '%x.length', '', '%']
    for ed, sec2o, b in msgs:
        for info in (0, 1):
            ex = qexprs
            # chunks keep the command lines short
            for i in range(0, len(ex), 60):
                items.append((b + b'trailing', info, ex[i:i + 60]))
    # the names that live in several sections, asked again in the OPPOSITE order of messages (with section 2 first, then
    # without; editions interleaved): where a name is found first depends on the message, not on what was asked before
    multi = ['%reserved_bits', '%section_length', '%flag_bits', '%2.reserved_bits', '%3.reserved_bits', '%nosuchname']
    first = []
    for ed, sec2o, b in sorted(msgs, key=lambda m: (m[1] is None, -m[0])):
        for info in (0, 1):
            first.append((b + b'trailing', info, multi))
    last = []
    for ed, sec2o, b in sorted(msgs, key=lambda m: (m[1] is not None, m[0])):
        last.append((b, 0, multi))
    run_query_cases(ctx, first + items + last, 'generated')

    # --- info-only on damaged data -------------------------------------------------
    cases = []
    for ed, sec2o, b in msgs:
        f = fc.parse_frame(b)
        pos, n = f['sections'][4]
        for rep in range(ctx.n(2, 6)):
            dam = bytearray(b)
            for i in range(pos + 4, pos + n):
                dam[i] = rng.randrange(256)
            cases.append({'intact': b, 'damaged': bytes(dam), 'what': 'section 4 content randomised'})
        # template that needs far more bits than section 4 holds: 001015 (160-bit string) x 3
        p3, n3 = f['sections'][3]
        ndesc = (n3 - 7) // 2
        if ndesc >= 1:
            dam = bytearray(b)
            for d in range(ndesc):
                dam[p3 + 7 + 2 * d: p3 + 9 + 2 * d] = (0 << 14 | 1 << 8 | 15).to_bytes(2, 'big')
            # sections 0-3 differ from the intact ones in the descriptors: compare against itself
            cases.append({'intact': bytes(dam), 'damaged': bytes(dam), 'what': 'template needs more bits than section 4 holds', 'selfref': True})
            dam2 = bytearray(b)
            dam2[p3 + 7: p3 + 9] = (3 << 14 | 63 << 8 | 255).to_bytes(2, 'big')
            cases.append({'intact': bytes(dam2), 'damaged': bytes(dam2), 'what': 'undefined descriptor 363255', 'selfref': True})
        # stop signature destroyed / message cut right after section 4: info-only never looks there
        cases.append({'intact': b, 'damaged': b[:-4] + b'XXXX', 'what': '7777 destroyed'})
        cases.append({'intact': b, 'damaged': b[:-4], 'what': 'cut after section 4'})
    # self-referential cases: the full decode fails, so the reference is the info-only decode of the intact message
    plain = [c for c in cases if not c.get('selfref')]
    selfref = [c for c in cases if c.get('selfref')]
    run_info_cases(ctx, plain, 'damaged-data')
    lines = [fc.dec_line(c['damaged'], True, True, False) for c in selfref]
    mouts = lib.run_model_sharded(lines)
    for c, line, mo in zip(selfref, lines, mouts):
        io, mi = fc.impl_decode(c['damaged'], True, True, False)
        fio, _ = fc.impl_decode(c['damaged'], True, False, False)
        ctx.count(('info', line), True)
        ctx.dist['info:undecodable-template'] += 1
        ctx.dist['info-full-decode-of-damaged-' + fio.split(' ')[0] + (fio[3:] if fio.startswith('err') else '')] += 1
        rec = {'op': 'info-selfref', 'damaged': c['damaged'].hex(), 'what': c['what']}
        ok = mi is not None and not fio.startswith('ok')
        ctx.compare(rec, io, mo, kind='info-decode', holds=lambda: ok)
        if io == mo and mi is None:
            ctx.violation({'kind': 'info-decode-predicate', 'case': rec, 'impl': io[:300]},
                          'info-only decode failed on a message whose data section cannot be decoded')

    # --- scanning in info-only mode -------------------------------------------------
    streams = []
    for rep in range(ctx.n(40, 400)):
        k = rng.randrange(1, 5)
        s = b''
        expect = []
        for j in range(k):
            ed, sec2o, b = msgs[rng.randrange(len(msgs))]
            sep = rng.choice([b'', b'\r\r\n', b'BUF', b'xx', b'7777', bytes(rng.randrange(65) for _ in range(rng.randrange(0, 6)))])
            mode = rng.choice(['exact', 'exact', 'longer', 'shorter'])
            bb = bytearray(b)
            if mode == 'longer':
                bb[4:7] = (len(b) + rng.randrange(1, 6)).to_bytes(3, 'big')
            elif mode == 'shorter':
                bb[4:7] = max(len(b) - rng.randrange(1, 12), 1).to_bytes(3, 'big')
            s += sep + bytes(bb)
            ctx.dist['scan-declared-' + mode] += 1
        streams.append((s, None))
    run_scan_cases(ctx, streams, 'streams')

    ctx.exhaustive = False
    # --- extraction cross-check --------------------------------------------------------
    sample = ['%length', ' %2.section_length ', '%1_0.x', 'length', '%a.b.c', '', '%+3.year', '%1__0.x', '%-1.edition', '\x1c%n\x1f']
    items2 = []
    for e in sample:
        mo = lib.run_model(['mdparse ' + hx(e)])[0]
        term = 'md_parse [%s]%%N' % ';'.join(str(ord(ch)) for ch in e)
        if mo.startswith('ok'):
            _, idx, nm = mo.split(' ')
            nmb = b'' if nm == '-' else bytes.fromhex(nm)
            exp = 'Ok (%s, [%s]%%N)' % ('None' if idx == 'None' else 'Some (%s)%%Z' % idx, ';'.join(str(x) for x in nmb))
        else:
            exp = 'Err %s' % {4: 'EMetadataExpr', 8: 'EValue', 9: 'EIndex'}[int(mo.split(' ')[1])]
        items2.append((term, exp))
    n, err = lib.vm_cross_check('C17', 'From PBK Require Import Base Bits Frame MdQuery.', items2)
    ctx.extra['extraction_cross_check_vm_compute'] = n
    if err:
        ctx.violation({'kind': 'extraction-cross-check', 'error': err, 'no_failing_input': True,
                       'broken': 'OCaml extraction of MdQuery.v disagrees with vm_compute'})
    ctx.partial = PARTIAL
    ctx.assumptions = [
        'expressions are ASCII (str.strip / int() are modelled on codes < 128; non-ASCII digits and spaces are outside the model)',
        'the empty expression (IndexError) and expressions with two dots (ValueError) are modelled as observed but not claimed by the property',
        'template decoder stub as in C04 (only used by the full decodes that are compared with the model)',
        'a declared total length of 0 makes generate_bufr_message(info_only=True) loop for ever: excluded from the generated streams, '
        'excluded from the theorem by fuel',
    ]


PARTIAL = []


def replay(ctx, rec):
    case = rec.get('case', rec)
    op = case.get('op')
    if op == 'parse':
        run_parse_cases(ctx, [case['expr']], 'replay')
    elif op == 'query':
        run_query_cases(ctx, [(bytes.fromhex(case['hex']), case['info'], [case['expr']])], 'replay')
    elif op == 'info':
        run_info_cases(ctx, [{'intact': bytes.fromhex(case['intact']), 'damaged': bytes.fromhex(case['damaged'])}], 'replay')
    elif op == 'scan':
        run_scan_cases(ctx, [(bytes.fromhex(case['hex']), None)], 'replay')
    return {'case': case, 'violations': len(ctx.violations)}
