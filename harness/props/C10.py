"""C10 — subsetting (pybufrkit/bufr.py BufrMessage.subset vs coq/theories/Subset.v)."""
import copy
import glob
import itertools
import json
import os

import lib

LEVEL = 'proof'

SAMPLE_FILES = [
    'tests/data/contrived.bufr',             # 2 subsets, uncompressed
    'tests/data/207003.bufr',                # 2, compressed
    'tests/benchmark_data/sato_84.bufr',     # 7, uncompressed
    'tests/benchmark_data/g2to_206.bufr',    # 5, compressed
    'tests/data/jaso_214.bufr',              # 128, compressed
    'tests/data/uegabe.bufr',                # 1, uncompressed (bitmaps)
    'tests/data/profiler_european.bufr',     # 1, uncompressed
    'tests/data/ISMD01_OKPR.bufr',           # 7, compressed
    'tests/benchmark_data/ISND02_LLBD.bufr', # 2, uncompressed, master table 28
    'tests/benchmark_data/sb19_206.bufr',    # 10, compressed
    'tests/data/g2nd_208.bufr',              # 18, compressed
    'tests/benchmark_data/fy3b_154.bufr',    # 15, compressed
    'tests/benchmark_data/goga_89.bufr',     # 50, compressed, master table 6
    'tests/benchmark_data/atov_55.bufr',     # 30, compressed
    'tests/benchmark_data/mloz_206.bufr',    # 10, compressed
]

# parameters the encoder recomputes; everything else must come back unchanged
RECOMPUTED = {'length', 'section_length', 'n_subsets', 'template_data'}


# ---------------------------------------------------------------------------
# the abstract image of a message (what Subset.v sees)
# ---------------------------------------------------------------------------
class Interner:
    def __init__(self):
        self.names = {'n_subsets': 1}
        self.values = {}

    def name(self, s):
        return self.names.setdefault(s, len(self.names) + 1)

    def value(self, v):
        return 'x%d' % self.values.setdefault(repr(v), len(self.values))


def message_tokens(msg, it):
    toks = []
    for section in msg.sections:
        toks.append('|')
        for p in section:
            if p.type == 'template_data':
                subs = [it.value(v) for v in p.value.decoded_values_all_subsets]
                toks.append('d:%d:%s' % (it.name(p.name), ','.join(subs) or '-'))
            else:
                toks.append('p:%d:%s' % (it.name(p.name), it.value(p.value)))
    return toks


def data_image(msg, data, it):
    """the implementation's result in the driver's output syntax"""
    parts = []
    for section, sdata in zip(msg.sections, data):
        items = []
        for p, v in zip(section, sdata):
            if p.type == 'template_data':
                items.append('d:' + (','.join(it.value(x) for x in v) or '-'))
            elif p.name == 'n_subsets':
                items.append('c:%d' % v if isinstance(v, int) and not isinstance(v, bool) else 'c:?%r' % (v,))
            else:
                items.append('v:' + it.value(v))
        parts.append('|' + (' ' + ' '.join(items) if items else ''))
    if len(data) != len(msg.sections) or any(len(s) != len(list(sec)) for s, sec in zip(data, msg.sections)):
        return 'shape-mismatch'
    return ' '.join(parts)


def fmt_indices(I):
    return ','.join(str(i) for i in I) or '-'


def impl_subset(msg, I, as_type=list):
    try:
        return None, msg.subset(as_type(I))
    except Exception as e:
        return 'err %d' % lib.err_code(e), None


def snapshot(msg):
    return copy.deepcopy([[(p.name, p.type,
                            p.value.decoded_values_all_subsets if p.type == 'template_data' else p.value)
                           for p in section] for section in msg.sections])


def holds_subset(msg, I, err, data):
    """The property's own predicate on the implementation's result (no model):
    refusal iff an index is outside 0..n-1; otherwise count = number of distinct
    indices, i-th subset = subset of the i-th smallest index, rest unchanged."""
    n = msg.n_subsets.value
    if not I:
        return True                 # the empty collection is outside the quantifier
    if any(i < 0 or i >= n for i in I):
        return err == 'err 6'
    if err is not None:
        return False
    sel = sorted(set(I))
    for section, sdata in zip(msg.sections, data):
        for p, v in zip(section, sdata):
            if p.type == 'template_data':
                src = p.value.decoded_values_all_subsets
                if v != [src[i] for i in sel]:
                    return False
            elif p.name == 'n_subsets':
                if v != len(sel):
                    return False
            elif v != p.value:
                return False
    return True


# ---------------------------------------------------------------------------
# index collections
# ---------------------------------------------------------------------------
def index_collections(rng, n, k):
    out = [[0], [n - 1], list(range(n)), list(reversed(range(n))), [n - 1, 0], [0, 0], [n - 1] * 3,
           [n], [0, n], [-1], [-1, 0], [n - 1, n], [n + 5], [0, -1, n], []]
    if n >= 2:
        out += [[1, 1], [1, 0, 1], [0, n - 1, 0], list(range(n)) + [0], list(range(1, n)), list(range(n - 1)),
                list(range(0, n, 2)), list(range(n - 1, -1, -2))]
    for _ in range(k):
        m = rng.choice([1, 2, 3, min(n, 5), n, n + 2])
        I = [rng.randrange(n) for _ in range(m)]
        if rng.random() < 0.15:
            I[rng.randrange(len(I))] = rng.choice([n, -1, n + 1, -2])
        out.append(I)
    seen, res = set(), []
    for I in out:
        if tuple(I) not in seen:
            seen.add(tuple(I))
            res.append(I)
    return res


# ---------------------------------------------------------------------------
# one message x its index collections
# ---------------------------------------------------------------------------
def check_message(ctx, msg, label, collections, reencode=True, rule='fixed'):
    from pybufrkit.encoder import Encoder
    from pybufrkit.decoder import Decoder
    rng = ctx.rng
    it = Interner()
    mtoks = message_tokens(msg, it)
    n = msg.n_subsets.value
    before = snapshot(msg)
    lines = ['subset %s %d %s %s' % (rule, n, fmt_indices(I), ' '.join(mtoks)) for I in collections]
    mouts = lib.run_model(lines)
    for I, line, mo in zip(collections, lines, mouts):
        as_type = rng.choice([list, list, tuple])
        with lib.time_limit(60):
            err, data = impl_subset(msg, I, as_type)
        io = err if err is not None else data_image(msg, data, it)
        if mo.startswith('ok '):
            _, ok_flag, sel, mimg = mo.split(' ', 3)
            if ok_flag != '1':
                ctx.violation({'kind': 'subset-msg-not-ok', 'case': {'label': label}, 'no_failing_input': True,
                               'broken': 'n_subsets proxy differs from the number of decoded subsets in ' + label})
            if sel != 'sel=' + fmt_indices(sorted(set(I))):
                ctx.violation({'kind': 'subset-sel-spec', 'case': {'label': label, 'indices': I}, 'model': sel,
                               'no_failing_input': True, 'broken': 'sel_idx is not sorted(set(I))'})
        else:
            mimg = mo
        distinct = len(set(I))
        cls = ('empty' if not I else 'out-of-range' if any(i < 0 or i >= n for i in I) else
               'repeats' if distinct < len(I) else 'full' if distinct == n else 'single' if len(I) == 1 else 'proper')
        ctx.dist['indices-' + cls] += 1
        ctx.count((label, tuple(I)), nontrivial=bool(I))
        case = {'label': label, 'indices': list(I), 'n_subsets': n, 'cmd': line if len(line) < 4000 else line[:200] + '...'}
        h = holds_subset(msg, I, err, data)
        ok = ctx.compare(case, io, mimg, kind='subset-model', holds=lambda: h,
                         extra={'repeats': distinct < len(I)})
        if ok and not h:
            ctx.violation(dict(case, kind='subset-predicate', impl=io[:300]), 'subset predicate false: %s %r' % (label, I))
        if snapshot(msg) != before:
            ctx.violation(dict(case, kind='subset-source-modified'), 'source message modified by subset(%r)' % (I,))
            before = snapshot(msg)
        # --- encode the result, decode again -----------------------------------
        if err is None and reencode and I and (len(set(I)) <= 40 or rng.random() < 0.3):
            ctx.dist['re-encoded'] += 1
            sel = sorted(set(I))
            src = msg.template_data.value.decoded_values_all_subsets
            try:
                with lib.time_limit(120):
                    enc = Encoder().process(copy.deepcopy(data), wire_template_data=False)
                    back = Decoder().process(enc.serialized_bytes, wire_template_data=False)
            except Exception as e:
                ctx.violation(dict(case, kind='subset-reencode-fails', repeats=distinct < len(I),
                                   error=type(e).__name__, err_code=lib.err_code(e)),
                              'encoding subset(%r) of %s fails: %r' % (I, label, e))
                continue
            problems = []
            if back.n_subsets.value != len(sel):
                problems.append('n_subsets=%r want %d' % (back.n_subsets.value, len(sel)))
            got = back.template_data.value.decoded_values_all_subsets
            if got != [src[i] for i in sel]:
                problems.append('values differ')
            for s0, s1 in zip(msg.sections, back.sections):
                for p0, p1 in zip(s0, s1):
                    if p0.name != p1.name or (p0.name not in RECOMPUTED and p0.value != p1.value):
                        problems.append('parameter %s: %r -> %r' % (p0.name, p0.value, p1.value))
            if len(msg.sections) != len(back.sections):
                problems.append('section count')
            if back.is_compressed.value != msg.is_compressed.value:
                problems.append('compression flag')
            if problems:
                ctx.violation(dict(case, kind='subset-roundtrip', problems=problems[:5]),
                              'subset(%r) of %s re-decoded: %s' % (I, label, '; '.join(problems[:3])))
            if snapshot(msg) != before:
                ctx.violation(dict(case, kind='subset-source-modified'), 'source message modified by encoding the subset')
                before = snapshot(msg)
    return msg


# ---------------------------------------------------------------------------
# synthetic messages: exhaustive small scope for the list manipulation itself
# ---------------------------------------------------------------------------
class FakeTemplateData:
    def __init__(self, subsets):
        self.decoded_values_all_subsets = subsets


def synthetic_message(n, layout):
    from pybufrkit.bufr import BufrMessage, BufrSection, SectionParameter
    msg = BufrMessage('synthetic')
    for si, names in enumerate(layout):
        sec = BufrSection()
        for name in names:
            if name == 'template_data':
                p = SectionParameter(name, 0, 'template_data', None, True,
                                     FakeTemplateData([['s%d' % i, i * 1.5, None] for i in range(n)]))
            elif name == 'n_subsets':
                p = SectionParameter(name, 16, 'uint', None, True, n)
            else:
                p = SectionParameter(name, 8, 'uint', None, False, '%s@%d' % (name, si))
            sec.add_parameter(p)
            if p.as_property:
                setattr(msg, name, p)
        msg.add_section(sec)
    return msg


LAYOUTS = [
    [['start', 'length'], ['section_length', 'n_subsets', 'is_observation'], ['section_length', 'template_data'], ['stop']],
    [['n_subsets', 'template_data']],
    [['template_data'], [], ['a', 'n_subsets', 'b']],
]


def run(ctx):
    from pybufrkit.decoder import Decoder
    from pybufrkit.encoder import Encoder
    rng = ctx.rng
    ctx.rule = ('(1) synthetic messages built from the real BufrMessage/BufrSection/SectionParameter classes with n = 0..4 '
                'subsets x 3 section layouts x EVERY index sequence of length <= 3 (4 for n <= 2) over -1..n; (2) decoded sample '
                'files (compressed and not, 1..128 subsets, master tables 6/13/15/18/28) and second-generation messages '
                'made by subsetting + re-encoding and by flipping the compression flag, x index collections: each single, full '
                'in order / reversed / with repeats, first, last, repeats [1,1], strided, out of range by one at either end, '
                'negative, empty, random with repeats; as list and tuple. Each case: msg.subset(I) vs the extracted Subset.subset '
                'on the abstract image of the message (names and values interned; comparison of the whole returned structure or '
                'the error class); the property predicate evaluated directly on the implementation (count = |set(I)|, i-th subset '
                '= subset of i-th smallest index, other parameters unchanged, refusal iff out of range); deepcopy snapshot of the '
                'source before/after; the returned data encoded with Encoder and decoded again (n_subsets, values of every subset, '
                'all parameters except lengths, compression flag). Non-trivial = non-empty index collection.')

    # --- corpus: D3 witness first ------------------------------------------------
    for p in sorted(glob.glob(os.path.join(lib.VERIF, 'corpus', 'C10', '*.json'))):
        rec = json.load(open(p))
        path = os.path.join(lib.REPO, rec['file'])
        with open(path, 'rb') as f:
            msg = Decoder().process(f.read(), wire_template_data=False)
        check_message(ctx, msg, 'corpus:' + rec['file'], rec['collections'])
        ctx.dist['corpus'] += len(rec['collections'])

    # --- synthetic, exhaustive ---------------------------------------------------
    n_exh = 0
    for n in range(0, 5):
        for li, layout in enumerate(LAYOUTS):
            msg = synthetic_message(n, layout)
            maxlen = 4 if n <= 2 else 3
            cols = [list(t) for k in range(0, maxlen + 1) for t in itertools.product(range(-1, n + 1), repeat=k)]
            n_exh += len(cols)
            check_message(ctx, msg, 'synthetic n=%d layout=%d' % (n, li), cols, reencode=False)
    ctx.dist['synthetic-exhaustive'] = n_exh
    ctx.extra['exhaustive_small_scope'] = ('every index sequence of length <= 3 (<= 4 for n <= 2) over -1..n, n = 0..4, '
                                           '3 layouts: %d cases' % n_exh)
    ctx.exhaustive = False

    # --- sample files -------------------------------------------------------------
    files = SAMPLE_FILES[:ctx.n(10, len(SAMPLE_FILES))]
    if not ctx.quick:
        # every other small sample file that decodes
        for d in ('tests/data', 'tests/benchmark_data'):
            for pth in sorted(glob.glob(os.path.join(lib.REPO, d, '*.bufr'))):
                rel = os.path.relpath(pth, lib.REPO)
                if rel not in files and os.path.getsize(pth) <= 6000:
                    files.append(rel)
    dec = Decoder()
    msgs = []
    for rel in files:
        path = os.path.join(lib.REPO, rel)
        if not os.path.exists(path):
            ctx.notes.append('sample file missing: ' + rel)
            continue
        try:
            with open(path, 'rb') as f:
                msg = dec.process(f.read(), file_path=path, wire_template_data=False)
        except Exception as e:
            ctx.dist['sample-file-not-decodable'] += 1
            continue
        msgs.append((rel, msg))
        ctx.dist['messages-compressed' if msg.is_compressed.value else 'messages-uncompressed'] += 1
        ctx.dist['message-subsets-%s' % ('1' if msg.n_subsets.value == 1 else '2-9' if msg.n_subsets.value < 10 else '10+')] += 1
    # second generation: subsets of subsets, and the other compression mode
    derived = []
    for rel, msg in msgs:
        n = msg.n_subsets.value
        if n >= 3:
            I = sorted(rng.sample(range(n), min(n, rng.choice([3, 4, 6]))))
            try:
                data = msg.subset(I)
                b = Encoder().process(copy.deepcopy(data), wire_template_data=False).serialized_bytes
                derived.append(('%s[%s]' % (rel, fmt_indices(I)), Decoder().process(b, wire_template_data=False)))
            except Exception as e:
                ctx.notes.append('derived message from %s not built: %r' % (rel, e))
        if n >= 2:
            try:
                data = copy.deepcopy(msg.subset(list(range(n))))
                for section, sdata in zip(msg.sections, data):
                    for k, p in enumerate(section):
                        if p.name == 'is_compressed':
                            sdata[k] = not p.value
                b = Encoder().process(data, wire_template_data=False).serialized_bytes
                m2 = Decoder().process(b, wire_template_data=False)
                if m2.template_data.value.decoded_values_all_subsets == msg.template_data.value.decoded_values_all_subsets:
                    derived.append(('%s(compression flipped)' % rel, m2))
                    ctx.dist['messages-compression-flipped'] += 1
            except Exception as e:
                ctx.dist['compression-flip-not-possible'] += 1
    # crafted compressed messages whose REDUCED columns have shapes the full columns do not have: the smallest selected
    # subset is missing while every other selected one holds 0 / 0.0 / the same value, a missing entry next to equal ones
    import bufrlib as B2
    for nm, ids, rows in [
            ('missing-then-zeros', [1001, 1002, 20011, 11002, 12101],
             [[5, 7, 3, 2.5, 280.5], [None, None, None, None, None], [0, 0, 0, 0.0, 0.0], [0, 0, 0, 0.0, 0.0]]),
            ('missing-then-equal', [1001, 20003, 12101, 10004],
             [[1, 2, 270.0, 99000.0], [None, None, None, None], [9, 6, 285.25, 101300.0], [9, 6, 285.25, 101300.0], [3, 1, 260.0, 98000.0]]),
            ('zeros-then-missing', [1001, 20011, 12101],
             [[4, 5, 290.0], [0, 0, 0.0], [0, 0, 0.0], [None, None, None]])]:
        for comp in (True, False):
            try:
                b = B2.encode_message(ids, rows, compressed=comp).serialized_bytes
                derived.append(('crafted:%s:%s' % (nm, 'compressed' if comp else 'uncompressed'), Decoder().process(b, wire_template_data=False)))
            except Exception as e:
                ctx.notes.append('crafted message %s not built: %r' % (nm, e))
    # uncompressed messages whose subsets carry DIFFERENT bitmaps (a marker operator designating elements of different width
    # and scale in different subsets) or a different layout before the bitmap: what a selected subset means is decided by
    # its own rows.  The source is checked against the rows it was built from before it is used.
    for nm, ids, rows in [
            ('bitmap-per-subset', [12101, 1001, 10004, 224000, 236000, 101003, 31031, 8023, 224255],
             # (the two operators carry a 0 each in the flat list)
             [[280.5, 5, 99000.0, 0, 0, 0, 1, 1, 4, 281.25], [270.25, 9, 98000.0, 0, 0, 1, 0, 1, 4, 11],
              [260.0, 7, 101300.0, 0, 0, 1, 1, 0, 4, 90000.0], [290.75, 3, 100000.0, 0, 0, 0, 1, 1, 4, 275.0],
              [285.0, 2, 97000.0, 0, 0, 1, 0, 1, 4, 100]]),
            ('bitmap-layout-per-subset', [101000, 31001, 12101, 1001, 222000, 236000, 101002, 31031, 33007],
             [[2, 280.5, 281.5, 5, 0, 0, 0, 1, 70], [1, 270.25, 9, 0, 0, 1, 0, 80], [2, 260.0, 261.0, 7, 0, 0, 1, 0, 60],
              [1, 250.5, 3, 0, 0, 0, 1, 50]])]:
        try:
            b = B2.encode_message(ids, rows, compressed=False).serialized_bytes
            m0 = Decoder().process(b, wire_template_data=False)
            got = [list(v) for v in m0.template_data.value.decoded_values_all_subsets]
            ctx.count(('crafted-source', nm), True)
            if got != rows:
                ctx.violation({'kind': 'C10-crafted-source', 'case': {'ids': ids, 'rows': rows}, 'decoded': got},
                              'the source message %s does not decode to the rows it was encoded from' % nm)
            else:
                derived.append(('crafted:%s:uncompressed' % nm, m0))
        except Exception as e:
            ctx.violation({'kind': 'C10-crafted-source', 'case': {'ids': ids, 'rows': rows}, 'error': '%s: %s' % (type(e).__name__, str(e)[:200])},
                          'the source message %s could not be built / decoded: %r' % (nm, e))
    k_rand = ctx.n(25, 120)
    for label, msg in msgs + derived:
        n = msg.n_subsets.value
        reencode = True
        try:
            # the encoder (unlike the decoder) needs the exact table directories of the message
            Encoder().process(copy.deepcopy(msg.subset([0])), wire_template_data=False)
        except FileNotFoundError:
            reencode = False
            ctx.dist['messages-tables-missing-for-encoder'] += 1
        except Exception:
            pass            # reported per case below
        cols = index_collections(rng, n, k_rand)
        if n <= 8:
            cols += [[i] for i in range(n) if [i] not in cols]
        if label.startswith('crafted:'):
            cols += [c for c in ([1, 2, 3], [1, 2], [2, 1, 1], [1, 3], [0, 2, 3], [2, 3], [1, 2, 3, 4][:n], [3, 2, 1]) if max(c) < n and c not in cols]
        check_message(ctx, msg, label, cols, reencode=reencode)

    # --- the CLI path (command_subset) on one file ---------------------------------
    import subprocess
    import tempfile
    rel = 'tests/data/207003.bufr'
    src = Decoder().process(open(os.path.join(lib.REPO, rel), 'rb').read(), wire_template_data=False)
    n_src = src.n_subsets.value
    src_vals = src.template_data.value.decoded_values_all_subsets
    cli_cols = [[1], [0], list(range(n_src)), list(range(n_src))[::-1],
                [0] * n_src,                                   # as many indices as subsets, all the same
                ([0, 0] + list(range(1, n_src)))[:n_src],     # as many indices as subsets, one repeated
                list(range(1, n_src + 1)),                    # as many indices as subsets, one out of range
                [n_src], [-1, 0]]
    for I in cli_cols:
        if not I:
            continue
        with tempfile.TemporaryDirectory() as td:
            outp = os.path.join(td, 'out.bufr')
            env = dict(os.environ, PYTHONPATH=lib.REPO)
            p = subprocess.run(['/venv/bin/python', '-m', 'pybufrkit', 'subset', ','.join(map(str, I)),
                                os.path.join(lib.REPO, rel), outp],
                               cwd=td, env=env, stdout=subprocess.PIPE, stderr=subprocess.STDOUT, text=True, timeout=120)
            ctx.count(('cli', rel, tuple(I)))
            ctx.dist['cli'] += 1
            valid = all(0 <= i < n_src for i in I)
            sel = sorted(set(I))
            wrote = os.path.exists(outp) and os.path.getsize(outp) > 0
            ok = True
            if not valid:
                ok = not wrote                      # refused: nothing written
            elif not wrote:
                ok = False
            else:
                back = Decoder().process(open(outp, 'rb').read(), wire_template_data=False)
                ok = (back.n_subsets.value == len(sel) and
                      back.template_data.value.decoded_values_all_subsets == [src_vals[i] for i in sel])
            if not ok:
                ctx.violation({'kind': 'subset-cli', 'case': {'file': rel, 'indices': I}, 'rc': p.returncode,
                               'stdout': p.stdout[-200:]},
                              'CLI subset %s: %s' % (I, 'not refused' if not valid else 'output is not the selected subsets'))

    # --- extraction cross-check by vm_compute ---------------------------------------
    items = []
    for n in (2, 3):
        for I in ([1, 1], [n - 1, 0], [0, n], [-1], list(range(n)), []):
            line = 'subset fixed %d %s | p:2:x0 | p:1:x1 p:3:x2 | d:4:%s' % (
                n, fmt_indices(I), ','.join('x%d' % (10 + i) for i in range(n)))
            mo = lib.run_model([line])[0]
            secs = '[[PPlain 2%%N 0]; [PPlain 1%%N 1; PPlain 3%%N 2]; [PData 4%%N [%s]]]' % ';'.join(str(10 + i) for i in range(n))
            term = 'subset (V:=Z) (S:=Z) %d %s [%s]' % (n, secs, ';'.join('(%d)' % i for i in I))
            if mo.startswith('err'):
                exp = {'err 6': 'Err ELib', 'err 8': 'Err EValue'}[mo]
            else:
                body = mo.split(' ', 3)[3]
                osecs = []
                for sec in body.split('|')[1:]:
                    ovs = []
                    for t in sec.split():
                        k, v = t.split(':')
                        if k == 'v':
                            ovs.append('OVal %s' % v[1:])
                        elif k == 'c':
                            ovs.append('OCount %s' % v)
                        else:
                            ovs.append('OData [%s]' % ';'.join(x[1:] for x in v.split(',') if x != '-'))
                    osecs.append('[' + ';'.join(ovs) + ']')
                exp = 'Ok [' + ';'.join(osecs) + ']'
            items.append((term, exp))
    nchk, err = lib.vm_cross_check('C10', 'From PBK Require Import Base Subset.\nOpen Scope Z_scope.', items)
    ctx.extra['extraction_cross_check_vm_compute'] = nchk
    if err:
        ctx.violation({'kind': 'extraction-cross-check', 'error': err, 'no_failing_input': True,
                       'broken': 'OCaml extraction of Subset.v disagrees with vm_compute'})
    ctx.sample({'file': 'tests/data/207003.bufr', 'indices': [1, 1],
                'impl n_subsets / subsets kept': 'see corpus/C10/d3_repeats.json'})
    ctx.partial.append('C10_subset_count_orig_refuted: the code before fixes/C10_subset_count.diff (len(subset_indices)) counts '
                       'repeats; the positive theorems are about the repaired rule len(set(subset_indices))')
    ctx.assumptions = [
        'the composition "encode the returned data, decode again" is checked on the sample (values, count, parameters), not '
        'proved: Subset.v stops at the returned list of sections',
        'aliasing (the result shares the per-subset lists with the source) is outside the functional model; the "source not '
        'modified" clause is checked by deepcopy snapshots',
        'index collections are lists/tuples of ints; the empty collection (ValueError from max()) is outside the property\'s quantifier',
    ]


def replay(ctx, rec):
    from pybufrkit.decoder import Decoder
    case = rec['case']
    if rec.get('kind') == 'C10-crafted-source':
        import bufrlib as B2
        try:
            b = B2.encode_message(case['ids'], case['rows'], compressed=False).serialized_bytes
            got = [list(v) for v in Decoder().process(b, wire_template_data=False).template_data.value.decoded_values_all_subsets]
        except Exception as e:
            got = '%s: %s' % (type(e).__name__, str(e)[:200])
        if got != case['rows']:
            ctx.violation({'kind': 'C10-crafted-source', 'case': case, 'decoded': got}, 'source does not decode to its rows')
        return {'decoded': got, 'violations': len(ctx.violations)}
    label = case.get('label', '')
    I = case.get('indices', [])
    if label.startswith('synthetic'):
        n = int(label.split('n=')[1].split(' ')[0])
        li = int(label.split('layout=')[1])
        msg = synthetic_message(n, LAYOUTS[li])
        reencode = False
    else:
        rel = label.replace('corpus:', '').split('[')[0].split('(')[0]
        with open(os.path.join(lib.REPO, rel), 'rb') as f:
            msg = Decoder().process(f.read(), wire_template_data=False)
        reencode = True
    check_message(ctx, msg, label, [I], reencode=reencode)
    return {'label': label, 'indices': I, 'violations': len(ctx.violations)}
