"""C18 — script preprocessing (pybufrkit/script.py vs coq/theories/Script.v)."""
import glob
import itertools
import json
import os
import re

import lib

LEVEL = 'proof'

KEY = 'data_values_nest_level'


# ---------------------------------------------------------------------------
# encoding of strings for the driver
# ---------------------------------------------------------------------------
def tok(s):
    if not s:
        return '-'
    if all(ord(c) < 256 for c in s):
        return 'h' + ''.join('%02x' % ord(c) for c in s)
    return 'u' + ','.join(str(ord(c)) for c in s)


def untok(t):
    if t == '-':
        return ''
    if t[0] == 'h':
        return bytes.fromhex(t[1:]).decode('latin-1')
    return ''.join(chr(int(x)) for x in t[1:].split(','))


def fmt_prep(code, subs):
    md = all(k.startswith('%') for k in subs)
    return ' '.join([tok(code), '1' if md else '0'] + ['%s=%s' % (tok(k), tok(v)) for k, v in subs.items()])


def impl_prep(s):
    from pybufrkit.script import process_embedded_query_expr
    try:
        code, subs = process_embedded_query_expr(s)
    except Exception as e:
        return 'err %d' % lib.err_code(e), None
    return fmt_prep(code, subs), (code, subs)


# ---------------------------------------------------------------------------
# the property's own predicate, independent of the model: a regex segmenter
# ---------------------------------------------------------------------------
SEG = re.compile(r"(?P<sq>'[^']*')|(?P<dq>\"[^\"]*\")|(?P<cm>#[^\n]*(?:\n|\Z))|\$\{(?P<em>[^}]*)\}"
                 r"|(?P<code>[^'\"#$]|\$(?!\{))", re.S)


def segment(script):
    """list of (kind, text) or None when the script is not a concatenation of
    well-formed segments (unterminated literal / expression)."""
    pos, out = 0, []
    while pos < len(script):
        m = SEG.match(script, pos)
        if not m:
            return None
        out.append((m.lastgroup, m.group(m.lastgroup) if m.lastgroup == 'em' else m.group(0)))
        pos = m.end()
    return out


def spec_of_segments(segs):
    names, code = {}, []
    for kind, text in segs:
        if kind == 'em':
            k = text.strip()
            if k not in names:
                names[k] = 'PBK_%d' % len(names)
            code.append(names[k])
        else:
            code.append(text)
    return ''.join(code), names


def holds_prep(script, raw, segs=False):
    """True when the implementation's (code, substitutions) is what the property
    demands for this script; scripts outside the segment domain: no claim."""
    if segs is False:
        segs = segment(script)
    if segs is None:
        return True
    if raw is None:
        return False
    code, subs = raw
    ecode, enames = spec_of_segments(segs)
    return code == ecode and list(subs.items()) == list(enames.items())


def check_prep(ctx, scripts, tag, nontrivial=None):
    lines = ['prep ' + tok(s) for s in scripts]
    mouts = lib.run_model_sharded(lines)
    for start in range(0, len(scripts), 5000):
        with lib.time_limit(300):
            for s, line, mo in zip(scripts[start:start + 5000], lines[start:start + 5000], mouts[start:start + 5000]):
                io, raw = impl_prep(s)
                segs = segment(s)
                ctx.count(line, ('${' in s) if nontrivial is None else nontrivial)
                ctx.dist[tag] += 1
                ctx.dist['in-segment-domain' if segs is not None else 'outside-segment-domain'] += 1
                h = holds_prep(s, raw, segs)
                ok = ctx.compare({'cmd': line, 'script': s}, io, mo, kind='script-preprocess', holds=lambda: h)
                if ok and not h:
                    ctx.violation({'kind': 'script-preprocess-predicate', 'case': {'cmd': line, 'script': s}, 'impl': io},
                                  'segment predicate false on %r' % s[:80])
    return mouts


# ---------------------------------------------------------------------------
# segment scripts
# ---------------------------------------------------------------------------
def metadata_reference(msg, expr):
    t = expr.strip()[1:]
    if '.' in t:
        a, name = t.split('.')
        k = int(a)
    else:
        k, name = None, t
    for sec in msg.sections:
        if k is not None and sec.get_metadata('index') != k:
            continue
        if name in sec:
            return getattr(sec, name).value
    return None


CODE_POOL = ['x = ', 'y=1\n', ' + ', '\n', ' ', 'print(', ')', '$', '$$', '$ {', '{', '}', '{}', 'a%b', '%', '\\',
             'z = [1, 2]\n', 'if a:\n    b\n', '$x', 'q$', '\t', 'r = $', '', '\r\n', 'é']
SQ_POOL = ['', 'abc', '#', '${x}', '"', '# ${001001} "', '\n', '$', '${', '}', ' ${%n} ', '\\', 'a"b#c']
DQ_POOL = ['', 'abc', '#', '${x}', "'", "# ${001001} '", '\n', '$', '${', '}', ' ${%n} ', '\\', "a'b#c"]
CM_POOL = ['', ' comment', '${x}', " it's", ' "q', ' ${001001} # more', '$ {', "'\"", '$', '#$ k=1', ' \t']
EXPR_POOL = ['001001', '%n_subsets', '/301011/004001', '@[0] > 001001', '%0.length', 'a', 'b', '%', '', 'x{y', '${z',
             "it's", '"', '#', 'a\nb', '%%', ' % ', 'A > B', '001001 ']
PAD = ['', ' ', '  ', '\t', '\n', ' \t\n', '\x0c', '\x1f', '\xa0', '\u2003', '\u3000', '\x85']


def gen_segs(rng, n, wf_only=True):
    segs = []
    exprs = [rng.choice(EXPR_POOL) for _ in range(rng.randrange(1, 5))]
    for i in range(n):
        k = rng.choice('CCSDMEEE')
        if k == 'C':
            segs.append(('C', rng.choice(CODE_POOL)))
        elif k == 'S':
            segs.append(('S', rng.choice(SQ_POOL)))
        elif k == 'D':
            segs.append(('D', rng.choice(DQ_POOL)))
        elif k == 'M':
            segs.append(('Mc', rng.choice(CM_POOL)))
        else:
            e = rng.choice(exprs) if rng.random() < 0.8 else rng.choice(EXPR_POOL)
            segs.append(('E', rng.choice(PAD) + e + rng.choice(PAD)))
    if rng.random() < 0.2:
        segs.append(('Mo', rng.choice(CM_POOL)))
    if not wf_only:
        # deliberately ill-formed segment lists: the theorem does not apply, the
        # model must still agree with the code
        j = rng.randrange(len(segs))
        segs[j] = rng.choice([('C', "it's"), ('C', 'say "'), ('C', 'a # b'), ('C', 'x${'), ('S', "a'b"), ('D', 'a"b'),
                              ('Mo', ' open'), ('Mc', 'two\nlines'), ('E', 'a}b'), ('C', '\\\''), ('S', '\\')])
    return segs


def render_seg(sg):
    k, t = sg
    return {'C': t, 'S': "'" + t + "'", 'D': '"' + t + '"', 'Mc': '#' + t + '\n', 'Mo': '#' + t,
            'E': '${' + t + '}'}[k]


def check_segs(ctx, seglists, tag):
    lines = ['segs ' + ' '.join('%s:%s' % (k, tok(t)) for k, t in segs) for segs in seglists]
    lines = [l if l != 'segs ' else 'segs' for l in lines]
    mouts = lib.run_model_sharded(lines)
    scripts = []
    for segs, line, mo in zip(seglists, lines, mouts):
        wf, rendered, _, spec = mo.split(' ', 3)
        script = ''.join(render_seg(sg) for sg in segs)
        if untok(rendered) != script:
            ctx.violation({'kind': 'script-render', 'case': {'cmd': line}, 'impl': script, 'model': rendered,
                           'no_failing_input': True, 'broken': 'harness and model render segments differently'})
            continue
        scripts.append(script)
        ctx.dist[tag + ('-wf' if wf == '1' else '-illformed')] += 1
        if wf == '1':
            # the theorem's statement evaluated on the implementation: dom => impl = spec
            io, raw = impl_prep(script)
            n_embed = sum(1 for k, _ in segs if k == 'E')
            n_distinct = len({t.strip() for k, t in segs if k == 'E'})
            ctx.dist['embeds=%s distinct=%s' % (min(n_embed, 4), min(n_distinct, 3))] += 1
            ctx.count(line, n_embed > 0)
            ctx.compare({'cmd': line, 'script': script}, io, spec, kind='script-segments-spec',
                        holds=lambda: holds_prep(script, raw))
            if segment(script) is None:
                ctx.violation({'kind': 'script-dom-disagreement', 'case': {'cmd': line, 'script': script},
                               'no_failing_input': True,
                               'broken': 'wf_segs accepts a script the reference segmenter rejects'})
    # and every rendered script (well-formed or not) through the state machine model
    check_prep(ctx, scripts, tag + '-statemachine')
    check_prepare_variables(ctx, scripts[:max(1000, len(scripts) // 5)])


# ---------------------------------------------------------------------------
# pragma
# ---------------------------------------------------------------------------
def new_runner(code_string=None, level=1):
    from pybufrkit.script import ScriptRunner
    r = ScriptRunner.__new__(ScriptRunner)
    r.code_string = code_string
    r.pragma = {KEY: level}
    return r


def fmt_level(v):
    if isinstance(v, bool) or not isinstance(v, int):
        return 'other %r' % (v,)
    return 'ok %d' % v


def impl_pragma(code):
    r = new_runner(code)
    try:
        r.process_pragma()
    except Exception as e:
        return 'err %d' % lib.err_code(e)
    return fmt_level(r.pragma[KEY])


def impl_level(arg, script):
    from pybufrkit.script import ScriptRunner
    try:
        r = ScriptRunner(script, data_values_nest_level=arg)
    except Exception as e:
        return 'err %d' % lib.err_code(e)
    return fmt_level(r.pragma[KEY])


VALS = ['0', '1', '2', '4', '3', '14', '007', '00', '-1', '+2', '2.0', 'True', "'2'", 'x', '', '1_0', '[2]', '2 2']
KEYS = [KEY, KEY, KEY, 'other', 'data_values_nest', KEY.upper(), '']
LINEBREAKS = ['\n', '\n', '\n', '\r\n', '\r', '\x0b', '\x0c', '\x1c', '\x1d', '\x1e', '\x85', '\u2028', '\u2029', '\x1f']
BODIES = ['x = 1\n', 'y = ${001001}\n', '', 'print(1)', "s = '#$ %s = 0'\n" % KEY, '# plain comment\nz=2', 'a=${%n_subsets}']


def gen_pragma_header(rng, clean):
    """-> (header text, intended level or None when no claim is made)"""
    lines, intended, claim = [], 1, True
    for _ in range(rng.choice([0, 1, 1, 1, 2, 3])):
        assigns = []
        for _ in range(rng.choice([1, 1, 1, 2, 3])):
            if clean:
                k = rng.choice([KEY, KEY, 'other'])
                v = rng.choice(['0', '1', '2', '4', '3', '14'])
                sp = rng.choice(['', ' ', '  ', '\t'])
                assigns.append('%s%s%s=%s%s%s' % (rng.choice(['', ' ']), k, sp, sp, v, rng.choice(['', ' '])))
                if k == KEY:
                    intended = int(v)
            else:
                claim = False
                k, v = rng.choice(KEYS), rng.choice(VALS)
                form = rng.choice(['%s = %s', '%s=%s', '%s %s', '%s = %s = 1', ' %s =%s ', '%s\t=\t%s'])
                assigns.append(form % (k, v))
        prefix = '#$ ' if clean else rng.choice(['#$ ', '#$ ', '#$', '#$\t', '#$  ', '# $ ', '#$x', ' #$ '])
        if not clean and prefix not in ('#$ ', '#$\t'):
            claim = False
        lines.append(prefix + rng.choice([',', ', ', ' ,'] if not clean else [',']).join(assigns))
    nl = '\n' if clean else None
    text = ''.join(l + (nl or rng.choice(LINEBREAKS)) for l in lines)
    return text, (intended if claim else None)


def check_pragma(ctx, n):
    rng = ctx.rng
    lines, metas = [], []
    for i in range(n):
        clean = rng.random() < 0.4
        header, intended = gen_pragma_header(rng, clean)
        body = rng.choice(BODIES)
        if not clean and '${' in body:
            # Python ends a comment at \r as well, the preprocessor only at \n: with exotic line
            # separators an embedded expression could reach compile() unsubstituted (SyntaxError,
            # not modelled); embedded expressions only follow clean headers
            body = 'x = 1\n'
        if rng.random() < 0.1:
            # a pragma line after the first non-pragma line is ignored
            body = 'x = 0\n#$ %s = 0\n' % KEY + body
        script = header + body
        if i % 2 == 0:
            arg = rng.choice([None, None, 0, 1, 2, 4, 7])
            lines.append('level %s %s' % ('N' if arg is None else arg, tok(script)))
            metas.append(('level', arg, script, intended))
        else:
            # process_pragma alone, on any code string (also ones that do not compile)
            code = script if rng.random() < 0.7 else header + rng.choice(['', '#$', '#', '$', '\n', 'if', "'"])
            lines.append('pragma ' + tok(code))
            metas.append(('pragma', None, code, intended if code == script else None))
    mouts = lib.run_model_sharded(lines)
    for line, mo, (kind, arg, text, intended) in zip(lines, mouts, metas):
        with lib.time_limit(20):
            io = impl_level(arg, text) if kind == 'level' else impl_pragma(text)
        ctx.count(line, text.startswith('#$'))
        ctx.dist['pragma-' + kind] += 1
        if mo == 'unmodelled':
            ctx.dist['pragma-literal-outside-model'] += 1
            continue
        ctx.dist['pragma-outcome-' + io.split(' ')[0]] += 1

        def holds():
            if intended is None:
                return True
            want = arg if (kind == 'level' and arg is not None) else intended
            return io == 'ok %d' % want
        ok = ctx.compare({'cmd': line, 'script': text}, io, mo, kind='script-pragma', holds=holds)
        if ok and not holds():
            ctx.violation({'kind': 'script-pragma-predicate', 'case': {'cmd': line, 'script': text}, 'impl': io})


def check_metadata_only(ctx, n):
    """ScriptRunner(script).metadata_only through the real constructor (scripts that
    compile: assignments of embedded expressions) against the model's flag and the
    property's predicate (every trimmed expression starts with %)."""
    from pybufrkit.script import ScriptRunner
    rng = ctx.rng
    pool = ['%n_subsets', '%length', '001001', '/301011', ' %edition ', '\t%x', 'x%', '', ' ', '%', '% a', 'a > b']
    scripts, exprs = [], []
    for _ in range(n):
        es = [rng.choice(pool) for _ in range(rng.choice([0, 1, 1, 2, 3, 5]))]
        if rng.random() < 0.4:
            es = [e for e in es if e.strip().startswith('%')]
        body = ''.join('v%d = ${%s}\n' % (i, e) for i, e in enumerate(es))
        body += rng.choice(['', "s = '${001001}'\n", '# ${001001}\n', 't = "${x}" # ${y}\n'])
        scripts.append(body)
        exprs.append(es)
    mouts = lib.run_model_sharded(['prep ' + tok(s) for s in scripts])
    for s, es, mo in zip(scripts, exprs, mouts):
        line = 'prep ' + tok(s)
        try:
            with lib.time_limit(20):
                r = ScriptRunner(s)
            io = '1' if r.metadata_only else '0'
        except Exception as e:
            io = 'err %d' % lib.err_code(e)
        want = '1' if all(e.strip().startswith('%') for e in es) else '0'
        ctx.count(('metadata-only', s), len(es) > 0)
        ctx.dist['metadata-only=%s' % io] += 1
        ok = ctx.compare({'cmd': line, 'script': s}, io, mo.split(' ')[1], kind='script-metadata-only',
                         holds=lambda: io == want)
        if ok and io != want:
            ctx.violation({'kind': 'script-metadata-only', 'case': {'cmd': line, 'script': s}, 'impl': io})


class FakeMessage:
    filename = 'F'


def check_prepare_variables(ctx, scripts):
    """ScriptRunner.prepare_variables with the query evaluation stubbed out
    (get_query_result -> 'Q' + expression): names bound, in order, and to what."""
    from pybufrkit.script import ScriptRunner, process_embedded_query_expr
    mouts = lib.run_model_sharded(['vars ' + tok(s) for s in scripts])
    for s, mo in zip(scripts, mouts):
        r = ScriptRunner.__new__(ScriptRunner)
        r.code_string, r.substitutions = process_embedded_query_expr(s)
        r.get_query_result = lambda msg, q: 'Q' + tok(q)
        fake = FakeMessage()
        try:
            with lib.time_limit(20):
                v = r.prepare_variables(fake)
            io = ' '.join('%s=%s' % (tok(k), 'M' if x is fake else x) for k, x in v.items())
        except Exception as e:
            v, io = {}, 'err %d' % lib.err_code(e)
        ctx.count(('vars', s), '${' in s)
        ctx.dist['prepare-variables'] += 1

        def holds():
            segs = segment(s)
            if segs is None:
                return True
            _, names = spec_of_segments(segs)
            want = {n: 'Q' + tok(k) for k, n in names.items()}
            want.update({'PBK_BUFR_MESSAGE': fake, 'PBK_FILENAME': 'F'})
            return v == want
        h = holds()
        ok = ctx.compare({'cmd': 'vars ' + tok(s), 'script': s}, io, mo, kind='script-prepare-variables', holds=lambda: h)
        if ok and not h:
            ctx.violation({'kind': 'script-prepare-variables', 'case': {'cmd': 'vars ' + tok(s), 'script': s}, 'impl': io})


# ---------------------------------------------------------------------------
# flatten_data_values
# ---------------------------------------------------------------------------
def rand_nest(rng, depth):
    n = rng.choice([0, 1, 1, 2, 3, 5])
    out = []
    for _ in range(n):
        if depth > 0 and rng.random() < 0.4:
            out.append(rand_nest(rng, depth - 1))
        else:
            out.append(None)           # leaf placeholder, numbered below
    return out


def number_leaves(x, counter):
    if isinstance(x, list):
        return [number_leaves(y, counter) for y in x]
    counter[0] += 1
    return counter[0] - 1


def ref_flatten(x):
    out = []
    for y in x:
        if isinstance(y, list):
            out.extend(ref_flatten(y))
        else:
            out.append(y)
    return out


def dumps(x):
    return json.dumps(x, separators=(',', ':')).replace('null', 'None')


def fmt_flat(level, v):
    tag = {0: 'R0', 1: 'R1', 2: 'R2'}.get(level, 'R4')
    return tag + ' ' + dumps(v)


def impl_flatten(level, per_subset):
    from pybufrkit.dataquery import QueryResult
    qr = QueryResult()
    for i, vals in enumerate(per_subset):
        qr.add_subset(i, vals)
    r = new_runner(level=level)
    return r.flatten_data_values(qr)


def levels_consistent(res):
    """the property's predicate: res = {level: value} for 0, 1, 2, 4"""
    l0, l1, l2, l4 = res[0], res[1], res[2], res[4]
    return (l1 == [v for sub in l2 for v in sub] and l0 == (l1[0] if l1 else None)
            and l2 == [ref_flatten(sub) for sub in l4])


def check_flatten(ctx, n):
    rng = ctx.rng
    lines, metas = [], []
    for _ in range(n):
        nsub = rng.choice([0, 1, 1, 2, 3, 4])
        counter = [0]
        qr = [number_leaves(rand_nest(rng, rng.choice([0, 1, 2, 3])), counter) for _ in range(nsub)]
        for level in (0, 1, 2, 4, rng.choice([3, -1, 5, 8])):
            lines.append('flat %d %s' % (level, dumps(qr)))
            metas.append((level, qr))
    mouts = lib.run_model_sharded(lines)
    group = {}
    for line, mo, (level, qr) in zip(lines, mouts, metas):
        try:
            v = impl_flatten(level, qr)
            io = fmt_flat(level, v)
        except Exception as e:
            v, io = None, 'err %d' % lib.err_code(e)
        ctx.count(line, any(isinstance(x, list) for sub in qr for x in sub))
        ctx.dist['flatten-level-%s' % (level if level in (0, 1, 2, 4) else 'other')] += 1
        group.setdefault(dumps(qr), {})[level] = v
        ctx.compare({'cmd': line}, io, mo, kind='script-flatten-level-%s' % (level if level in (0, 1, 2, 4) else 'other'))
    for q, res in group.items():
        if all(k in res for k in (0, 1, 2, 4)) and not levels_consistent(res):
            ctx.violation({'kind': 'script-nest-levels-inconsistent', 'case': {'qr': q},
                           'impl': {str(k): dumps(v) for k, v in res.items()}},
                          'nesting levels inconsistent on %s' % q[:100])


# ---------------------------------------------------------------------------
# real scripts on decoded sample messages
# ---------------------------------------------------------------------------
SAMPLE_FILES = ['tests/data/jaso_214.bufr', 'tests/data/207003.bufr', 'tests/data/uegabe.bufr',
                'tests/data/profiler_european.bufr', 'tests/data/contrived.bufr', 'tests/data/b005_89.bufr']


def intern_leaves(x, table):
    if isinstance(x, list):
        return [intern_leaves(y, table) for y in x]
    table.append(x)
    return len(table) - 1


def unintern(x, table):
    if isinstance(x, list):
        return [unintern(y, table) for y in x]
    return table[x] if x is not None else None


def parse_flat(out):
    tag, body = out.split(' ', 1)
    return json.loads(body.replace('None', 'null'))


def check_metadata_names(ctx):
    """Every parameter name of every section layout (also the names an edition does NOT have), as '%name' and '%k.name',
    substituted in a script run on messages of editions 2, 3 and 4 with and without section 2, fully decoded and
    metadata-only: the variable is the property's own reading of the expression (metadata_reference)."""
    from pybufrkit.decoder import Decoder
    from pybufrkit.script import ScriptRunner
    from props import frame_common as fc
    names = fc.all_param_names() + ['nosuchname']
    rng = ctx.rng
    for ed in (2, 3, 4):
        for sec2o in (None, b'\xa5\x5a'):
            b = fc.craft(ed, '0110', sec2o, {}, rng=rng)
            for info in (False, True):
                msg = Decoder().process(b, info_only=info)
                exprs = ['%' + n for n in names] + ['%1.' + n for n in names]
                for i in range(0, len(exprs), 16):
                    chunk = exprs[i:i + 16]
                    script = ''.join('v%d = ${%s}\n' % (j, e) for j, e in enumerate(chunk))
                    case = {'edition': ed, 'section2': sec2o is not None, 'info_only': info, 'script': script, 'message': b.hex()}
                    ctx.count(('metadata-names', ed, sec2o is not None, info, i))
                    ctx.dist['metadata-name-scripts'] += 1
                    try:
                        with lib.time_limit(60):
                            variables = ScriptRunner(script).run(msg)
                    except Exception as e:
                        ctx.violation(dict(case, kind='script-metadata-names-error', error='%s: %s' % (type(e).__name__, str(e)[:200])),
                                      'metadata-only script raised %r' % e)
                        continue
                    for j, e in enumerate(chunk):
                        want = metadata_reference(msg, e)
                        if variables.get('v%d' % j) != want:
                            ctx.violation(dict(case, kind='script-binding-value', expr=e, impl=repr(variables.get('v%d' % j))[:200],
                                               model=repr(want)[:200]),
                                          'edition %d: ${%s} bound to %r, the sections give %r' % (ed, e, variables.get('v%d' % j), want))


def check_real_scripts(ctx, n_files, n_scripts):
    from pybufrkit.decoder import Decoder
    from pybufrkit.script import ScriptRunner
    from pybufrkit.query import BufrMessageQuerent
    from pybufrkit.dataquery import QueryResult
    rng = ctx.rng
    dec = Decoder()
    for rel in SAMPLE_FILES[:n_files]:
        path = os.path.join(lib.REPO, rel)
        if not os.path.exists(path):
            ctx.notes.append('sample file missing: ' + rel)
            continue
        with open(path, 'rb') as f:
            msg = dec.process(f.read(), file_path=path)
        ids = []
        for d in msg.template_data.value.decoded_descriptors_all_subsets[0]:
            s = str(d)
            if s.isdigit() and s not in ids:
                ids.append(s)
        for _ in range(n_scripts):
            qs = []
            for _ in range(rng.randrange(1, 5)):
                i = rng.choice(ids[:40])
                qs.append(rng.choice([i, '/' + i, '@[0] > ' + i, '@[::2] > ' + i, '@[-1] > ' + i,
                                      '%n_subsets', '%length', '%0.length', '%edition', i + '[0]', '> ' + i + '[::2]',
                                      '%0.n_subsets', '%0.section_length', '%1.section_length', '%3.n_subsets', '%0.edition',
                                      '%1.year', '%0.year', '%4.section_length', '%9.length', '%nothing']))
            if rng.random() < 0.3:
                qs = [q for q in qs if q.startswith('%')] or ['%n_subsets']
            body = ''.join('v%d = ${%s%s%s}\n' % (j, rng.choice(PAD[:3]), q, rng.choice(PAD[:3])) for j, q in enumerate(qs))
            body += "lit = '${%s}' # ${not a query}\n" % qs[0]
            res, errs = {}, {}
            for level in (0, 1, 2, 4):
                by_pragma = rng.random() < 0.5
                script = ('#$ %s = %d\n' % (KEY, level) if by_pragma else '') + body
                arg = None if by_pragma else level
                if rng.random() < 0.2:
                    # the argument wins over a contradicting pragma
                    script, arg = '#$ %s = %d\n' % (KEY, (level + 1) % 3) + body, level
                try:
                    with lib.time_limit(60):
                        runner = ScriptRunner(script, data_values_nest_level=arg)
                        variables = runner.run(msg)
                except Exception as e:
                    errs[level] = lib.err_code(e)
                    continue
                res[level] = (runner, variables)
                ctx.count(('real', rel, script, arg))
                ctx.dist['real-script-runs'] += 1
                case = {'file': rel, 'script': script, 'arg': arg}
                # preprocessing of this very script, against the model
                mo = lib.run_model(['prep ' + tok(script)])[0]
                ctx.compare(dict(case, cmd='prep ' + tok(script)), fmt_prep(runner.code_string, runner.substitutions),
                            mo, kind='script-preprocess', holds=lambda: holds_prep(script, (runner.code_string, runner.substitutions)))
                md_model = mo.split(' ')[1] == '1'
                if runner.metadata_only != all(q.strip().startswith('%') for q in qs) or runner.metadata_only != md_model:
                    ctx.violation(dict(case, kind='script-metadata-only', impl=runner.metadata_only),
                                  'metadata_only wrong for %r' % script[:80])
                # binding: exactly the substituted names + message + file name
                expected_names = set(runner.substitutions.values()) | {'PBK_BUFR_MESSAGE', 'PBK_FILENAME'}
                pbk = {k for k in variables if k.startswith('PBK_')}
                if pbk != expected_names or variables['PBK_BUFR_MESSAGE'] is not msg \
                        or variables['PBK_FILENAME'] != msg.filename or variables.get('lit') != '${%s}' % qs[0]:
                    ctx.violation(dict(case, kind='script-binding', impl=sorted(pbk)), 'bound names wrong')
                # each name is bound to the query result at the requested level
                q = BufrMessageQuerent()
                for expr, name in runner.substitutions.items():
                    r = q.query(msg, expr)
                    if isinstance(r, QueryResult):
                        table = []
                        interned = intern_leaves(r.all_values(), table)
                        mo2 = lib.run_model(['flat %d %s' % (level, dumps(interned))])[0]
                        want = unintern(parse_flat(mo2), table)
                        ctx.dist['real-data-query'] += 1
                    else:
                        # the property's own reading of '%[k.]name', independent of the querents: the first section
                        # (in order) that has the name, or section k only
                        want = metadata_reference(msg, expr)
                        ctx.dist['real-metadata-query'] += 1
                    if variables[name] != want:
                        ctx.violation(dict(case, kind='script-binding-value', expr=expr, level=level,
                                           impl=repr(variables[name])[:300], model=repr(want)[:300]),
                                      'variable %s of %r differs from the model at level %d' % (name, expr, level))
            if errs:
                ctx.dist['real-script-errors'] += 1
                if len(set(errs.values())) != 1 or res:
                    ctx.violation({'kind': 'script-run-error-depends-on-level', 'file': rel, 'body': body, 'errs': errs})
                continue
            # level consistency of the bound values across the four runs
            names = set(res[4][0].substitutions.values())
            for name in names:
                vals = {k: res[k][1][name] for k in res}
                expr = [e for e, nme in res[4][0].substitutions.items() if nme == name][0]
                if expr.startswith('%'):
                    ok = all(v == vals[4] for v in vals.values())
                else:
                    ok = levels_consistent(vals)
                if not ok:
                    ctx.violation({'kind': 'script-nest-levels-inconsistent', 'file': rel, 'body': body, 'expr': expr,
                                   'impl': {str(k): repr(v)[:200] for k, v in vals.items()}},
                                  'levels inconsistent for %r on %s' % (expr, rel))


# ---------------------------------------------------------------------------
def coq_bytes(s):
    return '[' + ';'.join(str(ord(c)) for c in s) + ']'


def run(ctx):
    rng = ctx.rng
    ctx.rule = ('(1) every string up to length %d over the 10 characters $ { } \' " # newline a %% space; (2) scripts assembled '
                'from pools of code fragments, single/double-quoted literals, comments and embedded expressions (padding with '
                'ASCII and Unicode blanks, repeated expressions, quote in comment, # in quote, $ without {, nested braces) in '
                'random order and multiplicity, plus deliberately ill-formed segment lists (unterminated literal/expression, '
                'backslash-quote); (3) random strings over a wide alphabet; (4) pragma headers (clean and malformed, 13 line '
                'separators) with and without the constructor argument, through ScriptRunner.__init__ and through process_pragma '
                'alone; (5) flatten_data_values on random nested lists at levels 0,1,2,4 and others; (6) real scripts run '
                'against decoded sample messages at every level. Each case runs on pybufrkit.script and on the extracted '
                'Script.v; outputs (code, substitutions in insertion order, metadata_only, level, flattened value, error class) '
                'must be equal. The segment predicate (independent regex segmenter + first-occurrence numbering) is evaluated '
                'on every preprocessing case; for well-formed segment lists the implementation is also compared with the '
                'theorem\'s spec_segments directly. Non-trivial = contains an embedded expression / a pragma line / a nested entry.'
                % (6 if ctx.quick else 7))

    # --- tables of character classes (str.isspace, line boundaries) -----------
    top = 0x3100 if ctx.quick else 0x110000
    cps = list(range(top))
    o1 = lib.run_model_sharded(['isspace %d' % c for c in cps])
    o2 = lib.run_model_sharded(['islb %d' % c for c in cps])
    for c, a, b in zip(cps, o1, o2):
        if (0xD800 <= c < 0xE000):
            continue
        ch = chr(c)
        if (ch.isspace(), (ch + 'x' + ch).strip() == 'x') != (a == '1', a == '1') or \
                (len(('a' + ch + 'b').splitlines()) == 2) != (b == '1'):
            ctx.violation({'kind': 'script-char-class', 'case': {'codepoint': c}, 'model': [a, b],
                           'no_failing_input': True, 'broken': 'is_space / is_linebreak table of Script.v'})
    ctx.dist['char-class-table'] = len(cps)

    # --- corpus first ---------------------------------------------------------
    corpus = []
    for p in sorted(glob.glob(os.path.join(lib.VERIF, 'corpus', 'C18', '*.json'))):
        corpus.extend(json.load(open(p))['scripts'])
    check_prep(ctx, corpus, 'corpus')

    # --- exhaustive short strings -----------------------------------------------
    alpha = "${}'\"#\na% "
    maxlen = 6 if ctx.quick else 7
    total = 0
    for n in range(0, maxlen + 1):
        it = itertools.product(alpha, repeat=n)
        while True:
            chunk = [''.join(p) for p in itertools.islice(it, 400000)]
            if not chunk:
                break
            total += len(chunk)
            check_prep(ctx, chunk, 'exhaustive-len<=%d' % maxlen)
    ctx.extra['exhaustive_short_strings'] = 'all %d strings of length <= %d over 10 characters' % (total, maxlen)
    ctx.exhaustive = False

    # --- segment scripts --------------------------------------------------------
    nseg = ctx.n(4000, 150000)
    seglists = [gen_segs(rng, rng.choice([1, 2, 3, 4, 6, 9, 14]), wf_only=(rng.random() < 0.8)) for _ in range(nseg)]
    check_segs(ctx, seglists, 'segments')
    # scripts with MANY distinct embedded expressions (11..40: variable numbers with two digits, PBK_10 sorts before
    # PBK_2 as text), some repeated, some inside literals and comments
    many = []
    for k in range(ctx.n(60, 1500)):
        nd = rng.choice([11, 12, 13, 15, 21, 40])
        exprs = ['%03d%03d' % (rng.randrange(1, 60), j) for j in range(nd)]
        order = exprs + [rng.choice(exprs) for _ in range(rng.randrange(0, 6))]
        if rng.random() < 0.5:
            rng.shuffle(order)
        segs = []
        for e in order:
            segs.append(('C', rng.choice(['a = ', ' + ', '\nprint(', ', ', 'x ', ' == '])))
            segs.append(('E', rng.choice(PAD) + e + rng.choice(PAD)))
            if rng.random() < 0.1:
                segs.append(('S', '${' + rng.choice(exprs) + '}'))
            if rng.random() < 0.05:
                segs.append(('Mc', ' ${' + rng.choice(exprs) + '}'))
        many.append(segs)
    check_segs(ctx, many, 'many-expressions')

    # --- random strings over a wide alphabet ------------------------------------
    wide = "${}${}'\"#\n\n\\ab%/ \t\r\x0c\xa0\u2003=,_01"
    rnd = [''.join(rng.choice(wide) for _ in range(rng.choice([3, 8, 15, 30, 80]))) for _ in range(ctx.n(3000, 100000))]
    check_prep(ctx, rnd, 'random-wide')
    strips = sorted(set(r for r in rnd))[:ctx.n(1500, 20000)]
    souts = lib.run_model_sharded(['strip ' + tok(s) for s in strips])
    for s, mo in zip(strips, souts):
        ctx.count(('strip', s), False)
        ctx.compare({'cmd': 'strip ' + tok(s)}, tok(s.strip()), mo, kind='script-strip')
    souts = lib.run_model_sharded(['splitlines ' + tok(s) for s in strips])
    for s, mo in zip(strips, souts):
        ctx.count(('splitlines', s), False)
        ctx.compare({'cmd': 'splitlines ' + tok(s)}, ' '.join(tok(x) for x in s.splitlines()), mo, kind='script-splitlines')

    # --- pragma, flatten, real scripts ------------------------------------------
    check_pragma(ctx, ctx.n(3000, 60000))
    check_metadata_only(ctx, ctx.n(1500, 20000))
    check_flatten(ctx, ctx.n(1500, 30000))
    check_metadata_names(ctx)
    check_real_scripts(ctx, ctx.n(4, 6), ctx.n(6, 40))

    # --- extraction cross-check by vm_compute -----------------------------------
    items = []
    sample = [s for s in rnd if len(s) <= 15][:ctx.n(20, 80)] + corpus[:20]
    souts = lib.run_model(['prep ' + tok(s) for s in sample])
    for s, out in zip(sample, souts):
        parts = out.split(' ')
        code = untok(parts[0])
        subs = [tuple(untok(x) for x in p.split('=')) for p in parts[2:]]
        items.append(('process_embedded_query_expr %s' % coq_bytes(s),
                      '(%s, [%s])' % (coq_bytes(code), ';'.join('(%s,%s)' % (coq_bytes(k), coq_bytes(v)) for k, v in subs))))
    n, err = lib.vm_cross_check('C18', 'From PBK Require Import Base Script.\nOpen Scope N_scope.', items)
    ctx.extra['extraction_cross_check_vm_compute'] = n
    if err:
        ctx.violation({'kind': 'extraction-cross-check', 'error': err, 'no_failing_input': True,
                       'broken': 'OCaml extraction of Script.v disagrees with vm_compute'})
    ctx.extra['fraction_in_segment_domain'] = round(
        ctx.dist['in-segment-domain'] / max(1, ctx.dist['in-segment-domain'] + ctx.dist['outside-segment-domain']), 4)
    ctx.sample({'script': "x = ${ 001001 }; y = '${n}' # ${c}\nz = ${001001} + ${%n_subsets}",
                'impl/model': impl_prep("x = ${ 001001 }; y = '${n}' # ${c}\nz = ${001001} + ${%n_subsets}")[0]})
    ctx.assumptions = [
        'compile()/exec of the substituted code and the query evaluation itself (C16/C17) are not modelled; the binding of '
        'names to query results is checked on sample messages only',
        'ast.literal_eval is modelled for unsigned decimal integer literals only; other pragma values are counted '
        '(pragma-literal-outside-model) and not compared',
        'backslash escapes are not interpreted by the preprocessor (nor by the model): a quote after a backslash ends the literal; '
        'the property text restricts itself to escape-free literals',
    ]


def replay(ctx, rec):
    if 'case' not in rec and 'script' in rec:
        # a script run on a message: run it again and compare every metadata substitution with the sections
        from pybufrkit.decoder import Decoder
        from pybufrkit.script import ScriptRunner
        if 'message' in rec:
            msg = Decoder().process(bytes.fromhex(rec['message']), info_only=bool(rec.get('info_only')))
        else:
            with open(os.path.join(lib.REPO, rec['file']), 'rb') as f:
                msg = Decoder().process(f.read())
        runner = ScriptRunner(rec['script'], data_values_nest_level=rec.get('arg'))
        variables = runner.run(msg)
        bad = []
        for expr, name in runner.substitutions.items():
            if expr.strip().startswith('%'):
                want = metadata_reference(msg, expr)
                if variables[name] != want:
                    bad.append((expr, repr(variables[name])[:100], repr(want)[:100]))
        if bad:
            ctx.violation({'kind': rec.get('kind', 'replay'), 'script': rec['script'], 'differences': bad})
        return {'differences': bad}
    line = rec['case']['cmd']
    mo = lib.run_model([line])[0]
    toks = line.split(' ')
    if toks[0] == 'prep':
        io = impl_prep(untok(toks[1]))[0]
    elif toks[0] == 'pragma':
        io = impl_pragma(untok(toks[1]))
    elif toks[0] == 'level':
        io = impl_level(None if toks[1] == 'N' else int(toks[1]), untok(toks[2]))
    elif toks[0] == 'flat':
        io = fmt_flat(int(toks[1]), impl_flatten(int(toks[1]), json.loads(toks[2])))
    elif toks[0] == 'vars':
        before = len(ctx.violations)
        check_prepare_variables(ctx, [untok(toks[1])])
        return {'cmd': line, 'agree': len(ctx.violations) == before}
    elif toks[0] == 'segs':
        script = untok(mo.split(' ')[1])
        io, mo = impl_prep(script)[0], mo.split(' ', 3)[3]
    else:
        io = '?'
    if io != mo and mo != 'unmodelled':
        ctx.violation({'kind': rec.get('kind', 'replay'), 'case': rec['case'], 'impl': io, 'model': mo})
    return {'cmd': line, 'impl': io, 'model': mo, 'agree': io == mo}
