"""C15 — the path-expression parser accepts exactly the documented grammar
(pybufrkit/dataquery.py NodePathParser.parse / NodePath.__str__ vs
coq/theories/PathParser.v, PathGrammar.v)."""
import glob
import itertools
import json
import multiprocessing
import os
import re
import signal
import string

import lib

LEVEL = 'proof'

ALPHABET = '@[]:/.>-01A '          # the 12 symbols of the property's quantifier
STRUCT = '@[]:/.>'
WS = string.whitespace            # ' \t\n\r\x0b\x0c'
MAX_DIGITS = 4300


# --------------------------------------------------------------------------
# canonical text of a result (same format as model/drv_path.ml)
# --------------------------------------------------------------------------
def hx(s):
    return s.encode('latin-1').hex() or '-'


def unhx(h):
    return '' if h == '-' else bytes.fromhex(h).decode('latin-1')


def fmt_slice(x):
    if x is None:
        return 'None'
    if type(x) is int:
        return 'i%d' % x
    if type(x) is slice:
        return 's' + ','.join('N' if v is None else ('%d' % v if type(v) is int else 'X' + repr(v))
                              for v in (x.start, x.stop, x.step))
    return 'X' + repr(x)


def fmt_path(subset, comps):
    return 'S=%s C=%s' % (fmt_slice(subset), '|'.join(
        '%s:%s:%s' % (ord(sep) if isinstance(sep, str) and len(sep) == 1 else 'X' + repr(sep),
                      hx(i) if isinstance(i, str) else 'X' + repr(i), fmt_slice(sl))
        for (sep, i, sl) in comps) or '-')


# --------------------------------------------------------------------------
# the reference grammar, written independently of parser and model (a regular
# expression over the string with string.whitespace removed); the property's own
# predicate is evaluated with it on the implementation's output
# --------------------------------------------------------------------------
_INT = r'[+-]?[0-9](?:_?[0-9])*'
_OINT = r'(?:%s)?' % _INT
_SLICE = r'\[(?:%s|%s:%s(?::%s)?)\]' % (_INT, _OINT, _OINT, _OINT)
_ID = r'[^ \t\n\r\x0b\x0c@\[\]:/.>]+'
_COMP = r'[/.>]%s(?:%s)?' % (_ID, _SLICE)
# query ::= ['@' slice] [sep1] ID [slice] comp*
_QUERY = re.compile(r'(?:@(?P<sub>%s))?(?P<first>[/>]?)(?P<rest>%s(?:%s)?(?:%s)*)' % (_SLICE, _ID, _SLICE, _COMP))
_COMP_RE = re.compile(r'(?P<sep>[/.>])(?P<id>%s)(?P<sl>%s)?' % (_ID, _SLICE))
_WS_TABLE = {ord(c): None for c in WS}


def _ref_int(tok):
    if tok == '':
        return None
    if sum(ch.isdigit() for ch in tok) > MAX_DIGITS:
        raise ValueError('too many digits')
    return int(tok)


def _ref_slice(text):
    """'[..]' -> int or slice as the documentation dictates."""
    if text is None:
        return slice(None, None, None)
    parts = text[1:-1].split(':')
    vals = [_ref_int(p) for p in parts]
    if len(vals) == 1:
        k = vals[0]
        if k >= 0:
            return k
        return slice(k, None, None) if k == -1 else slice(k, k + 1, None)
    return slice(*vals)


def ref_parse(s):
    """Reference grammar on a raw string: 'ok S=.. C=..' or 'reject'."""
    if not s.isascii():
        return 'outside'
    w = s.translate(_WS_TABLE)
    m = _QUERY.fullmatch(w)
    if not m:
        return 'reject'
    first, rest = m.group('first'), m.group('rest')
    if first == '':
        # the leading '>' may be left out only without a subset selector, and then
        # the ID starts with a digit or an upper-case letter
        if m.group('sub') is not None or not (rest[0] in '0123456789' or 'A' <= rest[0] <= 'Z'):
            return 'reject'
        first = '>'
    body = first + rest
    try:
        subset = _ref_slice(m.group('sub'))
        comps = []
        pos = 0
        while pos < len(body):
            cm = _COMP_RE.match(body, pos)
            if not cm or cm.end() == pos:
                return 'reject'
            comps.append((cm.group('sep'), cm.group('id'), _ref_slice(cm.group('sl'))))
            pos = cm.end()
    except ValueError:
        return 'reject'
    return 'ok ' + fmt_path(subset, comps)


# --------------------------------------------------------------------------
# the implementation's side
# --------------------------------------------------------------------------
class _Timeout(Exception):
    pass


def _alarm(signum, frame):
    raise _Timeout()


def impl_case(s, parser=None):
    """-> (canonical output incl. printout, reparse_ok or None)."""
    from pybufrkit.dataquery import NodePathParser
    parser = parser or NodePathParser()
    try:
        p = parser.parse(s)
    except _Timeout:
        return 'timeout', None
    except Exception as e:
        return 'err %d' % lib.err_code(e), None
    canon = fmt_path(p.subset_slice, [tuple(c) for c in p.components])
    try:
        printed = str(p)
    except _Timeout:
        return 'timeout', None
    except Exception as e:
        return 'ok %s P=err%d' % (canon, lib.err_code(e)), False
    try:
        p2 = NodePathParser().parse(printed)
        again = fmt_path(p2.subset_slice, [tuple(c) for c in p2.components]) == canon
    except _Timeout:
        return 'timeout', None
    except Exception:
        again = False
    return 'ok %s P=%s' % (canon, hx(printed)), again


def holds_on_impl(s, io, again):
    """The property's predicate on the implementation's answer for s, independent
    of the model: accepted iff the reference grammar accepts, with exactly the
    grammar's subset slice and components; rejected with the path-parsing error;
    the printout reparses to the same path."""
    ref = ref_parse(s)
    if ref == 'reject':
        return io == 'err 3'
    if not io.startswith('ok '):
        return False
    return io.split(' P=')[0] == ref and again is True


def _work(strings_):
    """Worker: run a list of strings through the implementation."""
    from pybufrkit.dataquery import NodePathParser
    signal.signal(signal.SIGALRM, _alarm)
    parser = NodePathParser()
    outs = []
    bad = []
    for s in strings_:
        signal.alarm(10)
        try:
            io, again = impl_case(s, parser)
        except _Timeout:
            io, again = 'timeout', None
        finally:
            signal.alarm(0)
        outs.append(io)
        if not holds_on_impl(s, io, again):
            bad.append(s)
    return outs, bad


def _work_prefix(args):
    prefix, n = args
    return _work([prefix + ''.join(t) for t in itertools.product(ALPHABET, repeat=n)])


def run_impl_many(strings_, procs=16):
    if len(strings_) < 4000:
        return _work(strings_)
    n = (len(strings_) + 4 * procs - 1) // (4 * procs)
    parts = [strings_[i:i + n] for i in range(0, len(strings_), n)]
    with multiprocessing.get_context('fork').Pool(procs) as pool:
        res = pool.map(_work, parts)
    return [o for r in res for o in r[0]], [b for r in res for b in r[1]]


# --------------------------------------------------------------------------
def check_strings(ctx, strings_, tag, kind, with_grammar=True, sample_limit=2):
    """Run strings through implementation, model and both reference grammars."""
    strings_ = list(strings_)
    if not strings_:
        return
    outs, bad = run_impl_many(strings_)
    mouts = lib.run_model_sharded(['path ' + hx(s) for s in strings_])
    gouts = lib.run_model_sharded(['grammar ' + hx(s) for s in strings_]) if with_grammar else None
    bad = set(bad)
    ctx.evaluations += len(strings_)
    n_acc = 0
    for i, s in enumerate(strings_):
        io, mo = outs[i], mouts[i]
        nontrivial = s.strip(WS) != ''
        if nontrivial:
            ctx.nontrivial.add(s if len(s) < 24 else hash(s))
        if io.startswith('ok'):
            n_acc += 1
        if io != mo:
            ctx.compare({'hex': hx(s), 'repr': repr(s)}, io, mo, kind=kind,
                        holds=lambda: s not in bad)
        elif s in bad:
            # model and implementation agree but the predicate fails: the model is
            # wrong about the property (would contradict the theorems) or the
            # Python reference grammar is
            ctx.violation({'kind': kind + '-predicate', 'case': {'hex': hx(s), 'repr': repr(s)},
                           'impl': io, 'reference': ref_parse(s)},
                          'predicate false on %r: impl=%s reference=%s' % (s, io[:80], ref_parse(s)[:80]))
        if gouts is not None:
            # the Python reference grammar against the extracted PathGrammar.grammar
            rp = ref_parse(s)
            if rp != gouts[i]:
                ctx.violation({'kind': 'reference-grammar-mismatch', 'case': {'hex': hx(s), 'repr': repr(s)},
                               'python_reference': rp, 'coq_grammar': gouts[i], 'no_failing_input': True,
                               'broken': 'harness reference grammar (regex) vs extracted PathGrammar.grammar'},
                              'reference grammars differ on %r' % s)
    ctx.dist[tag] += len(strings_)
    ctx.dist[tag + ':accepted'] += n_acc
    for i, s in enumerate(strings_):
        if outs[i].startswith('ok') and len(s) >= 5 and sample_limit > 0:
            ctx.sample({'string': repr(s), 'impl': outs[i][:200], 'model': mouts[i][:200]}, limit=8)
            sample_limit -= 1
    return outs, mouts


# --------------------------------------------------------------------------
# generators
# --------------------------------------------------------------------------
ID_CHARS = 'ABCXYZ0123456789abz_-+*#$%&\'"(),;<=?\\^`{|}~!\x7f\x00\x1c\x1f'


def gen_int(rng):
    r = rng.random()
    if r < 0.5:
        v = str(rng.choice([0, 1, 2, 3, 7, 10, 99, rng.randrange(0, 100000)]))
    elif r < 0.6:
        v = '0' * rng.randrange(1, 4) + str(rng.randrange(0, 1000))
    elif r < 0.75:
        d = str(rng.randrange(10, 10 ** 9))
        v = '_'.join([d[:2], d[2:]]) if len(d) > 2 else d
    elif r < 0.8:
        v = str(rng.randrange(10 ** 18, 10 ** 30))
    else:
        v = str(rng.randrange(0, 20))
    s = rng.random()
    if s < 0.35:
        v = '-' + v
    elif s < 0.45:
        v = '+' + v
    return v


def gen_slice(rng):
    r = rng.random()
    if r < 0.45:
        return '[' + gen_int(rng) + ']'
    n = 2 if r < 0.75 else 3
    return '[' + ':'.join(gen_int(rng) if rng.random() < 0.6 else '' for _ in range(n)) + ']'


def gen_id(rng, first=False):
    n = rng.choice([1, 1, 2, 3, 6, 6, 6, 9])
    if rng.random() < 0.7:
        i = ''.join(rng.choice('0123456789') for _ in range(6)) if rng.random() < 0.6 else \
            ''.join(rng.choice('ABCXYZ012') for _ in range(n))
    else:
        i = ''.join(rng.choice(ID_CHARS) for _ in range(n))
    if first and not (i[0].isdigit() or 'A' <= i[0] <= 'Z'):
        i = rng.choice('0A9Z') + i
    return i


def gen_expr(rng):
    parts = []
    ncomp = rng.choice([1, 1, 2, 3, 4, 6, 10, 25])
    has_subset = rng.random() < 0.4
    if has_subset:
        parts.append('@' + gen_slice(rng))
    for k in range(ncomp):
        if k == 0 and not has_subset and rng.random() < 0.5:
            sep = ''
        elif k == 0:
            sep = rng.choice('/>')
        else:
            sep = rng.choice('/.>/')
        parts.append(sep + gen_id(rng, first=(sep == '')) + (gen_slice(rng) if rng.random() < 0.5 else ''))
    s = ''.join(parts)
    if rng.random() < 0.3:       # white space anywhere
        for _ in range(rng.randrange(1, 5)):
            p = rng.randrange(0, len(s) + 1)
            s = s[:p] + rng.choice(' \t\n\r\x0b\x0c  ') + s[p:]
    return s


MUT_CHARS = STRUCT + STRUCT + '-+_019aA \t\n\x1c'


def mutate(rng, s):
    k = rng.randrange(3)
    if k == 0 or not s:
        p = rng.randrange(0, len(s) + 1)
        return s[:p] + rng.choice(MUT_CHARS) + s[p:]
    p = rng.randrange(0, len(s))
    if k == 1:
        return s[:p] + s[p + 1:]
    return s[:p] + rng.choice(MUT_CHARS) + s[p + 1:]


PROBES = [
    # lower-case letters, underscores, '+', tabs/newlines, other ASCII
    'a', '/a', '>abc_d', 'A_b', '_A', '/_', 'A+', '+A', '/+1', 'A-1', '-A', '/-', 'A[+1]', 'A[+0]', 'A[-0]',
    'A[1_0]', 'A[_1]', 'A[1_]', 'A[1__0]', 'A[+_1]', 'A[-_1]', 'A[1_0_0:2_0]', 'A[+]', 'A[-]', 'A[+-1]', 'A[--1]',
    'A[0x1]', 'A[1e3]', 'A[1a]', 'A[a]', 'A[007]', 'A[-007]', 'A[1.0]', 'A[1/2]', 'A[1>2]', 'A[1@]', 'A[[1]]',
    '\tA\n', 'A\t[\n1\r]\x0b/\x0cB', ' @ [ 1 ] / A ', '@[- 1]>A', 'A[-\t1]', 'A[1 2]', 'A B', '\n', ' \t ', '',
    '\x1cA', 'A\x1c', '\x1c', '\x1c/A', '\x1d', '\x1e@[1]/A', '/A\x1f', 'A[\x1c1]', 'A[1\x1f]', ' \x1c ',
    'A\x00B', '\x00', 'A[\x001]', 'A\x7f', '\x7f', '~', '/~', 'A!', '/"', "/'", '/(', '/a(b)', '/a,b', '/a;b',
    'A[1:2:3:4]', 'A[1:2:3:4]/B', 'A[:::]', '@[:::]/A', '@[1:2:3:4]>A', 'A[:]', 'A[::]', 'A[]', 'A[1][2]', 'A[1]B',
    'A[1]@', 'A@', '@@', '@A', '@/A', '@[1]', '@[1]A', '@[1].A', '@[1]/A', '@[1]>A', '@[1]/', 'A/', '/', 'A//B',
    'A.B', '.A', '>A', '>.A', 'A..B', 'A>>B', 'A[-1]', 'A[-2]', 'A[-5]', '@[-1]/A', '@[-3]/A[-1].B[-2]>C[0]',
    'A[' + '0' * 4300 + ']', 'A[' + '0' * 4301 + ']', 'A[' + '0' * 4299 + '7]', 'A[-' + '0' * 4299 + '7]',
    'A[' + '1' * 4301 + ']', 'A[-' + '9' * 4301 + ']', 'A[0' + '_0' * 4299 + ']', 'A[1' + '_1' * 4300 + ']',
    'A[' + '0' * 4300 + ':' + '0' * 4300 + ']', '@[' + '1' * 4301 + ']/A', '@[:' + '1' * 4301 + ']/A',
    '001001', '/301001/004001', '@[0]>001001', '/101000.031001', '/301001[0]/004001[::2].008023[-1]',
]

# large values: printing a 4300-digit number costs the extracted model ~7 s each
PROBES_THOROUGH = ['A[' + '1' * 4300 + ']', 'A[-' + '9' * 4300 + ']', 'A[1' + '_1' * 4299 + ']']

NON_ASCII_PROBES = ['\xa0A', 'A\xa0', 'A[\xa01]', 'A[١]', '　', 'A\xe9', '\xe9', 'A[1　]', '/é']


def load_corpus():
    recs = []
    d = os.path.join(lib.VERIF, 'corpus', 'C15')
    for p in sorted(glob.glob(os.path.join(d, '*.json'))):
        j = json.load(open(p))
        for r in (j if isinstance(j, list) else [j]):
            recs.append(r)
    return recs


def coq_term_of_string(s):
    return '[' + ';'.join('%d%%N' % ord(c) for c in s) + ']'


def coq_of_out(out):
    """Coq term for a canonical model output (for the vm_compute cross-check)."""
    def oz(x):
        return 'None' if x == 'N' else '(Some (%s)%%Z)' % x

    def sl(x):
        if x.startswith('i'):
            return '(SInt (%s)%%Z)' % x[1:]
        a, b, c = x[1:].split(',')
        return '(SSlice %s %s %s)' % (oz(a), oz(b), oz(c))
    if out.startswith('err '):
        code = int(out.split()[1])
        return {3: 'Err EPathExpr', 7: 'Err EAssert'}[code]
    body = out[3:].split(' P=')[0]
    sub, comps = body.split(' ')
    sub = sub[2:]
    comps = comps[2:]
    cs = []
    if comps != '-':
        for c in comps.split('|'):
            sep, idh, s = c.split(':')
            cs.append('(mkComp %s%%N %s %s)' % (sep, coq_term_of_string(unhx(idh)), sl(s)))
    return 'Ok (mkPath %s [%s])' % ('None' if sub == 'None' else '(Some %s)' % sl(sub), ';'.join(cs))


# --------------------------------------------------------------------------
def run(ctx):
    rng = ctx.rng
    L = ctx.n(5, 6)
    ctx.rule = ('(1) corpus of the D11/strip witnesses; (2) EXHAUSTIVE: every string of length <= %d over the 12 symbols '
                '{@ [ ] : / . > - 0 1 A space}; (3) random grammar-derived expressions (1..25 components, optional subset selector, '
                'signed/underscored/zero-padded/large integers, 1-3 part slices, IDs over most of printable ASCII plus NUL/DEL/FS/US, '
                'white space sprinkled in) and single-character mutations (insert/delete/replace) of them; (4) probes with lower case, '
                "underscores, '+', tabs/newlines, control characters, the 4300-digit limit; (5) Python int() vs PathParser.py_int on all tokens "
                'of length <= 4 over {+ - _ 0 1 9 space a}. Every string goes through NodePathParser().parse, str(NodePath) and a re-parse '
                'of the printout, through the extracted PathParser.parse/to_string and through the extracted grammar recogniser; compared: '
                'acceptance, subset slice, every component (separator, id, slice), error class, printout. The property predicate '
                '(accept iff an independent regex-based reference grammar accepts, with its path; reject = PathExprParsingError; '
                'printout reparses to the same path) is evaluated on the implementation for every string. Non-trivial = not blank; '
                'distinct = distinct string.' % L)
    from pybufrkit.dataquery import NodePathParser  # noqa: F401  (import failure = harness exception)

    # ---- (1) corpus ----------------------------------------------------------
    corpus = load_corpus()
    cstrings = [unhx(r['case']['hex']) for r in corpus]
    check_strings(ctx, cstrings, 'corpus', 'path-corpus')
    # the recorded witnesses must still be accepted by the model of the ORIGINAL code
    morig = lib.run_model(['pathorig ' + hx(s) for s in cstrings])
    ctx.extra['corpus_witnesses_accepted_by_parse_orig'] = sum(o.startswith('ok') for o in morig)
    for r, o in zip(corpus, morig):
        if r.get('orig_accepts') and not o.startswith('ok'):
            ctx.violation({'kind': 'corpus-witness-stale', 'case': r['case'], 'model_orig': o, 'no_failing_input': True,
                           'broken': 'parse_orig no longer accepts a recorded D11 witness'})

    # ---- (2) exhaustive enumeration --------------------------------------------
    jobs = []
    for n in range(0, L + 1):
        if n <= 2:
            jobs.append(('', n))
        else:
            for a, b in itertools.product(ALPHABET, repeat=2):
                jobs.append((a + b, n - 2))
    with multiprocessing.get_context('fork').Pool(16) as pool:
        res = pool.map(_work_prefix, jobs, chunksize=1)
    strings_ = []
    for (prefix, n) in jobs:
        strings_.extend(prefix + ''.join(t) for t in itertools.product(ALPHABET, repeat=n))
    outs = [o for r in res for o in r[0]]
    bad = set(b for r in res for b in r[1])
    assert len(outs) == len(strings_) == sum(12 ** k for k in range(L + 1))
    mouts = lib.run_model_sharded(['path ' + hx(s) for s in strings_])
    gouts = lib.run_model_sharded(['grammar ' + hx(s) for s in strings_])
    ctx.evaluations += len(strings_)
    n_acc = n_diff = n_ref_diff = 0
    by_len = {}
    for s, io, mo, go in zip(strings_, outs, mouts, gouts):
        if s.strip(WS) != '':
            ctx.nontrivial.add(s)
        if io[0] == 'o':
            n_acc += 1
            by_len[len(s)] = by_len.get(len(s), 0) + 1
        if io != mo:
            n_diff += 1
            if n_diff <= 25:
                ctx.compare({'hex': hx(s), 'repr': repr(s)}, io, mo, kind='path-exhaustive',
                            holds=lambda: s not in bad)
        elif s in bad:
            ctx.violation({'kind': 'path-exhaustive-predicate', 'case': {'hex': hx(s), 'repr': repr(s)},
                           'impl': io, 'reference': ref_parse(s)},
                          'predicate false on %r: impl=%s reference=%s' % (s, io[:80], ref_parse(s)[:80]))
        # Python reference grammar vs the extracted Coq grammar (ties the predicate
        # used above to the grammar the theorems are about)
        if (mo.split(' P=')[0] if mo[0] == 'o' else ('reject' if mo == 'err 3' else mo)) != go:
            n_ref_diff += 1
            if n_ref_diff <= 5:
                ctx.violation({'kind': 'model-vs-grammar', 'case': {'hex': hx(s), 'repr': repr(s)}, 'model': mo,
                               'coq_grammar': go, 'no_failing_input': True,
                               'broken': 'extracted parse disagrees with extracted grammar (contradicts parse_iff_grammar)'})
    ctx.dist['exhaustive'] += len(strings_)
    ctx.dist['exhaustive:accepted'] += n_acc
    ctx.extra['exhaustive_length'] = L
    ctx.extra['exhaustive_strings'] = len(strings_)
    ctx.extra['exhaustive_accepted_by_length'] = by_len
    ctx.extra['exhaustive_impl_model_differences'] = n_diff
    ctx.extra['exhaustive_predicate_failures'] = len(bad)
    # the Python reference against the Coq grammar on a slice of the space (all of it is
    # covered transitively: impl==model, model==Coq grammar, predicate(impl) uses the Python one)
    for s, go in list(zip(strings_, gouts))[::ctx.n(7, 31)]:
        if ref_parse(s) != go:
            ctx.violation({'kind': 'reference-grammar-mismatch', 'case': {'hex': hx(s), 'repr': repr(s)},
                           'python_reference': ref_parse(s), 'coq_grammar': go, 'no_failing_input': True,
                           'broken': 'harness reference grammar (regex) vs extracted PathGrammar.grammar'})
            break
    k = 0
    for s, io, mo in zip(strings_, outs, mouts):
        if io[0] == 'o' and len(s) == L and '[' in s and '@' in s:
            ctx.sample({'string': repr(s), 'impl': io, 'model': mo}, limit=3)
            k += 1
            if k >= 3:
                break
    ctx.exhaustive = True

    # ---- (3) random grammar-derived expressions and mutations -------------------
    nexpr = ctx.n(2500, 40000)
    nmut = ctx.n(6, 10)
    exprs = [gen_expr(rng) for _ in range(nexpr)]
    muts = []
    for e in exprs:
        for _ in range(nmut):
            muts.append(mutate(rng, e))
    o1 = check_strings(ctx, exprs, 'grammar-derived', 'path-random')
    o2 = check_strings(ctx, muts, 'mutations', 'path-mutation')
    acc1 = sum(o.startswith('ok') for o in o1[0])
    acc2 = sum(o.startswith('ok') for o in o2[0])
    ctx.extra['random_expressions'] = {'n': len(exprs), 'accepted': acc1,
                                       'mean_length': round(sum(map(len, exprs)) / len(exprs), 1),
                                       'max_length': max(map(len, exprs))}
    ctx.extra['mutations'] = {'n': len(muts), 'accepted': acc2, 'rejected': len(muts) - acc2}
    if acc1 < 0.9 * len(exprs):
        ctx.violation({'kind': 'harness-generator', 'no_failing_input': True,
                       'broken': 'grammar-derived generator: only %d of %d accepted' % (acc1, len(exprs))})
    if not (0.1 * len(muts) < acc2 < 0.9 * len(muts)):
        ctx.violation({'kind': 'harness-generator', 'no_failing_input': True,
                       'broken': 'mutation stream is one-sided: %d of %d accepted' % (acc2, len(muts))})

    # ---- (4) probes ---------------------------------------------------------------
    check_strings(ctx, PROBES + ([] if ctx.quick else PROBES_THOROUGH), 'probes', 'path-probe', sample_limit=0)
    # outside the model (non-ASCII): implementation only, reported, not judged
    na = {}
    for s in NON_ASCII_PROBES:
        io, again = impl_case(s)
        na[repr(s)] = io[:80]
    ctx.extra['non_ascii_probes_impl_only'] = na

    # ---- (5) Python int() vs PathParser.py_int ---------------------------------------
    toks = [''.join(t) for n in range(0, 5) for t in itertools.product('+-_019 a', repeat=n)]
    toks += ['\t1\n', '1\x0b', '\x1c1', '1\x1c', ' +1_2_3 ', '0' * 4300, '0' * 4301, '-' + '0' * 4299 + '7', '1' + '_0' * 4300, ' ' + '5' * 4301 + ' ']
    mo = lib.run_model(['pyint ' + hx(t) for t in toks])
    for t, m in zip(toks, mo):
        try:
            io = str(int(t))
        except ValueError:
            io = 'None'
        ctx.count('pyint ' + t, nontrivial=bool(t.strip()))
        ctx.dist['pyint'] += 1
        if io != m:
            ctx.violation({'kind': 'pyint-model-mismatch', 'case': {'hex': hx(t), 'repr': repr(t)}, 'impl': io, 'model': m,
                           'no_failing_input': True, 'broken': "PathParser.py_int is not CPython's int() on this ASCII token"},
                          'int(%r)=%s model=%s' % (t, io, m))

    # ---- extraction cross-check by vm_compute -----------------------------------------
    pool_ = [s for s in exprs if len(s) <= 40][:ctx.n(40, 120)] + [s for s in muts if len(s) <= 40][:ctx.n(30, 60)] + \
            [s for s in PROBES if len(s) <= 30][:20]
    souts = lib.run_model(['path ' + hx(s) for s in pool_])
    items = [('parse %s' % coq_term_of_string(s), coq_of_out(o)) for s, o in zip(pool_, souts)][:200]
    n, err = lib.vm_cross_check('C15', 'From PBK Require Import Base PathParser.', items)
    ctx.extra['extraction_cross_check_vm_compute'] = n
    if err:
        ctx.violation({'kind': 'extraction-cross-check', 'error': err, 'no_failing_input': True,
                       'broken': 'OCaml extraction of PathParser.v disagrees with vm_compute'})

    ctx.partial = [
        'C15_parse_orig_accepts_unterminated_refuted / C15_parse_orig_strip_refuted: the code as found (parse_orig) violates the '
        'property (D11; str.strip() vs string.whitespace); the positive theorems are about the repaired code (fixes/C15_*.diff)',
    ]
    ctx.assumptions = [
        'ASCII strings only: for code points >= 128 str.strip()/int() know further white space and digits (not modelled; probes reported under non_ascii_probes_impl_only)',
        'NodePathParser is constructed with the default bare_id_matches_all=True (the only use in the library)',
        'CPython 3.12 int(): sys.get_int_max_str_digits() = 4300 (the default) is part of the model',
        'the model describes the code with fixes/C15_end_of_input.diff and fixes/C15_strip_whitespace.diff applied',
    ]


def replay(ctx, rec):
    if isinstance(rec, list):          # a corpus file holds several records
        return [replay(ctx, r) for r in rec]
    s = unhx(rec['case']['hex'])
    io, again = impl_case(s)
    mo = lib.run_model(['path ' + hx(s)])[0]
    go = lib.run_model(['grammar ' + hx(s)])[0]
    ref = ref_parse(s)
    holds = holds_on_impl(s, io, again)
    if io != mo or not holds:
        ctx.violation({'kind': rec.get('kind', 'replay'), 'case': rec['case'], 'impl': io, 'model': mo,
                       'property_predicate_holds_on_impl': holds})
    return {'string': repr(s), 'impl': io, 'model': mo, 'coq_grammar': go, 'python_reference': ref,
            'printout_reparses': again, 'agree': io == mo, 'predicate_holds': holds}
