"""C06 — subsets of an uncompressed message are independent of each other."""
import itertools
import json

import lib
import bufrlib as B
import pipeline as P

LEVEL = 'proof'


def nested_json(b):
    """NestedJsonRenderer output per subset (or the error class of wiring)."""
    from pybufrkit.decoder import Decoder
    from pybufrkit.renderer import NestedJsonRenderer
    try:
        m = Decoder().process(b)
        r = NestedJsonRenderer().render(m)
        # the template data is the last parameter of section 4
        return ('ok', r[-2][-1]['value'])
    except Exception as e:
        return ('err', lib.err_code(e))


def jn(x):
    return json.dumps(x, sort_keys=True, default=lambda o: o.decode('latin-1') if isinstance(o, bytes) else str(o))


def check_case(ctx, c):
    """joint decode vs single decodes vs permuted decode, implementation only (the
    property's own predicate), plus model/implementation comparison of the joint decode."""
    eq, detail = P.compare_decode(c)
    ok_pred, why = True, ''
    i = c.get('impl_dec')
    if i and i[0] == 'ok' and c['nsub'] >= 2:
        _, jvals, jlabels, jlinks = i
        jn_nested = nested_json(c['impl_enc'][3])
        singles = []
        for k in range(c['nsub']):
            ck = dict(c, py_vals=[c['py_vals'][k]], nsub=1)
            e = P.impl_encode(ck)
            if e[0] != 'ok':
                ok_pred, why = False, 'subset %d does not encode alone: %r' % (k, e)
                break
            ck['impl_enc'] = e
            d = P.impl_decode(ck)
            singles.append((e, d))
            if d[0] != 'ok':
                ok_pred, why = False, 'subset %d does not decode alone: %r' % (k, d)
                break
            if jn(d[1][0]) != jn(jvals[k]) or d[2][0] != jlabels[k] or d[3][0] != jlinks[k]:
                ok_pred, why = False, 'subset %d differs between joint and single decode' % k
                break
            sn = nested_json(e[3])
            if jn_nested[0] != sn[0] or (sn[0] == 'ok' and jn(sn[1][0]) != jn(jn_nested[1][k])):
                if not (jn_nested[0] == 'err' or sn[0] == 'err'):
                    ok_pred, why = False, 'nested rendering of subset %d differs' % k
                    break
        # joint encode == concatenation of single encodes (bit level)
        if ok_pred and singles:
            bits = ''
            for e, _ in singles:
                h, n = e[1], e[2]
                # strip the padding of the single message: the model tells the exact bit count
                bits += bin(int(h or '0', 16))[2:].zfill(n) if n else ''
            # exact bit counts come from the model's decode ("used" field) per single
        # permutations
        if ok_pred and c['nsub'] <= 3:
            for perm in list(itertools.permutations(range(c['nsub'])))[1:3]:
                cp = dict(c, py_vals=[c['py_vals'][k] for k in perm])
                e = P.impl_encode(cp)
                if e[0] != 'ok':
                    ok_pred, why = False, 'permutation %r does not encode' % (perm,)
                    break
                cp['impl_enc'] = e
                d = P.impl_decode(cp)
                if d[0] != 'ok' or any(jn(d[1][j]) != jn(jvals[k]) or d[2][j] != jlabels[k] or d[3][j] != jlinks[k]
                                       for j, k in enumerate(perm)):
                    ok_pred, why = False, 'permutation %r does not permute the result' % (perm,)
                    break
    return eq, detail, ok_pred, why


def run(ctx):
    ctx.rule = ('uncompressed messages of 2..4 subsets over generated templates (operators left open at the end of the '
                'template, 203 definitions, delayed replication before bitmaps, bitmap reuse, 235000/237255) with values, '
                'replication counts and bitmaps drawn independently per subset; each is encoded and decoded jointly, '
                'subset by subset alone, and in permuted orders by the implementation (values, labels, links, nested '
                'rendering must agree position by position), and the joint decode is compared with the extracted model. '
                'non-trivial = at least 2 subsets and an operator or replication in the template.')
    n = ctx.n(220, 4000)
    cases = P.build_cases(ctx, n, gen_kwargs=dict(allow_unclosed=True, size=6), nsub_choices=(2, 2, 3, 4),
                          compressed=False, shared=False)
    # regression witnesses (D8, D9) first
    corpus = [
        {'ids': [12001, 201132], 'forced': '-'},
        {'ids': [101000, 31001, 12001, 7001, 222000, 101002, 31031, 33007, 33007], 'forced': '31031=0.0'},
        {'ids': [7001, 20003, 204008, 31021, 12001], 'forced': '-'},
        {'ids': [12001, 203012, 7001, 203255, 7001, 221001, 12001], 'forced': '-'},
        {'ids': [12001, 7001, 222000, 236000, 101002, 31031, 33007, 33007], 'forced': '31031=0.0'},
    ]
    pre = []
    for k, w in enumerate(corpus):
        pre.append({'ids': w['ids'], 'version': 33, 'edition': 4, 'nsub': 3, 'compressed': False,
                    'forced': w['forced'], 'seed': 1000 + k, 'maxrep': 3, 'features': {'corpus': 1}, 'shared': False})
    # subsets whose delayed replication counts DIFFER but give the same number of elements before the bitmap and the same
    # bitmap length: the back-referenced descriptors differ from subset to subset at the same positions (anything
    # remembered about them from an earlier subset is wrong for the next one)
    rng = ctx.rng
    for k in range(ctx.n(16, 200)):
        a, b2, c3 = rng.sample([12001, 10004, 11001, 7001, 1001, 20003, 13003], 3)
        op = rng.choice([223, 224, 225, 232, 222])
        m = rng.choice([2, 3])
        sig = [8023] if op == 224 else [8024] if op == 225 else []
        tail = [33007] * m if op == 222 else sig + [op * 1000 + 255] * m
        ids = [a, 101000, 31001, b2, 101000, 31001, c3, op * 1000, 236000, 101000 + m, 31031] + tail
        nsub = rng.choice([2, 3, 4])
        tot = rng.choice([2, 3])
        variants = []
        for j in range(nsub):
            n1 = (j + k) % (tot + 1)
            variants.append('31001=%d.%d;31031=%s' % (n1, tot - n1, '.'.join(['0'] * m)))
        pre.append({'ids': ids, 'version': 33, 'edition': 4, 'nsub': nsub, 'compressed': False, 'forced': '||'.join(variants),
                    'seed': rng.randrange(1, 2 ** 32), 'maxrep': 3, 'features': {'same-boundary-different-layout': 1}, 'shared': False})
    cases = pre + cases
    P.attach_templates(cases)
    P.run_gen(cases)
    P.run_encode(cases)
    P.run_decode(cases)
    for c in cases:
        if not c.get('toks') or not c.get('gen', '').startswith('ok'):
            ctx.dist['generator-rejected'] += 1
            continue
        if c['impl_enc'][0] != 'ok':
            ctx.dist['encode-refused-%d' % c['impl_enc'][1]] += 1
            me = c.get('model_enc', '')
            ctx.count(('enc', tuple(c['ids']), c['seed']), False)
            ctx.compare({'ids': c['ids'], 'seed': c['seed'], 'forced': c['forced'], 'nsub': c['nsub']},
                        'err %d' % c['impl_enc'][1], me.split(' ')[0] + (' ' + me.split(' ')[1] if me.startswith('err') else ''),
                        kind='C06-encode-error-class')
            continue
        for f in c['features']:
            ctx.dist[f] += 1
        with lib.time_limit(120):
            eq, detail, ok_pred, why = check_case(ctx, c)
        nontriv = c['nsub'] >= 2 and any(i >= 100000 for i in c['ids'])
        ctx.count((tuple(c['ids']), c['seed']), nontriv)
        case = {'ids': c['ids'], 'seed': c['seed'], 'forced': c['forced'], 'nsub': c['nsub'], 'version': c['version']}
        if not ok_pred:
            ctx.violation({'kind': 'C06-subset-dependence', 'case': case, 'why': why},
                          'ids=%s: %s' % (c['ids'], why))
        elif not eq and 'ulp=1' not in detail:
            ctx.compare(case, 'impl', 'model', kind='C06-model-mismatch', holds=lambda: True, extra={'detail': detail})
        if nontriv:
            ctx.sample({'ids': c['ids'], 'nsub': c['nsub'], 'values_subset0': c['val_toks'][0][:12]}, limit=3)
    ctx.partial = ['hierarchical structure of a subset (wiring) is a function of that subset\'s flat lists (C09 theorems); '
                   'its independence is observed on the implementation, joint vs single']
    ctx.assumptions = ['the model describes /repo after "fix: reset operator and bitmap state at the start of each subset"',
                       'NestedJsonRenderer output compared between joint and single decodes only when wiring succeeds on both']


def replay(ctx, rec):
    c = rec['case']
    cases = [{'ids': c['ids'], 'version': c.get('version', 33), 'edition': 4, 'nsub': c['nsub'], 'compressed': False,
              'forced': c['forced'], 'seed': c['seed'], 'maxrep': 3, 'features': {}, 'shared': False}]
    P.attach_templates(cases); P.run_gen(cases); P.run_encode(cases); P.run_decode(cases)
    eq, detail, ok_pred, why = check_case(ctx, cases[0])
    if not ok_pred:
        ctx.violation({'kind': 'C06-subset-dependence', 'case': c, 'why': why})
    return {'model_equal': eq, 'detail': detail, 'predicate': ok_pred, 'why': why}
