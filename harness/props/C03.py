"""C03 — decode/encode round trip: quantisation bound, range refusal, canonical fixpoint."""
import glob
import json
import math
import os
from fractions import Fraction

import lib
import bufrlib as B
import pipeline as P
import tmplgen

LEVEL = 'proof'


def to_json_flat(msg):
    """FlatJsonRenderer output through real JSON text (this is where floats are printed)."""
    from pybufrkit.renderer import FlatJsonRenderer
    from pybufrkit.utils import EntityEncoder  # noqa
    data = FlatJsonRenderer().render(msg)
    return json.loads(json.dumps(data, cls=EntityEncoder))


def reencode(b):
    from pybufrkit.decoder import Decoder
    from pybufrkit.encoder import Encoder
    m = Decoder().process(b)
    return Encoder().process(to_json_flat(m), wire_template_data=False).serialized_bytes


def reencode_encoder_message(b):
    """The rendering of a message that the ENCODER produced (its values are what the JSON text held: str for character
    data, not the bytes a decode gives), re-encoded: must be the same bytes again."""
    from pybufrkit.decoder import Decoder
    from pybufrkit.encoder import Encoder
    m = Decoder().process(b)
    m2 = Encoder().process(to_json_flat(m), wire_template_data=False)        # an encoder-produced message object
    return Encoder().process(to_json_flat(m2), wire_template_data=False).serialized_bytes


def ghost_check(ctx, cases):
    """The conclusion of theorem decode_encode on the implementation: whenever the
    ghost encoder accepts (measured: non-vacuity), its bits are the implementation's
    bits and its ghost values are what the implementation's decoder returns."""
    live = [c for c in cases if c.get('py_vals') is not None and not c['compressed']
            and c.get('impl_enc') and c['impl_enc'][0] == 'ok']
    lines = ['encg %s %s' % (B.subsets_to_model(c['py_vals']), c['toks']) for c in live]
    outs = lib.run_model_sharded(lines)
    accepted = 0
    for c, o in zip(live, outs):
        case = {'ids': c['ids'], 'seed': c['seed'], 'forced': c['forced'], 'nsub': c['nsub'],
                'version': c['version'], 'edition': c['edition'],
                'varied': bool(c.get('features', {}).get('strings-short-or-with-leading-blanks'))}
        if not o.startswith('ok '):
            ctx.dist['ghost-encoder-refused ' + o] += 1
            continue
        accepted += 1
        _, bits, labels_s, links_s, ghost_s = o.split(' ')
        c['model_enc'] = 'ok ' + bits
        eq, detail = P.compare_encode(c)
        if not eq:
            ctx.compare(case, 'impl', 'model', kind='C03-ghost-bits', holds=lambda: P.roundtrip_holds(c),
                        extra={'detail': detail})
            continue
        i = c.get('impl_dec')
        if not i or i[0] != 'ok':
            rec = {'kind': 'C03-decode-of-encode-fails', 'case': case, 'impl': repr(i)[:200]}
            if i and i[0] == 'err' and i[1] == 9 and P.wide_field_cause(c):
                rec['cause'] = 'field-wider-than-64-bits'          # D26
            ctx.violation(rec, 'the implementation cannot decode what it encoded: ids=%s' % c['ids'])
            continue
        ghost = B.parse_model_subsets(ghost_s)
        bad = None
        for si, (gs, vs) in enumerate(zip(ghost, i[1])):
            if len(gs) != len(vs):
                bad = 'subset %d length' % si
                break
            for k, (tok, v) in enumerate(zip(gs, vs)):
                ok, note = B.value_matches(tok, v)
                if not ok:
                    bad = 'subset %d value %d impl=%r ghost=%s %s' % (si, k, v, tok, note)
                    break
            if bad:
                break
        if bad and 'ulp=1' in bad and 'scale=-' in bad:
            ctx.dist['decode-1ulp (C01 D12)'] += 1
        elif bad:
            ctx.violation({'kind': 'C03-ghost-values', 'case': case, 'detail': bad},
                          'decode(encode(v)) is not the quantised re-reading: ' + bad)
    ctx.extra['ghost_encoder_accepted'] = accepted
    ctx.extra['ghost_encoder_cases'] = len(live)
    if live and accepted < 0.9 * len(live):
        ctx.violation({'kind': 'C03-vacuity', 'no_failing_input': True,
                       'broken': 'theorem decode_encode applies to only %d of %d generated cases' % (accepted, len(live))})


def boundary_cases(ctx, n_elems):
    """Boundary / half-way user values for numeric Table B elements under random
    201/202/207; returns list of (ids, value, meta)."""
    rng = ctx.rng
    p = tmplgen.pools(33)
    out = []
    for _ in range(n_elems):
        e = rng.choice(p.numeric)
        name, unit, scale, ref, nbits = p.b[e][:5]
        ops_open, ops_close = [], []
        dn = ds = 0
        factor = 1
        k = rng.random()
        if k < 0.1 and scale == 0:
            y = 128 + rng.choice([54, 55, 56, 60, 63, 64]) - nbits      # wider than a double's mantissa
            ops_open.append(201000 + y); ops_close.append(201000); dn += y - 128
        elif k < 0.25:
            y = rng.choice([129, 130, 126, 125, 136])
            ops_open.append(201000 + y); ops_close.append(201000); dn += y - 128
        elif k < 0.45:
            y = rng.choice([129, 130, 127, 126])
            ops_open.append(202000 + y); ops_close.append(202000); ds += y - 128
        elif k < 0.6:
            y = rng.choice([1, 2, 3])
            ops_open.append(207000 + y); ops_close.append(207000)
            dn += (10 * y + 2) // 3; ds += y; factor = 10 ** y
        w = nbits + dn
        s = scale + ds
        r = ref * factor
        if not (1 <= w <= 64):
            continue
        ids = ops_open + [e] + ops_close[::-1]
        raws = {-1, 0, 1, 2 ** w - 2, 2 ** w - 1, 2 ** w, rng.randrange(0, 2 ** w), 2 ** (w - 1),
                rng.randrange(0, 2 ** w) | 1, 2 ** (w - 1) + 1}
        for raw in raws:
            q = Fraction(raw + r) / Fraction(10) ** s if s >= 0 else Fraction(raw + r) * Fraction(10) ** (-s)
            cands = []
            if s == 0:
                cands.append(raw + r)                      # integers where the effective scale is 0
            else:
                f = B.nearest_double(raw + r, s)
                cands += [f, math.nextafter(f, math.inf), math.nextafter(f, -math.inf)]
                # half-way points between two grid values and their neighbours
                h = float(q + Fraction(1, 2) / Fraction(10) ** s) if s > 0 else None
                if h is not None and math.isfinite(h):
                    cands += [h, math.nextafter(h, math.inf), math.nextafter(h, -math.inf)]
            for v in cands:
                out.append((ids, v, {'elem': e, 'w': w, 's': s, 'r': r}))
    return out


def run_boundary(ctx, items):
    from pybufrkit.decoder import Decoder
    lines, metas = [], []
    toks_cache = {}
    for ids, v, meta in items:
        key = tuple(ids)
        if key not in toks_cache:
            toks_cache[key] = B.template_tokens(B.template_from_ids(ids, 33))
        lines.append('encu %s %s' % (B.subsets_to_model([[v]]), toks_cache[key]))
        metas.append((ids, v, meta))
    mouts = lib.run_model_sharded(lines)
    for (ids, v, meta), line, mo in zip(metas, lines, mouts):
        w, s, r = meta['w'], meta['s'], meta['r']
        case = {'ids': ids, 'value': B.python_value_to_model(v), 'w': w, 's': s, 'r': r}
        try:
            with lib.time_limit(20):
                m = B.encode_message(ids, [[v]])
            b = m.serialized_bytes
            off, n = B.data_section_bits(b)
            io = ('ok', b[off:off + n].hex(), 8 * n, b)
        except Exception as e:
            io = ('err', lib.err_code(e))
        c = {'impl_enc': io, 'model_enc': mo, 'edition': 4}
        eq, detail = P.compare_encode(c)
        ctx.count(line, True)
        ctx.dist['boundary accepted' if io[0] == 'ok' else 'boundary refused'] += 1
        # the property's own predicate, in exact rational arithmetic, on the implementation
        q = Fraction(v)
        scaled = q * (Fraction(10) ** s if s >= 0 else 1 / Fraction(10) ** (-s))
        lo, hi = Fraction(r) - Fraction(1, 2), Fraction(2 ** w - 1 + r) + Fraction(1, 2)
        pred = True
        why = ''
        if io[0] == 'ok':
            try:
                _, vals, _, _ = B.decode_impl(io[3])
                d = vals[0][0]
            except Exception as ex:
                d = ('decode-error', lib.err_code(ex))
            # which raw was written?
            bits = P.hex_to_bits(io[1], io[2])[:w]
            raw = int(bits, 2) if bits else 0
            if abs(Fraction(raw + r) - scaled) > Fraction(1, 2) + abs(scaled) * Fraction(1, 2 ** 51) + Fraction(1, 10 ** 9):
                pred, why = False, 'written raw %d is not within half a unit of the scaled value %s' % (raw, float(scaled - r))
            elif w > 1 and raw == 2 ** w - 1:
                if d is not None:
                    pred, why = False, 'all-ones pattern did not read back as missing: %r' % (d,)
            elif isinstance(d, tuple):
                pred, why = False, 'decode failed %r' % (d,)
            else:
                unit = Fraction(1, 2) / (Fraction(10) ** s) if s >= 0 else Fraction(1, 2) * Fraction(10) ** (-s)
                if d is None or abs(Fraction(d) - q) > unit * (1 + Fraction(1, 10 ** 9)) + abs(q) * Fraction(1, 2 ** 51):
                    pred, why = False, 'read back %r for %r: more than half a unit away' % (d, v)
        else:
            # refused: legitimate only if the scaled value is outside the representable range
            # (within one float rounding of the range boundary either outcome is acceptable)
            if lo + Fraction(1, 1000) < scaled < hi - Fraction(1, 1000) and s != 0:
                pred, why = False, 'refused a representable value %r (scaled %s)' % (v, float(scaled))
            if s == 0 and r <= scaled <= 2 ** w - 1 + r and scaled.denominator == 1:
                pred, why = False, 'refused a representable integer %r' % (v,)
        if not eq:
            rec = {'kind': 'C03-boundary-mismatch', 'case': case, 'detail': detail,
                   'property_predicate_holds_on_impl': pred}
            if pred:
                rec['no_failing_input'] = True
                rec['broken'] = 'correspondence Encode.scaled_int (Float53) / encoder.py'
            ctx.violation(rec, 'ids=%s value=%r %s %s' % (ids, v, detail, why))
        elif not pred:
            ctx.violation({'kind': 'C03-quantisation', 'case': case, 'why': why}, 'ids=%s value=%r: %s' % (ids, v, why))
    ctx.sample({'boundary_case': lines[0][:160], 'model': mouts[0][:80]})


def run_boundary_compressed(ctx, items):
    """The same boundary / half-way user values, several per element, as the subsets of ONE compressed message (differing
    values: neither the all-equal nor the all-missing shortcut): every value must read back within half a unit, exactly
    as when the same subsets are encoded uncompressed, and the bits must be those of the extracted EncodeC."""
    rng = ctx.rng
    groups = {}
    for ids, v, meta in items:
        if meta['s'] != 0 and meta['w'] <= 50:
            groups.setdefault(tuple(ids), []).append((v, meta))
    lines, metas = [], []
    for ids, vm in groups.items():
        for _ in range(3):
            k = rng.choice([2, 3, 4])
            if len(vm) < k:
                continue
            pick = rng.sample(vm, k)
            w, sc, r = pick[0][1]['w'], pick[0][1]['s'], pick[0][1]['r']
            vals = []
            for v, _ in pick:
                scaled = Fraction(v) * (Fraction(10) ** sc if sc >= 0 else 1 / Fraction(10) ** (-sc))
                if Fraction(r) + 1 < scaled < Fraction(2 ** w - 2 + r) - 1:       # representable with room: never refused
                    vals.append(v)
            if len(vals) < 2 or len(set(vals)) < 2:
                continue
            toks = B.template_tokens(B.template_from_ids(list(ids), 33))
            lines.append('encc %s %s' % (B.subsets_to_model([[v] for v in vals]), toks))
            metas.append((list(ids), vals, pick[0][1]))
    mouts = lib.run_model_sharded(lines) if lines else []
    for (ids, vals, meta), line, mo in zip(metas, lines, mouts):
        w, sc, r = meta['w'], meta['s'], meta['r']
        case = {'ids': ids, 'values': [B.python_value_to_model(v) for v in vals], 'compressed': True, 'w': w, 's': sc, 'r': r}
        ctx.count(line, True)
        ctx.dist['boundary-compressed'] += 1
        try:
            with lib.time_limit(20):
                bc = B.encode_message(ids, [[v] for v in vals], compressed=True).serialized_bytes
                bu = B.encode_message(ids, [[v] for v in vals], compressed=False).serialized_bytes
            _, dc, _, _ = B.decode_impl(bc)
            _, du, _, _ = B.decode_impl(bu)
        except Exception as ex:
            ctx.violation({'kind': 'C03-compressed-boundary', 'case': case, 'error': lib.err_code(ex)},
                          'ids=%s values=%r: representable off-grid values refused or not decodable when compressed' % (ids, vals))
            continue
        unit = Fraction(1, 2) / (Fraction(10) ** sc) if sc >= 0 else Fraction(1, 2) * Fraction(10) ** (-sc)
        for j, v in enumerate(vals):
            d, u = dc[j][0], du[j][0]
            q = Fraction(v)
            if d is None or abs(Fraction(d) - q) > unit * (1 + Fraction(1, 10 ** 9)) + abs(q) * Fraction(1, 2 ** 51):
                ctx.violation({'kind': 'C03-quantisation-compressed', 'case': case, 'subset': j, 'read_back': repr(d)},
                              'ids=%s compressed: %r read back as %r, more than half a unit away' % (ids, v, d))
                break
            if d != u:
                ctx.violation({'kind': 'C03-compressed-differs-from-uncompressed', 'case': case, 'subset': j,
                               'compressed': repr(d), 'uncompressed': repr(u)},
                              'ids=%s: %r reads back as %r compressed and %r uncompressed' % (ids, v, d, u))
                break
        else:
            off, n = B.data_section_bits(bc)
            c = {'impl_enc': ('ok', bc[off:off + n].hex(), 8 * n, bc), 'model_enc': mo, 'edition': 4}
            eq, detail = P.compare_encode(c)
            if not eq:
                ctx.compare(case, 'impl', 'model', kind='C03-compressed-boundary-bits', holds=lambda: True, extra={'detail': detail})


def pow10_probe(ctx):
    """Assumption check: CPython's 10 ** s for negative s is the correctly rounded
    1/10^|s| that Float53.pow10_double computes."""
    items = []
    for s in list(range(-40, 0)) + [-100, -200, -300]:
        f = 10 ** s
        num, den = f.as_integer_ratio()
        k = den.bit_length() - 1
        items.append(('let d := Float53.pow10_double (%d) in if (0 <=? snd d + %d) then (fst d * 2 ^ (snd d + %d) =? %d) '
                      'else (fst d =? %d * 2 ^ (- (snd d + %d)))' % (s, k, k, num, num, k), 'true'))
    n, err = lib.vm_cross_check('C03', 'From PBK Require Import Base Float53.\nOpen Scope Z_scope.', items[:25])
    ctx.extra['pow10_doubles_checked_in_coq'] = n
    if err:
        ctx.violation({'kind': 'C03-pow10-assumption', 'error': err, 'no_failing_input': True,
                       'broken': 'Float53.pow10_double vs CPython 10**s'})


def fixpoint_checks(ctx, cases):
    n = 0
    for c in cases:
        e = c.get('impl_enc')
        if not e or e[0] != 'ok':
            continue
        case = {'ids': c['ids'], 'seed': c['seed'], 'forced': c['forced'], 'nsub': c['nsub'],
                'version': c['version'], 'edition': c['edition'],
                'varied': bool(c.get('features', {}).get('strings-short-or-with-leading-blanks'))}
        try:
            with lib.time_limit(60):
                b1 = reencode(e[3])
        except Exception as ex:
            # wiring can fail on templates outside wire()'s reach (known findings D14/D16 of C07/C09)
            ctx.dist['fixpoint-skipped-render-error-%d' % lib.err_code(ex)] += 1
            continue
        n += 1
        ctx.count(('fix', tuple(c['ids']), c['seed']), True)
        if b1 != e[3]:
            i = c.get('impl_dec')
            ctx.violation({'kind': 'C03-fixpoint', 'case': case, 'first': e[3].hex()[:200], 'second': b1.hex()[:200]},
                          'E(D(E(x))) != E(x) for ids=%s' % c['ids'])
            continue
        try:
            with lib.time_limit(60):
                b2 = reencode_encoder_message(e[3])
        except Exception as ex:
            ctx.violation({'kind': 'C03-fixpoint-encoder-message', 'case': case, 'error': lib.err_code(ex)},
                          'the rendering of an encoder-produced message cannot be encoded again: ids=%s' % c['ids'])
            continue
        ctx.dist['fixpoint-encoder-message'] += 1
        if b2 != e[3]:
            ctx.violation({'kind': 'C03-fixpoint-encoder-message', 'case': case, 'first': e[3].hex()[:200], 'second': b2.hex()[:200]},
                          'E(render(E(x))) != E(x) for the message object the encoder produced, ids=%s' % c['ids'])
    ctx.extra['fixpoint_cases'] = n


def corpus_fixpoint(ctx, files):
    for f in files:
        b = open(f, 'rb').read()
        try:
            with lib.time_limit(180):
                b1 = reencode(b)
        except Exception as ex:
            ctx.dist['corpus-skipped-%d' % lib.err_code(ex)] += 1
            continue
        try:
            with lib.time_limit(180):
                b2 = reencode(b1)
        except Exception as ex:
            ctx.violation({'kind': 'C03-corpus-second-roundtrip-fails', 'file': os.path.basename(f), 'error': lib.err_code(ex)},
                          'second round trip of %s fails' % f)
            continue
        ctx.count(('corpus', os.path.basename(f)), True)
        ctx.dist['corpus-files'] += 1
        if b1 != b2:
            ctx.violation({'kind': 'C03-corpus-fixpoint', 'file': os.path.basename(f)},
                          'second decode/encode round trip of %s differs from the first' % f)


def run(ctx):
    ctx.rule = ('(1) generated messages as in C01/C02: the ghost encoder of theorem decode_encode must accept them (non-vacuity is '
                'measured), write the implementation\'s bits, and predict what the implementation\'s decoder returns; '
                '(2) boundary values per numeric Table B element under random 201/202/207: raw in {-1,0,1,2^n-2,2^n-1,2^n,random}, '
                'the nearest double, its neighbours, half-way points and their neighbours: accept/refuse and bits compared '
                'with the model (exact dyadic input, Float53), and the quantisation bound / refusal rule checked in exact '
                'rational arithmetic on the implementation; (3) fixpoint E(D(E(x))) = E(x) through FlatJsonRenderer and JSON text; '
                '(4) sample corpus: second round trip byte-identical to the first. non-trivial: every boundary case and '
                'every generated case with an operator or replication.')
    n = ctx.n(300, 6000)
    cases = P.build_cases(ctx, n, gen_kwargs=dict(size=6), nsub_choices=(1, 1, 2, 3), compressed=False,
                          versions=(33, 33, 25, 19), editions=(4, 4, 3), shared=False)
    # the SAME descriptor list under two master table versions that define one of its elements differently, encoded and
    # decoded in this one process, both orders (A, B, A): nothing built for one message may serve the other
    rng0 = ctx.rng
    vs = [13, 14, 15, 16, 17, 18, 19, 25, 28, 30, 33]
    pools = {}
    for v in vs:
        try:
            pools[v] = tmplgen.pools(v)
        except Exception:
            pass
    diffs = []
    vl = sorted(pools)
    for i, a in enumerate(vl):
        for b2 in vl[i + 1:]:
            for e in pools[a].numeric:
                if e in pools[b2].b and e // 1000 != 31 and pools[a].b[e][2:5] != pools[b2].b[e][2:5] \
                        and 2 <= pools[a].b[e][4] <= 30 and 2 <= pools[b2].b[e][4] <= 30:
                    diffs.append((e, a, b2))
    for _ in range(min(ctx.n(8, 120), len(diffs))):
        e, a, b2 = rng0.choice(diffs)
        ids = [1001, e, 1002] if rng0.random() < 0.5 else [101002, e]
        order = [a, b2, a] if rng0.random() < 0.5 else [b2, a, b2]
        for v in order:
            cases.append({'ids': ids, 'version': v, 'edition': 4, 'nsub': rng0.choice([1, 2]), 'compressed': False, 'forced': '-',
                          'seed': rng0.randrange(1, 2 ** 32), 'maxrep': 3, 'features': {'same-list-across-table-versions': 1},
                          'shared': False})
    # an element whose reference value was redefined by 203YYY, used under 201 / 202 / 207 (the new reference value
    # takes part in the 207 scaling), and strings with leading blanks / short strings (the JSON text path of the fixpoint)
    rng = ctx.rng
    pl = tmplgen.pools(33)
    for k in range(ctx.n(30, 400)):
        e = rng.choice([i for i in pl.numeric if pl.b[i][4] <= 24])
        y = rng.choice([10, 12, 16, 20])
        on = rng.choice([207001, 207002, 207003, 201130, 202129, 207001])
        ids = [203000 + y, e, 203255, on, e, on // 1000 * 1000, e, 203000, e]
        if k % 3 == 0:
            ids = [rng.choice(pl.string)] + ids + [rng.choice(pl.string)]
        cases.append({'ids': ids, 'version': 33, 'edition': 4, 'nsub': rng.choice([1, 2]), 'compressed': False, 'forced': '-',
                      'seed': rng.randrange(1, 2 ** 32), 'maxrep': 3, 'features': {'203-definition-used-under-modifier': 1},
                      'shared': False})
    P.attach_templates(cases)
    P.run_gen(cases)
    import random
    for c in cases:
        if c.get('val_toks') and rng.random() < 0.25:
            if P.vary_string_lengths(c, random.Random(c['seed'] ^ 0x5A5A5A), lead_blanks=True):
                c['features']['strings-short-or-with-leading-blanks'] = 1
    P.run_encode(cases)
    P.run_decode(cases)
    for c in cases:
        if c.get('py_vals') is not None:
            ctx.count((tuple(c['ids']), c['seed']), any(i >= 100000 for i in c['ids']))
            for f in c['features']:
                ctx.dist[f] += 1
    ghost_check(ctx, cases)
    bitems = boundary_cases(ctx, ctx.n(120, 2500))
    run_boundary(ctx, bitems)
    run_boundary_compressed(ctx, bitems)
    fixpoint_checks(ctx, cases[:ctx.n(120, 1500)])
    files = sorted(glob.glob(os.path.join(lib.REPO, 'tests', 'data', '*.bufr')))
    if not ctx.quick:
        files += sorted(glob.glob(os.path.join(lib.REPO, 'tests', 'benchmark_data', '*.bufr')))
    else:
        files = [f for f in files if os.path.getsize(f) < 20000][:8]
    corpus_fixpoint(ctx, files)
    pow10_probe(ctx)
    ctx.partial = ['C03_round_half_even_bound_partial: the bound is about the double product fl(v*10^s); the float rounding '
                   'error of the product and regrid_exact (re-encoding a decoded double gives the same integer) are compared '
                   'bit-exactly with CPython on boundary values, not proved',
                   'fixpoint E(D(E(x)))=E(x) and the corpus fixpoint go through repr/JSON text: differential only',
                   'compressed messages: C03_decode_encode_compressed is proved for all templates; its non-vacuity and the ghost values are measured in the C05 check (ghost_templates_check), not here']
    ctx.assumptions = ['CPython float multiply = IEEE-754 round-to-nearest-even (Float53.fmul); 10**s for negative s correctly rounded '
                       '(checked for a sample of s inside Coq on every run)']


def replay(ctx, rec):
    c = rec['case']
    if 'values' in c and c.get('compressed'):
        # one compressed boundary message: re-run exactly these subsets
        vals = [B.model_value_to_python(t) for t in c['values']]
        meta = {'w': c['w'], 's': c['s'], 'r': c['r']}

        class _R:                                  # deterministic "choice": all the values, in order
            def choice(self, l): return len(vals) if len(vals) in l else l[-1]
            def sample(self, l, k): return l[:k]
        old_rng, ctx.rng = ctx.rng, _R()
        try:
            run_boundary_compressed(ctx, [(c['ids'], v, meta) for v in vals])
        finally:
            ctx.rng = old_rng
        return {'violations': len(ctx.violations)}
    if 'value' in c:
        v = B.model_value_to_python(c['value'])
        run_boundary(ctx, [(c['ids'], v, {'w': c['w'], 's': c['s'], 'r': c['r']})])
        return {'violations': len(ctx.violations)}
    cases = [{'ids': c['ids'], 'version': c.get('version', 33), 'edition': c.get('edition', 4), 'nsub': c['nsub'],
              'compressed': False, 'forced': c['forced'], 'seed': c['seed'], 'maxrep': 3, 'features': {}, 'shared': False}]
    P.attach_templates(cases); P.run_gen(cases)
    if c.get('varied'):
        P.vary_string_lengths(cases[0], random.Random(c['seed'] ^ 0x5A5A5A), lead_blanks=True)
    P.run_encode(cases); P.run_decode(cases)
    ghost_check(ctx, cases)
    fixpoint_checks(ctx, cases)
    return {'violations': len(ctx.violations)}
