"""Shared by C04 and C17: message generator (flat JSON for the Encoder, hand-packed
bytes for the Decoder), canonical rendering of BufrMessage objects in the format
of model/drv_frame.ml, export of definitions/*.json, and an independent framing
parser (the property's own predicate)."""
import glob
import json
import os

import lib

DEFDIR = os.path.join(lib.REPO, 'pybufrkit', 'definitions')
TYPE_CODES = {'uint', 'bytes', 'bin', 'bool', 'unexpanded_descriptors', 'template_data'}


# ---------------------------------------------------------------------------
# definitions/*.json as data
# ---------------------------------------------------------------------------
def load_definitions():
    """[(index, edition or None, dict)] sorted like Frame.definitions."""
    out = []
    for f in glob.glob(os.path.join(DEFDIR, 'section*.json')):
        base = os.path.splitext(os.path.basename(f))[0][7:]
        if '-' in base:
            idx, ed = [int(x) for x in base.split('-')]
        else:
            idx, ed = int(base), None
        out.append((idx, ed, json.load(open(f))))
    out.sort(key=lambda t: (t[0], -1 if t[1] is None else t[1]))
    return out


def layout_line(idx, ed, d):
    """The same canonical line drv_frame.ml's 'layouts' prints for one file.
    Unknown keys are appended so that any new field shows as a difference."""
    ps = []
    for p in d['parameters']:
        exp = p.get('expected')
        extra = sorted(set(p) - {'name', 'nbits', 'type', 'expected', 'as_property'})
        ps.append(':'.join([p['name'], str(p['nbits']), p['type'],
                            '-' if exp is None else exp.encode('utf-8').hex(),
                            '1' if p.get('as_property', False) else '0'] + extra))
    extra = sorted(set(d) - {'index', 'description', 'default', 'optional', 'end_of_message', 'parameters'})
    flags = ['1' if d.get(k, False) else '0' for k in ('default', 'optional', 'end_of_message')]
    line = '|'.join([str(d['index']), '-' if ed is None else str(ed)] + flags + [','.join(ps)] + extra)
    if d['index'] != idx:
        line += '|file-index-mismatch'
    return line


def check_layouts(ctx):
    """Data tie: the literal layouts of Frame.v against the files under /repo."""
    model = sorted(lib.run_model(['layouts'])[0].split(';'))
    impl = sorted(layout_line(i, e, d) for (i, e, d) in load_definitions())
    ctx.count('layouts', True)
    ctx.dist['layout-files'] += len(impl)
    if model != impl:
        diff = [x for x in impl if x not in model] + [x for x in model if x not in impl]
        ctx.violation({'kind': 'layout-data-tie', 'differences': diff[:6], 'no_failing_input': True,
                       'broken': 'definitions/*.json differ from the literal layouts of Frame.v'},
                      'definition files differ from Frame.v: ' + str(diff[:2])[:200])
        return False
    return True


_DEFS = None


def section_params(index, edition):
    """The parameter list the implementation would use (for value conversion)."""
    global _DEFS
    if _DEFS is None:
        _DEFS = load_definitions()
    cands = [(e, d) for (i, e, d) in _DEFS if i == index]
    for e, d in cands:
        if e == edition:
            return d['parameters']
    for e, d in cands:
        if e is None or d.get('default'):
            return d['parameters']
    raise KeyError(index)


def all_param_names():
    global _DEFS
    if _DEFS is None:
        _DEFS = load_definitions()
    names = []
    for _, _, d in _DEFS:
        for p in d['parameters']:
            if p['name'] not in names:
                names.append(p['name'])
    return names


# ---------------------------------------------------------------------------
# generator
# ---------------------------------------------------------------------------
def sec1_values(ed, flag, rng=None, length=0):
    r = (lambda n: rng.randrange(n)) if rng is not None else (lambda n: 0)
    fb = ''.join('01'[r(2)] for _ in range(7)) if rng is not None else '0000000'
    if ed == 4:
        return [length, 0, r(65536), r(65536), r(256), flag, fb, r(256), r(256), r(256), 33, 0,
                2000 + r(30), 1 + r(12), 1 + r(28), r(24), r(60), r(60)]
    if ed == 3:
        return [length, 0, r(256), r(256), r(256), flag, fb, r(256), r(256), 33, 0,
                r(100), 1 + r(12), 1 + r(28), r(24), r(60), r(60)]
    return [length, 0, r(65536), r(256), flag, fb, r(256), r(256), 33, 0,
            r(100), 1 + r(12), 1 + r(28), r(24), r(60), r(60)]


def build_json(ed, data_bits, sec2=None, lens=None, sig='BUFR', stop='7777', rng=None, edition_field=None):
    """Flat JSON message: template of len(data_bits) one-bit elements 031031.
    lens: declared lengths {0: total, 1:, 2:, 3:, 4:} (default 0 = compute)."""
    lens = lens or {}
    flag = sec2 is not None
    msg = [[sig, lens.get(0, 0), ed if edition_field is None else edition_field],
           sec1_values(ed, flag, rng, lens.get(1, 0))]
    if flag:
        msg.append([lens.get(2, 0), '00000000', sec2])
    fb = ''.join('01'[rng.randrange(2)] for _ in range(6)) if rng is not None else '000000'
    msg.append([lens.get(3, 0), '00000000', 1, True, False, fb, [31031] * len(data_bits)])
    msg.append([lens.get(4, 0), '00000000', [[int(c) for c in data_bits]]])
    msg.append([stop])
    return json.loads(json.dumps(msg))


def exact_lengths(ed, n_data_bits, sec2):
    """Independent arithmetic for the real extent (octets) of each section."""
    def pad(nbits):
        unit = 16 if ed <= 3 else 8
        return (nbits + unit - 1) // unit * unit // 8
    out = {1: pad(sum(p['nbits'] for p in section_params(1, ed)))}
    if sec2 is not None:
        out[2] = pad(32 + len(sec2))
    out[3] = pad(56 + 16 * n_data_bits)
    out[4] = pad(32 + n_data_bits)
    out[0] = 8 + sum(out.values()) + 4
    return out


def value_token(ptype, v):
    if ptype == 'uint':
        return 'u%d' % int(v)
    if ptype == 'bytes':
        b = v.encode('latin-1') if isinstance(v, str) else bytes(v)
        return 'y' + (b.hex() or '-')
    if ptype == 'bin':
        return 'n' + (v or '-')
    if ptype == 'bool':
        return 'b1' if v else 'b0'
    if ptype == 'unexpanded_descriptors':
        return 'd' + ('.'.join(str(x) for x in v) or '-')
    if ptype == 'template_data':
        if hasattr(v, 'decoded_values_all_subsets'):
            v = v.decoded_values_all_subsets
        bits = ''.join('1' if x is None else str(int(x)) for sub in v for x in sub)
        return 'D' + (bits or '-')
    raise ValueError(ptype)


def enc_line(ign, msg):
    """Driver command for encoding the flat JSON message."""
    ed = msg[0][2]
    toks = []
    has2 = len(msg) == 6
    idxs = [0, 1, 2, 3, 4, 5] if has2 else [0, 1, 3, 4, 5]
    for idx, vals in zip(idxs, msg):
        ps = section_params(idx, ed)
        if len(ps) != len(vals):
            toks.append(','.join('u0' for _ in vals) or '-')
            continue
        toks.append(','.join(value_token(p['type'], v) for p, v in zip(ps, vals)) or '-')
    return 'enc %d %s' % (1 if ign else 0, ' '.join(toks))


def show_impl_message(m, total_bits=None):
    """Render a BufrMessage as drv_frame.ml's show_message does."""
    secs = []
    starts = [s.get_metadata('bitpos_start') for s in m.sections]
    if total_bits is None:
        total_bits = None
    for k, s in enumerate(m.sections):
        if k + 1 < len(starts):
            nbits = starts[k + 1] - starts[k]
        else:
            nbits = (total_bits - starts[k]) if total_bits is not None else -1
        vals = ','.join('%s=%s' % (p.name, value_token(p.type, p.value)) for p in s)
        secs.append('%d:%d:%s' % (s.get_metadata('index'), nbits, vals))
    return 'ok %s %s' % (m.serialized_bytes.hex() or '-', ' '.join(secs))


def impl_encode(msg, ign):
    from pybufrkit.encoder import Encoder
    try:
        with lib.time_limit(20):
            m = Encoder(ignore_declared_length=ign).process(msg, wire_template_data=False)
    except lib.CaseTimeout:
        return 'timeout', None
    except Exception as e:
        return 'err %d' % lib.err_code(e), None
    return show_impl_message(m, 8 * len(m.serialized_bytes)), m


_DEC = None


def impl_decode(b, sig=True, info_only=False, ignore_exp=False):
    from pybufrkit.decoder import Decoder
    global _DEC
    if _DEC is None:
        _DEC = Decoder()
    try:
        with lib.time_limit(20):
            kw = {} if sig else {'start_signature': None}
            m = _DEC.process(b, info_only=info_only, ignore_value_expectation=ignore_exp,
                             wire_template_data=False, **kw)
    except lib.CaseTimeout:
        return 'timeout', None
    except Exception as e:
        return 'err %d' % lib.err_code(e), None
    return show_impl_message(m, 8 * len(m.serialized_bytes)), m


def dec_line(b, sig=True, info_only=False, ignore_exp=False):
    return 'dec %d %d %d %s' % (sig, info_only, ignore_exp, b.hex() or '-')


# ---------------------------------------------------------------------------
# hand packer (independent of the implementation's encoder)
# ---------------------------------------------------------------------------
def pack_bits(bits):
    bits = bits + '0' * (-len(bits) % 8)
    return bytes(int(bits[i:i + 8], 2) for i in range(0, len(bits), 8))


def craft(ed, data_bits, sec2_octets=None, surplus=None, rng=None, n_subsets=1, total_delta=0):
    """Bytes of a message with len(data_bits)/n_subsets 031031 per subset;
    surplus = {section: extra octets declared and present (zero filled)}."""
    surplus = surplus or {}
    unit = 2 if ed <= 3 else 1

    def fin(body, k):
        n = 3 + len(body)
        n += -n % unit
        n += surplus.get(k, 0)
        return n.to_bytes(3, 'big') + body + bytes(n - 3 - len(body))
    r = (lambda n: rng.randrange(n)) if rng is not None else (lambda n: 0)
    flag = 0x80 if sec2_octets is not None else 0
    if ed == 4:
        b1 = bytes([0, r(256), r(256), r(256), r(256), r(256), flag | r(128), r(256), r(256), r(256), 33, 0]) + \
            (2000 + r(30)).to_bytes(2, 'big') + bytes([1 + r(12), 1 + r(28), r(24), r(60), r(60)])
    elif ed == 3:
        b1 = bytes([0, r(256), r(256), r(256), flag | r(128), r(256), r(256), 33, 0, r(100), 1 + r(12), 1 + r(28), r(24), r(60), r(60)])
    else:
        b1 = bytes([0, r(256), r(256), r(256), flag | r(128), r(256), r(256), 33, 0, r(100), 1 + r(12), 1 + r(28), r(24), r(60), r(60)])
    out = fin(b1, 1)
    if sec2_octets is not None:
        out += fin(bytes([0]) + sec2_octets, 2)
    nd = len(data_bits) // max(n_subsets, 1)
    desc = (0 << 14 | 31 << 8 | 31).to_bytes(2, 'big') * nd
    out += fin(bytes([0]) + n_subsets.to_bytes(2, 'big') + bytes([0x80 | r(64)]) + desc, 3)
    out += fin(bytes([0]) + pack_bits(data_bits), 4)
    out += b'7777'
    total = 8 + len(out) + total_delta
    return b'BUFR' + total.to_bytes(3, 'big') + bytes([ed]) + out


# ---------------------------------------------------------------------------
# the independent framing parser: the property's own predicate on bytes
# ---------------------------------------------------------------------------
def parse_frame(b):
    """Split an encoded message into sections by the declared lengths only.
    Returns dict or raises ValueError with the reason."""
    if b[:4] != b'BUFR':
        raise ValueError('no BUFR')
    total = int.from_bytes(b[4:7], 'big')
    ed = b[7]
    pos = 8
    secs = {}
    l1 = int.from_bytes(b[pos:pos + 3], 'big')
    flagpos = {2: 7, 3: 7, 4: 9}[ed]
    has2 = bool(b[pos + flagpos] & 0x80)
    order = [1] + ([2] if has2 else []) + [3, 4]
    for k in order:
        n = int.from_bytes(b[pos:pos + 3], 'big')
        if n < 4 or pos + n > len(b):
            raise ValueError('section %d length %d does not fit' % (k, n))
        secs[k] = (pos, n)
        pos += n
    if b[pos:pos + 4] != b'7777':
        raise ValueError('no 7777 at %d' % pos)
    return {'total': total, 'edition': ed, 'sections': secs, 'end': pos + 4, 'has2': has2}


def frame_holds(b, ed, n_data_bits, sec2_bits, declared=None):
    """Clauses of C04 for one encoded message (encoder direction).
    declared: {section: octets} honoured lengths (longer than the content)."""
    declared = declared or {}
    try:
        f = parse_frame(b)
    except (ValueError, KeyError, IndexError) as e:
        return False, str(e)
    if f['end'] != len(b) or f['total'] != len(b):
        return False, 'total length %d, produced %d, 7777 ends at %d' % (f['total'], len(b), f['end'])
    if f['edition'] != ed or f['has2'] != (sec2_bits is not None):
        return False, 'edition/section 2 flag'
    exact = exact_lengths(ed, n_data_bits, sec2_bits)
    content = {1: sum(p['nbits'] for p in section_params(1, ed)), 3: 56 + 16 * n_data_bits, 4: 32 + n_data_bits}
    if sec2_bits is not None:
        content[2] = 32 + len(sec2_bits)
    for k, (pos, n) in f['sections'].items():
        want = declared.get(k, exact[k])
        if n != want:
            return False, 'section %d declares %d, expected %d' % (k, n, want)
        if k not in declared and ed <= 3 and n % 2:
            return False, 'section %d odd length in edition %d' % (k, ed)
        bits = ''.join('{:08b}'.format(x) for x in b[pos:pos + n])
        if '1' in bits[content[k]:]:
            return False, 'section %d padding not zero' % k
        if k not in declared and 8 * n - content[k] >= (16 if ed <= 3 else 8):
            return False, 'section %d over-padded' % k
    return True, ''
