"""C08 — template compilation preserves behaviour (decode, encode, save/load)."""
import json
import os
import sys
import time

import lib
import bufrlib as B
import pipeline as P
import tmplgen

LEVEL = 'proof'

MARKERS = (223255, 224255, 225255, 232255)


def expanded_ids(ids, version=33):
    """The ids in processing order with Table D sequences expanded (operators hidden in a sequence count)."""
    try:
        t = B.template_from_ids(ids, version)
    except Exception:
        return list(ids)
    out = []

    def walk(ms):
        for d in ms:
            if hasattr(d, 'members') and d.id >= 300000:
                walk(d.members or [])
            elif hasattr(d, 'members'):
                out.append(d.id)
                walk(d.members or [])
            else:
                out.append(d.id)
    walk(t.members)
    return out


def flags_of(ids, version=33):
    """Structural flags used to recognise the recorded findings."""
    ids = expanded_ids(ids, version)
    depth204 = 0
    seen_203000 = False
    seen_203def = False
    f = {'marker_under_204': False, 'marker_after_203000': False, 'has_204_or_206': False}
    for i in ids:
        if i // 1000 == 204:
            f['has_204_or_206'] = True
            depth204 += 1 if i % 1000 else -1
        elif i // 1000 == 206:
            f['has_204_or_206'] = True
        elif i // 1000 == 203:
            if i == 203000:
                seen_203000 = seen_203def
            elif i != 203255:
                seen_203def = True
        elif i in MARKERS:
            if depth204 > 0:
                f['marker_under_204'] = True
            if seen_203000:
                f['marker_after_203000'] = True
    return f


def zero_count_bitmap(dec):
    """D19: a bitmap defined by a DELAYED replication of 031031 whose factor is 0 in some subset
    (recognised in the interpreted decode: operator, optional 236000, class-31 factor with value 0)"""
    if not dec or dec[0] != 'ok':
        return False
    for vals, labels in zip(dec[1], dec[2]):
        for i, l in enumerate(labels):
            if l in ('222000', '223000', '224000', '225000', '232000'):
                j = i + 1
                if j < len(labels) and labels[j] == '236000':
                    j += 1
                if j < len(labels) and labels[j] in ('031000', '031001', '031002') and vals[j] == 0:
                    return True
    return False


def dec_impl(b, limit=60, **kw):
    try:
        with lib.time_limit(limit):
            _, vals, labels, links = B.decode_impl(b, **kw)
        return ('ok', vals, labels, links)
    except lib.CaseTimeout:
        raise
    except Exception as e:
        return ('err', lib.err_code(e))


def same_dec(a, b):
    if a[0] != b[0]:
        return False
    if a[0] == 'err':
        return a[1] == b[1]
    return repr(a[1]) == repr(b[1]) and a[2] == b[2] and a[3] == b[3]


class FixedTemplate:
    """stands in for CompiledTemplateManager: always hands out the given compiled template"""
    def __init__(self, ct):
        self.ct = ct

    def get_or_compile(self, template, table_group):
        return self.ct


def dec_with_loaded(b, version):
    """compile, save as JSON, load, and decode through the loaded template"""
    from pybufrkit.decoder import Decoder
    from pybufrkit.templatecompiler import TemplateCompiler, loads_compiled_template
    try:
        with lib.time_limit(60):
            m0 = Decoder().process(b, info_only=True)
            tmpl, tg = m0.build_template(None, normalize=1)
            ct = TemplateCompiler().process(tmpl, tg)
            ct2 = loads_compiled_template(json.dumps(ct.to_dict()))
            d = Decoder(compiled_template_cache_max=1)
            d.compiled_template_manager = FixedTemplate(ct2)
            m = d.process(b, wire_template_data=False)
        td = m.template_data.value
        return ('ok', td.decoded_values_all_subsets, [[str(x) for x in ds] for ds in td.decoded_descriptors_all_subsets],
                [sorted(l.items()) for l in td.bitmap_links_all_subsets])
    except lib.CaseTimeout:
        raise
    except Exception as e:
        return ('err', lib.err_code(e))


def compare_with_model(i, m):
    """implementation decode tuple vs a driver line"""
    c = {'impl_dec': i, 'model_dec': m}
    return P.compare_decode(c)


def model_line(ctx, line, scoped):
    """One command through the extracted model.  On an unscoped template the model's compiled run may loop over data
    values just as the implementation's does (factors read out of step): bounded there, and counted."""
    import subprocess
    try:
        return lib.run_model([line], timeout=1800 if scoped else 90)[0]
    except subprocess.TimeoutExpired:
        if scoped:
            raise
        ctx.dist["unscoped: the model's compiled run does not finish within the limit"] += 1
        return None


def check_case(ctx, c, k_cache):
    case = {'ids': c['ids'], 'seed': c['seed'], 'forced': c['forced'], 'nsub': c['nsub'], 'version': c['version'],
            'edition': c['edition'], 'compressed': c['compressed']}
    fl = flags_of(c['ids'], c.get('version', 33))
    fl['scoped'] = c.get('scoped', True)
    fl['zero_count_bitmap'] = zero_count_bitmap(c.get('impl_dec'))
    # the hypothesis of the proved theorem C08_compile_exec_equiv, evaluated by the extracted model
    fl['ok_c08'] = bool(c.get('okc08'))
    if c.get('witness'):
        fl['witness'] = c['witness']
    e = c['impl_enc']
    # --- encode: compiled vs interpreted (implementation), compiled (model)
    cc = dict(c)
    ec = P.impl_encode(cc, compiled_template_cache_max=k_cache)
    if fl['ok_c08'] and ((e[0], e[1]) != (ec[0], ec[1]) or (e[0] == 'ok' and e[3] != ec[3])):
        ctx.violation(dict(kind='C08-theorem-hypotheses-hold-but-encode-differs', case=case, interpreted=repr(e[:2])[:200],
                           compiled=repr(ec[:2])[:200], **fl),
                      'ok_c08 holds (the theorem applies) but encoding with and without compilation differs, ids=%s' % c['ids'])
    if fl['scoped'] and ((e[0], e[1]) != (ec[0], ec[1]) or (e[0] == 'ok' and e[3] != ec[3])):
        rec = dict(kind='C08-encode-compiled-differs', case=case, interpreted=repr(e[:2])[:200], compiled=repr(ec[:2])[:200], **fl)
        ctx.violation(rec, 'encoding with and without template compilation differs, ids=%s' % c['ids'])
    line = '%s %s %s' % ('cencc' if c['compressed'] else 'cencu', B.subsets_to_model(c['py_vals']), c['toks'])
    mo = model_line(ctx, line, fl['scoped'])
    c2 = dict(c, impl_enc=ec, model_enc=mo)
    eq, detail = P.compare_encode(c2) if mo is not None else (True, '')
    if not eq and not fl['scoped'] and ec[0] == 'err' and mo.startswith('err'):
        # outside the property's premise (an operator construct crossing a replication boundary) the compiled program
        # consumes the values out of step; BOTH sides refuse, the exception class then depends on which Python value meets
        # which primitive (TypeError / ValueError / ...): not a behaviour the model claims to describe
        ctx.dist['unscoped: both compiled encoders refuse, classes differ'] += 1
    elif not eq and not fl['scoped'] and ec[0] == 'err' and ec[1] in (8, 9, 10, 11, 12):
        # ... or only the implementation refuses, with a plain Python exception (a value of the wrong kind met a
        # primitive: ValueError / IndexError / KeyError / TypeError / AttributeError), where the model, whose values
        # are untyped tokens, goes on: the same out-of-step consumption, not compared either
        ctx.dist['unscoped: the compiled encoder refuses with a Python-level exception, the model goes on'] += 1
    elif not eq:
        ctx.compare(case, 'impl-compiled', 'model-compiled', kind='C08-model-encode', holds=lambda: e[:2] == ec[:2],
                    extra=dict(detail=detail, **fl))
    if e[0] != 'ok':
        return
    # --- decode
    di = c.get('impl_dec') or dec_impl(e[3])
    try:
        dc = dec_impl(e[3], limit=60 if fl['scoped'] else 10, compiled_template_cache_max=k_cache)
    except lib.CaseTimeout:
        if fl['scoped']:
            raise
        # outside the property's premise (an operator construct crossing a replication boundary, e.g. a 221YYY span that
        # swallows a delayed replication and its factor) the compiled program reads its replication factors out of step:
        # nested loops over factors that are really data values do not finish in any reasonable time, in the
        # implementation and in the model alike; nothing can be compared
        ctx.dist['unscoped: compiled decoding does not finish within the limit (factors read out of step)'] += 1
        c['compiled_does_not_finish'] = True          # kept out of the save/load and cache-history pools
        return di
    if fl['ok_c08'] and not same_dec(di, dc):
        ctx.violation(dict(kind='C08-theorem-hypotheses-hold-but-decode-differs', case=case, interpreted=repr(di)[:300],
                           compiled=repr(dc)[:300], **fl),
                      'ok_c08 holds (the theorem applies) but decoding with and without compilation differs, ids=%s' % c['ids'])
    if fl['scoped'] and not same_dec(di, dc):
        rec = dict(kind='C08-decode-compiled-differs', case=case, interpreted=repr(di)[:300], compiled=repr(dc)[:300], **fl)
        ctx.violation(rec, 'decoding with and without template compilation differs, ids=%s' % c['ids'])
    line = '%s %d %s:%d %s' % ('cdecc' if c['compressed'] else 'cdecu', c['nsub'], e[1] or '-', e[2], c['toks'])
    mo = model_line(ctx, line, fl['scoped'])
    if mo is None:
        return di
    eq, detail = compare_with_model(dc, mo)
    if not eq and not fl['scoped'] and dc[0] == 'err' and mo.startswith('err'):
        ctx.dist['unscoped: both compiled decoders refuse, classes differ'] += 1
    elif not eq and not fl['scoped'] and dc[0] == 'err' and dc[1] in (8, 9, 10, 11, 12):
        ctx.dist['unscoped: the compiled decoder refuses with a Python-level exception, the model goes on'] += 1
    elif not eq and not ('ulp=1' in detail and 'scale=-' in detail):
        ctx.compare(case, 'impl-compiled', 'model-compiled', kind='C08-model-decode', holds=lambda: same_dec(di, dc),
                    extra=dict(detail=detail, **fl))
    return di


def save_load_case(ctx, c, di):
    case = {'ids': c['ids'], 'seed': c['seed'], 'forced': c['forced'], 'nsub': c['nsub'], 'version': c['version'],
            'edition': c['edition'], 'compressed': c['compressed']}
    fl = flags_of(c['ids'], c.get('version', 33))
    fl['scoped'] = c.get('scoped', True)
    # pseudo descriptors (associated / skipped local) in the decoded labels: D7
    fl['has_pseudo_descriptor'] = di[0] == 'ok' and any(l[:1] in 'AS' for ls in di[2] for l in ls)
    e = c['impl_enc']
    dl = dec_with_loaded(e[3], c['version'])
    ctx.dist['save-load'] += 1
    if fl['scoped'] and not same_dec(di, dl):
        rec = dict(kind='C08-loaded-template-differs', case=case, interpreted=repr(di)[:300], loaded=repr(dl)[:300], **fl)
        ctx.violation(rec, 'a compiled template saved and loaded behaves differently, ids=%s' % c['ids'])


def run(ctx):
    lib.SHARD_MIN_LINES = 100        # few lines, each a whole template walk: spread them over the cores
    ctx.rule = ('programs: generated templates with every operator (constructs opened and closed within one replication scope), '
                'every sequence of the bundled Table D (quick: a sample of version 33; thorough: all of versions >= 19), '
                'sample-file templates; data: values from the model-side generator with delayed factors 0..3 and bitmaps, '
                'compressed and uncompressed. Each (program, data) is decoded and encoded by the implementation with and '
                'without compilation (values, labels, links, bytes, error class must be identical: the property itself) and '
                'the compiled run is compared with the extracted model (Compile.compile + exec); cache sizes 0,1,2,5 with '
                'shuffled message orders against fresh interpreted decodes; save/load through JSON.')
    rng = ctx.rng
    n = ctx.n(200, 2500)
    cases = P.build_cases(ctx, n, gen_kwargs=dict(size=6), nsub_choices=(1, 1, 2, 3), compressed=(False, False, True),
                          versions=(33, 33, 25), editions=(4,))
    # Table D sequences as programs
    p = tmplgen.pools(33)
    def size_of(k, depth=0):
        # rough number of values one application of sequence k produces (replication counted x3)
        if depth > 8 or k not in p.d:
            return 1
        n, mult = 0, []
        for m in p.d[k]:
            if m >= 300000:
                n += size_of(m, depth + 1)
            elif 100000 <= m < 200000:
                n += 1
            else:
                n += 1
        reps = sum(1 for m in p.d[k] if 100000 <= m < 200000)
        return n * (3 ** min(reps, 3))
    seqs = sorted(p.d)
    if ctx.quick:
        seqs = [k for k in seqs if size_of(k) <= 120]
    for s in rng.sample(seqs, ctx.n(30, len(seqs))):
        cases.append({'ids': [s], 'version': 33, 'edition': 4, 'nsub': rng.choice([1, 2]), 'compressed': rng.random() < 0.3,
                      'forced': '-', 'seed': rng.randrange(1, 2 ** 32), 'maxrep': 2, 'features': {'table-d-sequence': 1}, 'shared': None})
    # a marker operator as the only member of a replication (a one-statement loop body) while a width / scale /
    # reference / string-width modifier is in force: the state recorded for the marker must reach every repetition
    for k in range(ctx.n(16, 120)):
        m = rng.choice([2, 3])
        op = rng.choice([223, 224, 225, 232])
        on = rng.choice([201129, 201130, 201132, 202129, 202130, 207001, 207002])
        els = [rng.choice([12001, 10004, 11001, 11002, 7001, 13003]) for _ in range(m)]
        sig = [8023] if op == 224 else [8024] if op == 225 else []
        rep = [101000 + m] if k % 3 else [101000, 31001]
        ids = els + [op * 1000, 236000, 101000 + m, 31031] + sig + [on] + rep + [op * 1000 + 255, on // 1000 * 1000]
        forced = '31031=' + '.'.join(['0'] * m) + ('' if k % 3 else ';31001=%d' % m)
        comp = rng.random() < 0.3
        cases.append({'ids': ids, 'version': 33, 'edition': 4, 'nsub': rng.choice([1, 2]), 'compressed': comp,
                      'forced': forced, 'seed': rng.randrange(1, 2 ** 32), 'maxrep': 3,
                      'features': {'marker-replicated': 1, 'marker-under-%d' % (on // 1000): 1}, 'shared': comp})
    # two marker operators in one subset, the first while a modifier is in force, the second after its cancellation
    # (default operator state): the state recorded for each marker must be applied even when all its values are the
    # defaults (0 / None), also after save and load
    for k in range(ctx.n(16, 120)):
        op = rng.choice([223, 224, 225, 232])
        on = rng.choice([201129, 201130, 201132, 202129, 202130, 207001, 207002])
        els = [rng.choice([12001, 10004, 11001, 11002, 7001, 13003]) for _ in range(2)]
        sig = [8023] if op == 224 else [8024] if op == 225 else []
        mk = op * 1000 + 255
        order = [on, mk, on // 1000 * 1000, mk] if k % 2 == 0 else [on, mk, mk, on // 1000 * 1000, mk]
        if k % 4 == 3:
            order = [mk] + order                       # default, modified, default
        nm = order.count(mk)
        els = els + [rng.choice([12001, 10004, 7001]) for _ in range(nm - 2)]
        ids = els + [op * 1000, 236000, 101000 + nm, 31031] + sig + order
        comp = rng.random() < 0.3
        cases.append({'ids': ids, 'version': 33, 'edition': 4, 'nsub': rng.choice([1, 2]), 'compressed': comp,
                      'forced': '31031=' + '.'.join(['0'] * nm), 'seed': rng.randrange(1, 2 ** 32), 'maxrep': 3,
                      'features': {'marker-under-%d' % (on // 1000): 1, 'marker-default-after-modified': 1}, 'shared': comp})
    # marker operators inside LOOP bodies (compiled once, run 0..n times): (a) a body run twice whose first marker stands under
    # another operator state than its last; (b) a marker under a modifier inside a delayed replication that runs 0 times,
    # followed after the loop by a marker under the same modifier
    for k in range(ctx.n(12, 100)):
        op = rng.choice([223, 224, 225, 232])
        on = rng.choice([201129, 201130, 201132, 202129, 202130, 207001])
        off = on // 1000 * 1000
        sig = [8023] if op == 224 else [8024] if op == 225 else []
        mk = op * 1000 + 255
        if k % 2 == 0:
            nz = 4
            body = [104002, mk, on, mk, off]
            forced = '31031=' + '.'.join(['0'] * nz)
        else:
            f = rng.choice([0, 0, 1, 2])
            nz = f + 1
            body = [103000, 31001, on, mk, off, on, mk, off]
            forced = '31001=%d;31031=%s' % (f, '.'.join(['0'] * nz))
        els = [rng.choice([12001, 10004, 11001, 7001, 13003]) for _ in range(nz)]
        ids = els + [op * 1000, 236000, 101000 + nz, 31031] + sig + body
        comp = rng.random() < 0.3
        cases.append({'ids': ids, 'version': 33, 'edition': 4, 'nsub': rng.choice([1, 2]), 'compressed': comp, 'forced': forced,
                      'seed': rng.randrange(1, 2 ** 32), 'maxrep': 3,
                      'features': {'marker-under-%d' % (on // 1000): 1, 'marker-states-inside-loop-body': 1}, 'shared': comp})
    for c in cases:
        if c.get('shared') is None:
            c['shared'] = c['compressed']
    # witnesses of recorded findings (run first on every run)
    corpus = [
        # D19: bitmap defined by a delayed replication with factor 0
        {'ids': [12001, 7001, 222000, 101000, 31001, 31031, 12001], 'forced': '31001=0'},
        # D14: a marker operator while 204YYY is in force
        {'ids': [12001, 224000, 236000, 101001, 31031, 8023, 204008, 31021, 224255, 204000], 'forced': '31031=0'},
        # D5: 203000 (cancel) before a marker operator on the redefined element
        {'ids': [203012, 7001, 203255, 7001, 203000, 223000, 236000, 101001, 31031, 223255], 'forced': '31031=0'},
        # D28: a zero-count delayed replication of class 33 after 222000 (the 222 status is resolved at compile time)
        {'ids': [12001, 12001, 222000, 236000, 101002, 31031, 101000, 31001, 33007, 12001, 33007], 'forced': '31001=0;31031=0.0',
         'witness': 'D28'},
        # D29: a bitmap definition completed inside a replication body
        {'ids': [12001, 12001, 224000, 236000, 102002, 31031, 12001, 224255], 'forced': '31031=0.0', 'witness': 'D29'},
        # D30: a marker operator while the 222000 status is "processing"
        {'ids': [12001, 12001, 12001, 222000, 236000, 101003, 31031, 33007, 224255, 33007], 'forced': '31031=0.0.0',
         'witness': 'D30'},
        # D31: 203000 inside a replication body (D5 without a marker operator)
        {'ids': [203012, 7001, 203255, 105002, 7001, 203000, 203012, 7002, 203255, 203000], 'forced': '-', 'witness': 'D31'},
    ]
    pre = [{'ids': w['ids'], 'version': 33, 'edition': 4, 'nsub': 1, 'compressed': False, 'forced': w['forced'],
            'seed': 11 + k, 'maxrep': 3, 'features': {'corpus': 1}, 'shared': False, 'witness': w.get('witness')}
           for k, w in enumerate(corpus)]
    cases = pre + cases
    P.attach_templates(cases)
    live = [c for c in cases if c.get('toks')]
    for c, o in zip(live, lib.run_model_sharded(['scoped ' + c['toks'] for c in live])):
        c['scoped'] = (o == 'true')
    for c, o in zip(live, lib.run_model_sharded(['okc08 ' + c['toks'] for c in live])):
        c['okc08'] = (o == 'true')
    for c, o in zip(live, lib.run_model_sharded(['okc08nz ' + c['toks'] for c in live])):
        c['okc08nz'] = (o == 'true')
    rejected = []
    slow = []
    P.run_gen(cases)
    P.run_encode(cases)
    P.run_decode(cases)
    good = []
    for c in cases:
        if not c.get('toks') or not c.get('gen', '').startswith('ok'):
            ctx.dist['generator-rejected'] += 1
            continue
        for f in c['features']:
            ctx.dist[f] += 1
        ctx.dist['scoped' if c.get('scoped') else 'NOT-scoped (only the model tie is checked)'] += 1
        ctx.dist['ok_c08 (hypothesis of the proved theorem holds)' if c.get('okc08') else 'not ok_c08'] += 1
        if c.get('scoped') and not c.get('okc08'):
            ctx.dist['scoped but not ok_c08'] += 1
            if c.get('okc08nz'):
                ctx.dist['scoped, not ok_c08, but ok_c08_nz (bitmap / class 33 under a delayed replication: D19, D28)'] += 1
            else:
                rejected.append(c['ids'])
        ctx.count((tuple(c['ids']), c['seed']), True)
        k_cache = rng.choice([0, 1, 2, 5])
        ctx.dist['cache-max-%d' % k_cache] += 1
        t0 = time.time()
        with lib.time_limit(300):
            di = check_case(ctx, c, k_cache)
        slow.append((round(time.time() - t0, 1), c['ids'], c['seed'], c['nsub'], bool(c['compressed']), k_cache))
        slow.sort(reverse=True)
        del slow[5:]
        ctx.extra['slowest_cases_s_ids_seed_nsub_compressed_cache'] = slow
        fl = flags_of(c['ids'], c.get('version', 33))
        if di is not None and di[0] == 'ok' and not c.get('witness') and not c.get('compiled_does_not_finish') and not (fl['marker_under_204'] or fl['marker_after_203000']
                                                                              or zero_count_bitmap(di)):
            good.append((c, di))
        ctx.sample({'ids': c['ids'], 'cache_max': k_cache}, limit=3)
    ctx.extra['scoped_rejected_by_ok_c08_and_ok_c08_nz'] = rejected[:40]
    # save / load: templates with marker operators first (their recorded state_properties travel through the JSON)
    marker_first = sorted(good, key=lambda x: 0 if any(k.startswith('marker-under') for k in x[0]['features']) else
                          1 if any(i in MARKERS for i in x[0]['ids']) else 2)
    for c, di in marker_first[:ctx.n(60, 1500)]:
        save_load_case(ctx, c, di)
    # cache sizes x orders: one coder object, many messages
    from pybufrkit.decoder import Decoder
    pool = good[:ctx.n(12, 60)]
    for k in (0, 1, 2, 5):
        dec = Decoder(compiled_template_cache_max=k)
        order = [rng.randrange(len(pool)) for _ in range(ctx.n(30, 300))] if pool else []
        for j in order:
            c, di = pool[j]
            try:
                m = dec.process(c['impl_enc'][3], wire_template_data=False)
                td = m.template_data.value
                got = ('ok', td.decoded_values_all_subsets, [[str(x) for x in ds] for ds in td.decoded_descriptors_all_subsets],
                       [sorted(l.items()) for l in td.bitmap_links_all_subsets])
            except Exception as ex:
                got = ('err', lib.err_code(ex))
            ctx.count(('hist', k, j, len(order)), True)
            ctx.dist['history-decodes'] += 1
            if c.get('scoped', True) and not same_dec(di, got):
                ctx.violation(dict(kind='C08-cache-history', case={'ids': c['ids'], 'seed': c['seed'], 'forced': c['forced'],
                                                                   'nsub': c['nsub'], 'cache_max': k}, **flags_of(c['ids'], c.get('version', 33))),
                              'decode through a shared compiled-template cache (max %d) differs from a fresh decode' % k)
    # the SAME descriptor list under different table groups (master version, local tables, originating centre) through
    # ONE coder object: a compiled template is only valid for the table group it was compiled with
    table_group_families(ctx, rng)
    ctx.partial = ['compile_exec is proved for every template satisfying the executable side condition ok_c08 (CompileChk.v), '
                   'for all primitive families, with the same error on failure (C08_compile_exec_equiv and the four coder '
                   'corollaries); outside ok_c08 the statement is false of the model and of the implementation: D14, D5, D19 and '
                   'the _refuted witnesses in C08.v; save/load is proved only for templates whose recorded descriptors are '
                   're-found by id (no pseudo descriptors: D7)']
    ctx.assumptions = ['cache transparency at model level is C13\'s ct_get_pure; here the implementation cache is exercised by histories']


def table_group_families(ctx, rng):
    import json
    sys.path.insert(0, os.path.dirname(os.path.abspath(__file__)))
    import c13_obs as O
    from pybufrkit.decoder import Decoder
    from pybufrkit.encoder import Encoder
    from pybufrkit.renderer import FlatJsonRenderer
    fams = []
    for ids in ([1001, 14001, 12001], [1103, 12001], [15009, 2007, 1001], [22039, 12001]):
        fams.append(('master-version', [(ids, dict(mtv=v)) for v in (13, 33, 19)]))
    for ids in ([1001, 8201, 1002, 12101], [1211, 2201, 12001], [1001, 1211, 12101], [1001, 33194, 33195, 12001], [5234, 5236, 1001]):
        fams.append(('local-tables', [(ids, dict(mtv=25, centre=98, ltv=l)) for l in (1, 2, 3, 101, 0)]))
    for ids in ([1001, 1192, 12001], [8201, 12101]):
        fams.append(('centre', [(ids, dict(mtv=13, centre=c, ltv=l)) for c in (98, 7, 0) for l in (1, 2)]))

    def dec_obs(dec, b):
        try:
            m = dec.process(b, wire_template_data=False)
            td = m.template_data.value
            return ('ok', repr(td.decoded_values_all_subsets), [[str(x) for x in ds] for ds in td.decoded_descriptors_all_subsets]), m
        except Exception as ex:
            return ('err', lib.err_code(ex)), None

    def enc_obs(enc, m):
        try:
            return ('ok', enc.process(json.dumps(FlatJsonRenderer().render(m)), wire_template_data=False).serialized_bytes.hex())
        except Exception as ex:
            return ('err', lib.err_code(ex))

    for what, members in fams:
        msgs = [(ids, kw, O.mk_message(ids, 64, pattern=True, **kw)) for ids, kw in members]
        fresh = [dec_obs(Decoder(), b) for _, _, b in msgs]
        fresh_enc = [enc_obs(Encoder(), m) if m is not None else None for _, m in fresh]
        # ... and through the save / load route: a template compiled, written out and loaded back for EACH message
        order = list(range(len(msgs))) * 2
        rng.shuffle(order)
        for j in order:
            ids, kw, b = msgs[j]
            if fresh[j][0][0] != 'ok':
                continue
            dl = dec_with_loaded(b, kw.get('mtv', 33))
            got = ('ok', repr(dl[1]), dl[2]) if dl[0] == 'ok' else dl
            ctx.count(('tg-family-loaded', what, tuple(ids), j), True)
            ctx.dist['table-group-family-loaded-' + what] += 1
            if got != fresh[j][0]:
                ctx.violation(dict(kind='C08-compiled-template-across-table-groups', case={'ids': ids, 'message': kw, 'order': order,
                                                                                           'bytes': b.hex(), 'route': 'save-load'},
                                   got=str(got)[:300], interpreted=str(fresh[j][0])[:300]),
                              'ids %s %s: decode through a compiled template saved and loaded after the same descriptor list was '
                              'loaded under another table group differs from the decode without compilation' % (ids, kw))
        for k in ((1, 5) if ctx.quick else (1, 2, 5)):
            dec, enc = Decoder(compiled_template_cache_max=k), Encoder(compiled_template_cache_max=k)
            order = list(range(len(msgs))) * 2
            rng.shuffle(order)
            for j in order:
                ids, kw, b = msgs[j]
                got, _ = dec_obs(dec, b)
                ctx.count(('tg-family', what, tuple(ids), k, j), True)
                ctx.dist['table-group-family-' + what] += 1
                case = {'ids': ids, 'message': kw, 'cache_max': k, 'order': order, 'bytes': b.hex()}
                if got != fresh[j][0]:
                    ctx.violation(dict(kind='C08-compiled-template-across-table-groups', case=case, got=str(got)[:300],
                                       interpreted=str(fresh[j][0])[:300]),
                                  'ids %s %s: decode through a coder with a compiled-template cache (max %d) that has seen the same '
                                  'descriptor list under another table group differs from the decode without compilation' % (ids, kw, k))
                if fresh[j][1] is not None:
                    ge = enc_obs(enc, fresh[j][1])
                    if ge != fresh_enc[j]:
                        ctx.violation(dict(kind='C08-compiled-template-across-table-groups-encode', case=case, got=str(ge)[:300],
                                           interpreted=str(fresh_enc[j])[:300]),
                                      'ids %s %s: encode through a coder with a compiled-template cache (max %d) that has seen the '
                                      'same descriptor list under another table group differs from the encode without compilation'
                                      % (ids, kw, k))


def replay(ctx, rec):
    c = rec['case']
    if str(rec.get('kind', '')).startswith('C08-compiled-template-across-table-groups'):
        import random
        table_group_families(ctx, random.Random(0))       # the whole (small, deterministic up to order) family run
        return {'violations': len(ctx.violations)}
    cases = [{'ids': c['ids'], 'version': c.get('version', 33), 'edition': c.get('edition', 4), 'nsub': c['nsub'],
              'compressed': c.get('compressed', False), 'forced': c['forced'], 'seed': c['seed'], 'maxrep': 3,
              'features': {}, 'shared': c.get('compressed', False)}]
    P.attach_templates(cases); P.run_gen(cases); P.run_encode(cases); P.run_decode(cases)
    cases[0]['scoped'] = lib.run_model(['scoped ' + cases[0]['toks']])[0] == 'true'
    cases[0]['okc08'] = lib.run_model(['okc08 ' + cases[0]['toks']])[0] == 'true'
    if rec.get('witness'):
        cases[0]['witness'] = rec['witness']
    check_case(ctx, cases[0], c.get('cache_max', 2))
    return {'violations': len(ctx.violations), 'scoped': cases[0]['scoped'], 'ok_c08': cases[0]['okc08']}
