"""C05 — compression is transparent (column level + end-to-end).

pybufrkit Encoder/Decoder .process_*_compressed  vs  coq/theories/Column.v.

Every column is (1) encoded by the implementation and by the extracted model (bits
compared), (2) decoded by both (values, final position compared), (3) encoded and
decoded in the uncompressed form by both, (4) laid out by the harness at every legal
increment width / a lower base and presented to the implementation's decoder, the
model's decoder and the model's independent reader.  The property's own predicate
(column read back == column written, both storage forms decode identically) is
evaluated on the implementation's results on every case.  An end-to-end part encodes
the same JSON message compressed and uncompressed through Encoder().process and
compares values, descriptor labels and bitmap links after Decoder().process.
"""
import itertools
import json
import multiprocessing as mp
import os

import lib

LEVEL = 'proof'

NUM_ID = 7001            # 007001: the numeric element used for all numeric columns
CF_IDS = {1: 31031, 2: 2001, 3: 1003, 4: 2003}   # real 1..4-bit flag/code tables
STR_ID = 1015

# --------------------------------------------------------------------------
# formatting shared with model/drv_column.ml
# --------------------------------------------------------------------------
def bits_str(b):
    return b if b else '-'


def pad8(bits):
    return bits + '0' * (-len(bits) % 8)


def to_bytes(bits):
    bits = pad8(bits)
    return bytes(int(bits[i:i + 8], 2) for i in range(0, len(bits), 8))


def show_opt(vals):
    if not vals:
        return '-'
    return ','.join('N' if v is None else str(v) for v in vals)


def show_strs(vals):
    if not vals:
        return '-'
    return ','.join('N' if v is None else ('e' if len(v) == 0 else bytes(v).hex()) for v in vals)


def all_equal_flag(vals):
    """values.count(values[0]) == n_subsets, as the implementation computes it"""
    return bool(vals) and vals.count(vals[0]) == len(vals)


# --------------------------------------------------------------------------
# implementation side (runs inside worker processes)
# --------------------------------------------------------------------------
_ENV = {}


def env():
    if not _ENV:
        from pybufrkit.encoder import Encoder
        from pybufrkit.decoder import Decoder
        from pybufrkit.tables import TableGroupCacheManager
        tg = TableGroupCacheManager.get_table_group(master_table_version=33)
        _ENV.update(enc=Encoder(), dec=Decoder(), tg=tg, desc={})
    return _ENV


def descriptor(id_, nbits=None):
    """a Table B descriptor, or (nbits given) the pseudo descriptor the coder uses
    for associated fields: an object whose .nbits is the field width"""
    e = env()
    key = (id_, nbits)
    if key not in e['desc']:
        if nbits is None:
            e['desc'][key] = e['tg'].lookup(id_)
        else:
            from pybufrkit.descriptors import AssociatedDescriptor
            e['desc'][key] = AssociatedDescriptor(id_, nbits)
    return e['desc'][key]


def impl_encode(kind, w, vals, desc):
    from pybufrkit.coder import CoderState
    from pybufrkit.bitops import get_bit_writer
    e = env()
    st = CoderState(True, len(vals), [[v] for v in vals])
    bw = get_bit_writer()
    try:
        if kind == 'num':
            e['enc'].process_numeric_compressed(st, bw, desc, w, 1, 0)
        elif kind == 'cf':
            e['enc'].process_codeflag_compressed(st, bw, desc, w)
        elif kind == 'str':
            e['enc'].process_string_compressed(st, bw, desc, w)
        elif kind == 'ref':
            e['enc'].process_new_refval_compressed(st, bw, desc, w)
    except Exception as ex:
        return 'err %d' % lib.err_code(ex), None
    return 'ok ' + bits_str(bw.bit_stream.bin), bw.bit_stream.bin


def impl_decode_scaled(w, n, bits, desc, scale_powered=100, refval=-7):
    """the numeric column decoder with a reference value and a scale in force: (raw + refval) / scale_powered"""
    from pybufrkit.coder import CoderState
    from pybufrkit.bitops import get_bit_reader
    e = env()
    st = CoderState(True, n)
    br = get_bit_reader(to_bytes(bits))
    try:
        e['dec'].process_numeric_compressed(st, br, desc, w, scale_powered, refval)
    except Exception as ex:
        return None
    return [v[0] for v in st.decoded_values_all_subsets]


def impl_decode(kind, w, n, bits, desc):
    """bits must be a whole number of octets (the caller pads): then the model sees
    exactly the stream the implementation sees"""
    from pybufrkit.coder import CoderState
    from pybufrkit.bitops import get_bit_reader
    e = env()
    st = CoderState(True, n)
    br = get_bit_reader(to_bytes(bits))
    try:
        if kind == 'num':
            e['dec'].process_numeric_compressed(st, br, desc, w, 1, 0)
        elif kind == 'cf':
            e['dec'].process_codeflag_compressed(st, br, desc, w)
        elif kind == 'str':
            e['dec'].process_string_compressed(st, br, desc, w)
        elif kind == 'ref':
            e['dec'].process_new_refval_compressed(st, br, desc, w)
    except Exception as ex:
        return 'err %d' % lib.err_code(ex), None
    vals = [v[0] for v in st.decoded_values_all_subsets]
    if kind == 'ref':
        return 'ok %s %d' % (st.new_refvals.get(desc.id), br.get_pos()), vals
    show = show_strs if kind == 'str' else show_opt
    return 'ok %s %d' % (show(vals), br.get_pos()), vals


def impl_uncompressed(kind, w, vals, desc):
    """the same column in the uncompressed form: one field per subset"""
    from pybufrkit.coder import CoderState
    from pybufrkit.bitops import get_bit_writer, get_bit_reader
    e = env()
    st = CoderState(False, 1, [list(vals)])
    bw = get_bit_writer()
    try:
        for _ in vals:
            if kind == 'num':
                e['enc'].process_numeric_uncompressed(st, bw, desc, w, 1, 0)
            elif kind == 'cf':
                e['enc'].process_codeflag_uncompressed(st, bw, desc, w)
            else:
                e['enc'].process_string_uncompressed(st, bw, desc, w)
    except Exception as ex:
        return 'err %d' % lib.err_code(ex), None
    bits = bw.bit_stream.bin
    st = CoderState(False, 1)
    br = get_bit_reader(to_bytes(bits))
    try:
        for _ in vals:
            if kind == 'num':
                e['dec'].process_numeric_uncompressed(st, br, desc, w, 1, 0)
            elif kind == 'cf':
                e['dec'].process_codeflag_uncompressed(st, br, desc, w)
            else:
                e['dec'].process_string_uncompressed(st, br, desc, w)
    except Exception as ex:
        return 'err %d' % lib.err_code(ex), None
    out = list(st.decoded_values)
    show = show_strs if kind == 'str' else show_opt
    return 'ok %s %d' % (show(out), br.get_pos()), out


def lay_column(w, wd, base, vals):
    """the harness's own layout of a numeric column: base, 6-bit width, increments
    (all ones for missing) — FM 94 regulation 94.6.3, independent of model and code"""
    out = format(base, '0%db' % w) + format(wd, '06b')
    for v in vals:
        out += ('1' * wd) if v is None else format(v - base, '0%db' % wd)
    return out


def suffix_for(nbits, sufpat):
    """pad the stream to whole octets with bits of the random pattern (plus one more
    octet when the pattern starts with 1)"""
    k = (-nbits) % 8 + (8 if sufpat[0] == '1' else 0)
    return (sufpat * 2)[:k]


def work_col(case):
    """one numeric / code-flag / string column on the implementation"""
    kind, w, vals, desc_id, dn, sufpat, widths = case
    with lib.time_limit(30):
        desc = descriptor(desc_id, dn if kind == 'cf' and dn is not None else None)
        ivals = vals      # character entries are text (as JSON gives them) or bytes
        enc_out, bits = impl_encode(kind, w, list(ivals), desc)
        res = {'enc': enc_out, 'suffix': '', 'dec': '-', 'dec_vals': None, 'unc': '-', 'unc_vals': None,
               'anyw': [], 'nbits': len(bits) if bits is not None else -1}
        if bits is not None:
            suf = suffix_for(len(bits), sufpat)
            res['suffix'] = suf
            res['dec'], res['dec_vals'] = impl_decode(kind, w, len(vals), bits + suf, desc)
            res['unc'], res['unc_vals'] = impl_uncompressed(kind, w, list(ivals), desc)
        for (wd, base) in widths:
            lay = lay_column(w, wd, base, vals)
            suf = suffix_for(len(lay), sufpat)
            out, dv = impl_decode(kind, w, len(vals), lay + suf, desc)
            if kind == 'num' and dv is not None:
                # the same column read with a reference value and a scale in force: every present entry, at every
                # increment width (1-bit increments included), is (raw + refval) / 10^scale
                dvs = impl_decode_scaled(w, len(vals), lay + suf, desc)
                want = [None if x is None else (x - 7) / 100 for x in dv]
                if dvs != want:
                    out = out + ' SCALED-DIFFERS %r' % (dvs,)
            res['anyw'].append((wd, base, lay, suf, out, dv))
        return res


def work_decode(case):
    """a raw stream presented to a decoder"""
    kind, w, n, bits, desc_id, dn = case
    with lib.time_limit(30):
        desc = descriptor(desc_id, dn if kind == 'cf' and dn is not None else None)
        return impl_decode(kind, w, n, bits, desc)[0]


def work_refval(case):
    w, vals, sufpat = case
    with lib.time_limit(30):
        desc = descriptor(NUM_ID)
        enc_out, bits = impl_encode('ref', w, list(vals), desc)
        dec_out = '-'
        if bits is not None:
            suf = suffix_for(len(bits), sufpat)
            dec_out = impl_decode('ref', w, len(vals), bits + suf, desc)[0]
            return enc_out, suf, dec_out
        return enc_out, '', dec_out


def e2e_message(ids, subsets, compressed):
    m = [["BUFR", 0, 4], [0, 0, 0, 0, 0, False, "0000000", 0, 0, 0, 33, 0, 2020, 1, 1, 0, 0, 0],
         [0, "00000000", len(subsets), True, compressed, "000000", list(ids)],
         [0, "00000000", subsets], ["7777"]]
    return json.loads(json.dumps(m))


def work_e2e(case):
    """the same message, compressed and uncompressed, through the public API"""
    ids, subsets = case
    e = env()
    out = []
    with lib.time_limit(60):
        for comp in (True, False):
            try:
                b = e['enc'].process(e2e_message(ids, subsets, comp)).serialized_bytes
                td = e['dec'].process(b).template_data.value
                out.append(('ok', [list(v) for v in td.decoded_values_all_subsets],
                            [[str(d) for d in ds] for ds in td.decoded_descriptors_all_subsets],
                            [sorted(l.items()) for l in td.bitmap_links_all_subsets]))
            except Exception as ex:
                out.append(('err', lib.err_code(ex), type(ex).__name__, str(ex)[:120]))
    return out


def pmap(func, cases, procs):
    if not cases:
        return []
    if procs <= 1 or len(cases) < 64:
        return [func(c) for c in cases]
    with mp.get_context('fork').Pool(procs) as pool:
        return pool.map(func, cases, chunksize=max(1, min(500, len(cases) // (procs * 4))))


# --------------------------------------------------------------------------
# the property's own predicates (no model involved)
# --------------------------------------------------------------------------
def present(vals):
    return [v for v in vals if v is not None]


def in_dom_num(w, vals):
    """the domain of C05's quantifier for a numeric / code-flag column"""
    if not vals or not (1 <= w <= 64):
        return False
    top = 2 ** w - 2 if w > 1 else 1
    if not all(v is None or (isinstance(v, int) and 0 <= v <= top) for v in vals):
        return False
    p = present(vals)
    return not p or max(p) - min(p) + 2 < 2 ** 63


def legal_widths(w, vals, ctx_rng, extra_prob, full=False):
    """(wd, base) pairs: every increment width from the smallest legal one up to
    three bits more, sometimes a much wider one, and a lower base"""
    p = present(vals)
    if not p:
        return []
    out = []
    bases = [min(p)]
    if min(p) > 0 and ctx_rng.random() < 0.3:
        bases.append(ctx_rng.randrange(0, min(p)))
    for base in bases:
        d = max(p) - base
        wd0 = 1
        while not d < 2 ** wd0 - 1:
            wd0 += 1
        if wd0 > 63:
            continue
        wds = list(range(wd0, 64)) if full else list(range(wd0, min(63, wd0 + 3) + 1))
        if ctx_rng.random() < extra_prob:
            wds.append(ctx_rng.choice([w2 for w2 in (8, 16, 31, 32, 33, 47, 62, 63) if w2 > wd0] or [63]))
        out.extend((wd, base) for wd in sorted(set(wds)))
    return out


# --------------------------------------------------------------------------
# numeric and code/flag columns
# --------------------------------------------------------------------------
def run_columns(ctx, cases, tag, procs):
    """cases: (kind, w, vals, desc_id, dn, sufpat, widths)"""
    if not cases:
        return
    results = pmap(work_col, cases, procs)
    lines = []
    for c, r in zip(cases, results):
        kind, w, vals, desc_id, dn, sufpat, widths = c
        ae = '1' if all_equal_flag(vals) else '0'
        if kind == 'num':
            lines.append('colnum %d %s %s %s' % (w, ae, show_opt(vals), bits_str(r['suffix'])))
        else:
            lines.append('colcf %d %d %s %s %s' % (w, dn if dn is not None else w, ae, show_opt(vals),
                                                   bits_str(r['suffix'])))
        for (wd, base, lay, suf, out, dv) in r['anyw']:
            lines.append('anyw %d %d %d %d %s %s' % (w, dn if dn is not None else w, wd, base, show_opt(vals),
                                                     bits_str(suf)))
    mouts = iter(lib.run_model_sharded(lines))
    for c, r in zip(cases, results):
        kind, w, vals, desc_id, dn, sufpat, widths = c
        mo = next(mouts)
        parts = [p.strip() for p in mo.split('|')]
        if kind == 'num':
            m_enc, m_dec, m_spec, m_unc, m_dom = parts
        else:
            m_enc, m_dec, m_unc, m_dom = parts
            m_spec = None
        case = {'kind_col': kind, 'w': w, 'vals': show_opt(vals), 'suffix': r['suffix'], 'desc': desc_id}
        key = (kind, w, tuple(vals), dn)
        # a code/flag reading with descriptor.nbits <> field width is outside the claim
        dom = in_dom_num(w, vals) and (dn is None or dn == w)
        has_missing = any(v is None for v in vals)
        nontrivial = len(vals) >= 2 and (has_missing or len(set(vals)) > 1)
        ctx.count(key, nontrivial)
        ctx.dist[tag] += 1
        ctx.dist['%s:w=%s' % (kind, w if w <= 4 else ('5-16' if w <= 16 else ('17-62' if w <= 62 else '63+')))] += 1
        ctx.dist['n=%s' % (len(vals) if len(vals) <= 4 else ('5-12' if len(vals) <= 12 else '13+'))] += 1
        branch = ('all-missing' if vals and all(v is None for v in vals) else
                  'all-equal' if all_equal_flag(vals) else
                  'increments+missing' if has_missing else 'increments')
        ctx.dist['branch:' + branch] += 1
        if r['enc'].startswith('err'):
            ctx.dist['encoder-refuses:' + r['enc']] += 1
        ctx.dist['in-theorem-domain' if m_dom != '00' else 'outside-theorem-domain'] += 1
        impl = ' | '.join([r['enc'], r['dec'], r['unc']])
        model = ' | '.join([m_enc, m_dec, m_unc])

        # the property's predicate, on the implementation alone: the column is read back
        # as written, the reader stops where the writer stopped, and the uncompressed
        # form of the same column decodes to the same values
        pred = (not dom) or (r['dec_vals'] == list(vals) and r['unc_vals'] == list(vals)
                             and r['dec'].endswith(' %d' % r['nbits']))
        # code/flag: a value equal to the element's all-ones pattern IS the missing value;
        # both storage forms must read it so
        if (kind == 'cf' and (dn is None or dn == w) and 2 <= w <= 64 and vals
                and all(v is None or 0 <= v <= 2 ** w - 1 for v in vals) and any(v == 2 ** w - 1 for v in vals)
                and min(present(vals)) < 2 ** w - 1     # an all-ones BASE is refused by the decoder (notes/C05.md)
                and max(present(vals)) - min(present(vals)) + 2 < 2 ** 63):
            expect_cf = [None if v == 2 ** w - 1 else v for v in vals]
            ctx.dist['cf:explicit-all-ones-value'] += 1
            if not (r['dec_vals'] == expect_cf and r['unc_vals'] == expect_cf):
                pred = False
        onebit = (w == 1 and has_missing)
        if not pred:
            if onebit:
                ctx.violation({'kind': 'onebit-missing', 'width': 1, 'has_missing': True, 'case': case,
                               'impl': impl, 'what': 'compressed %s / uncompressed %s for column %s' % (
                                   r['dec'], r['unc'], show_opt(vals))})
            else:
                ctx.violation({'kind': 'col-%s-predicate' % kind, 'case': case, 'impl': impl, 'model': model},
                              'column %s w=%d: compressed %s uncompressed %s' % (show_opt(vals), w, r['dec'], r['unc']))
        ctx.compare(case, impl, model, kind='col-%s-model' % kind, holds=lambda p=(pred or onebit): p)
        if m_spec is not None and 1 <= w <= 64 and m_spec != m_dec:
            ctx.violation({'kind': 'spec-reader-model', 'case': case, 'model': mo, 'no_failing_input': True,
                           'broken': 'extracted spec_dec_col_num and dec_col_num differ (theorem spec_reader_agrees)'})
        if dom and w >= 2 and m_dom[0] != '1':
            ctx.violation({'kind': 'dom-mismatch', 'case': case, 'model': mo, 'no_failing_input': True,
                           'broken': 'harness domain and col_dom_num differ'})
        if nontrivial:
            ctx.sample({'column': show_opt(vals), 'w': w, 'kind': kind, 'impl': impl[:160], 'model': model[:160]}, limit=4)
        # every legal width
        for (wd, base, lay, suf, out, dv) in r['anyw']:
            mo2 = next(mouts)
            p2 = [p.strip() for p in mo2.split('|')]
            m_lay, m_num, m_spec2, m_cf = p2
            c2 = {'kind_col': kind, 'w': w, 'wd': wd, 'base': base, 'vals': show_opt(vals), 'suffix': suf}
            ctx.count(('anyw', kind, w, wd, base, tuple(vals)), True)
            ctx.dist['any-width'] += 1
            ctx.dist['any-width:wd=%s' % (wd if wd <= 6 else '7+')] += 1
            if wd == 1:
                ctx.dist['any-width:one-bit-rule' + ('+missing' if has_missing else '')] += 1
            if m_lay != bits_str(lay):
                ctx.violation({'kind': 'layout-model', 'case': c2, 'harness': lay, 'model': m_lay,
                               'no_failing_input': True, 'broken': 'lay_col_num differs from the harness layout'})
            # a code/flag reading turns the element's all-ones value into missing
            expect = list(vals)
            ok2 = (dv == expect and out.endswith(' %d' % len(lay)))
            if 'SCALED-DIFFERS' in out:
                ctx.violation({'kind': 'any-width-scaling', 'case': c2, 'impl': out[:300]},
                              'column %s w=%d width %d: with refval -7 and scale 2 in force the entries are not (raw - 7) / 100: %s' % (
                                  show_opt(vals), w, wd, out[-120:]))
                out = out.split(' SCALED-DIFFERS')[0]
                ok2 = False
            if not ok2:
                ctx.violation({'kind': 'any-width-predicate', 'case': c2, 'impl': out},
                              'column %s w=%d laid out with base %d width %d decodes to %s' % (
                                  show_opt(vals), w, base, wd, out))
            ctx.compare(c2, out, m_num if kind == 'num' else m_cf, kind='any-width-model', holds=lambda q=ok2: q)
            if m_spec2 != m_num:
                ctx.violation({'kind': 'spec-reader-model', 'case': c2, 'model': mo2, 'no_failing_input': True,
                               'broken': 'extracted spec_dec_col_num and dec_col_num differ'})


def gen_exhaustive(ctx, kind, widths_all, width_sampled, n_sample, extra_prob):
    rng = ctx.rng
    cases = []
    for w in widths_all + ([width_sampled] if width_sampled else []):
        dom = [None] + list(range(0, 2 ** w - 1)) if w > 1 else [None, 0, 1]
        cols = []
        for n in range(1, 5):
            cols.extend(itertools.product(dom, repeat=n))
        if w == width_sampled:
            cols = rng.sample(cols, n_sample)
        for col in cols:
            vals = list(col)
            sufpat = format(rng.getrandbits(16), '016b')
            desc_id = NUM_ID if kind == 'num' else CF_IDS[w]
            # ALL legal widths (smallest .. 63) for the small columns; smallest .. +3 and a
            # sampled wide one for the rest
            full = (w <= 2) if ctx.quick else (w <= 3 or len(vals) <= 3)
            wl = legal_widths(w, vals, rng, extra_prob, full) if in_dom_num(w, vals) else []
            cases.append((kind, w, vals, desc_id, None, sufpat, wl))
    return cases


def gen_random_num(ctx, count):
    """widths up to 64 (and beyond, for the error classes), up to 40 subsets"""
    rng = ctx.rng
    cases = []
    for _ in range(count):
        style = rng.choice(['cluster', 'cluster', 'full', 'equal', 'missing-heavy', 'allmissing', 'wide-spread',
                            'out-of-range', 'odd-width', 'cf-allones'])
        w = rng.choice([1, 2, 3, 5, 7, 8, 9, 12, 15, 16, 17, 24, 31, 32, 33, 48, 62, 63, 64]) \
            if rng.random() < 0.6 else rng.randrange(1, 65)
        n = rng.choice([1, 2, 3, 4, 5, 8, 13, 25, 40]) if rng.random() < 0.6 else rng.randrange(1, 41)
        top = 2 ** w - 2 if w > 1 else 1
        if style == 'cluster':
            base = rng.randrange(0, top + 1)
            spread = rng.choice([0, 1, 2, 3, 6, 7, 14, 15, 30, 254, 255, 256, 2 ** 20])
            vals = [min(top, base + rng.randrange(0, spread + 1)) for _ in range(n)]
            vals = [None if rng.random() < 0.15 else v for v in vals]
        elif style == 'full':
            vals = [rng.choice([0, top, rng.randrange(0, top + 1)]) for _ in range(n)]
            vals = [None if rng.random() < 0.1 else v for v in vals]
        elif style == 'equal':
            v = rng.choice([0, top, rng.randrange(0, top + 1)])
            vals = [v] * n
        elif style == 'missing-heavy':
            v = rng.randrange(0, top + 1)
            vals = [None if rng.random() < 0.7 else min(top, v + rng.randrange(0, 3)) for _ in range(n)]
        elif style == 'allmissing':
            vals = [None] * n
        elif style == 'wide-spread':
            w = rng.choice([62, 63, 64])
            top = 2 ** w - 2
            hi = rng.choice([2 ** 62 - 3, 2 ** 62 - 2, 2 ** 62 - 1, 2 ** 62, 2 ** 63 - 4, 2 ** 63 - 3, 2 ** 63 - 2,
                             2 ** 63 - 1, 2 ** 63, top])
            hi = min(hi, top)
            vals = [0, hi] + [rng.choice([None, 0, hi, rng.randrange(0, hi + 1)]) for _ in range(max(0, n - 2))]
            rng.shuffle(vals)
        elif style == 'cf-allones':
            # a code/flag value equal to the all-ones pattern is the missing value, given explicitly
            w = rng.randrange(2, 17)
            top = 2 ** w - 2
            lo = rng.randrange(0, top + 1)
            vals = [lo] + [rng.choice([None, top + 1, top + 1, lo, rng.randrange(lo, top + 1)]) for _ in range(max(1, n - 1))]
            rng.shuffle(vals)
        elif style == 'out-of-range':
            vals = [rng.choice([-1, top + 1, top + 2, 2 ** w, rng.randrange(0, top + 1), None]) for _ in range(n)]
        else:   # odd-width: the width itself is illegal
            w = rng.choice([0, -1, -2, 65, 66, 70, 100, -65, -66, -70])
            vals = [rng.choice([None, 0, 1, 5]) for _ in range(n)]
        kind = 'cf' if style == 'cf-allones' else rng.choice(['num', 'num', 'cf'])
        dn = None
        if kind == 'cf':
            dn = w if (style == 'cf-allones' or rng.random() < 0.8) else rng.choice([w + 1, w - 1, 1, 64, 65, 0])
        sufpat = format(rng.getrandbits(16), '016b')
        wl = []
        if in_dom_num(w, vals) and w >= 1 and (dn is None or dn == w):
            wl = [x for x in legal_widths(w, vals, rng, 0.3)][:6]
        cases.append((kind, w, vals, NUM_ID, dn, sufpat, wl))
    return cases


def run_scaled_equal(ctx):
    """all_equal is computed on the USER's values: columns that become equal only after
    scaling (flag false, all entries equal) take the increments branch with a 2-bit width"""
    from pybufrkit.coder import CoderState
    from pybufrkit.bitops import get_bit_writer
    e = env()
    desc = descriptor(NUM_ID)
    rng = ctx.rng
    lines, impls, metas = [], [], []
    for _ in range(ctx.n(60, 600)):
        w = rng.randrange(2, 20)
        n = rng.randrange(2, 7)
        raw = rng.randrange(0, 2 ** w - 1)
        refval = rng.choice([0, -5, 7])
        users = [(raw + refval + rng.choice([-0.3, -0.1, 0.0, 0.2, 0.4])) / 10.0 for _ in range(n)]
        if rng.random() < 0.3:
            users[rng.randrange(n)] = None
        raws = [None if u is None else int(round(u * 10)) - refval for u in users]
        st = CoderState(True, n, [[u] for u in users])
        bw = get_bit_writer()
        try:
            e['enc'].process_numeric_compressed(st, bw, desc, w, 10, refval)
            io = 'ok ' + bits_str(bw.bit_stream.bin)
        except Exception as ex:
            io = 'err %d' % lib.err_code(ex)
        ae = '1' if all_equal_flag(users) else '0'
        lines.append('encnum %d %s %s' % (w, ae, show_opt(raws)))
        impls.append(io)
        metas.append((w, users, raws))
    mouts = lib.run_model(lines)
    for line, io, mo, (w, users, raws) in zip(lines, impls, mouts, metas):
        ctx.count(line, True)
        ctx.dist['scaled-equal(flag-false-but-equal)' if len(set(raws)) == 1 and not all_equal_flag(users)
                 else 'scaled-other'] += 1
        ctx.compare({'cmd': line, 'users': repr(users)}, io, mo, kind='col-num-scaled-model')


# --------------------------------------------------------------------------
# raw streams presented to the decoders (malformed and foreign layouts)
# --------------------------------------------------------------------------
def run_streams(ctx, procs):
    rng = ctx.rng
    cases = []
    for _ in range(ctx.n(1500, 30000)):
        kind = rng.choice(['num', 'num', 'cf', 'str'])
        n = rng.choice([0, 1, 2, 3, 5, 9])
        if kind == 'str':
            w = rng.choice([0, 1, 2, 3, 4, 8, -1])
            style = rng.choice(['zero-base', 'ff-base', 'text-base', 'random'])
            nd = rng.choice([0, 0, max(w, 0), 1, 2, 3])
            if style == 'random':
                bits = ''.join(rng.choice('01') for _ in range(rng.randrange(0, 120)))
            else:
                byte = {'zero-base': '00000000', 'ff-base': '11111111'}.get(style)
                base = ''.join(byte or format(rng.randrange(32, 127), '08b') for _ in range(max(w, 0)))
                bits = base + format(nd, '06b') + ''.join(rng.choice('01') for _ in range(8 * nd * n))
                if rng.random() < 0.15 and bits:
                    bits = bits[:rng.randrange(0, len(bits))]
            dn = None
        else:
            w = rng.choice([1, 2, 3, 4, 5, 8, 13, 32, 64, 65, 0, -1])
            style = rng.choice(['random', 'ones-base', 'width0', 'width1', 'short'])
            ww = max(w, 0)
            if style == 'random':
                bits = ''.join(rng.choice('01') for _ in range(rng.randrange(0, 200)))
            else:
                base = '1' * ww if style == 'ones-base' else ''.join(rng.choice('01') for _ in range(ww))
                nd = {'width0': 0, 'width1': 1}.get(style, rng.choice([0, 1, 2, 3, 7, 33, 63]))
                bits = base + format(nd, '06b') + ''.join(rng.choice('011') for _ in range(nd * n))
                if style == 'short' and bits:
                    bits = bits[:rng.randrange(0, len(bits))]
            dn = (w if rng.random() < 0.7 else rng.choice([1, 2, w + 1, 64, 65])) if kind == 'cf' else None
        bits = pad8(bits)
        desc_id = STR_ID if kind == 'str' else NUM_ID
        cases.append((kind, w, n, bits, desc_id, dn))
    check_streams(ctx, cases, procs)


def check_streams(ctx, cases, procs):
    lines = []
    for (kind, w, n, bits, desc_id, dn) in cases:
        if kind == 'num':
            lines.append('decnum %d %d %s' % (w, n, bits_str(bits)))
        elif kind == 'cf':
            lines.append('deccf %d %d %d %s' % (w, dn, n, bits_str(bits)))
        else:
            lines.append('decstr %d %d %s' % (w, n, bits_str(bits)))
    outs = pmap(work_decode, cases, procs)
    mouts = lib.run_model_sharded(lines)
    # the original string decoder of the model, for the D13 classification
    str_idx = [i for i, c in enumerate(cases) if c[0] == 'str']
    orig = dict(zip(str_idx, lib.run_model(['decstr0' + lines[i][6:] for i in str_idx])))
    for i, (c, line, io, mo) in enumerate(zip(cases, lines, outs, mouts)):
        ctx.count(line, True)
        ctx.dist['stream:' + c[0]] += 1
        ctx.dist['stream-result:' + (io if io.startswith('err') else 'ok')] += 1
        if c[0] == 'str' and io != mo and io == orig.get(i):
            report_d13(ctx, {'cmd': line}, io, mo)
            continue
        ctx.compare({'cmd': line}, io, mo, kind='stream-%s-model' % c[0])
    # the independent reader on the same numeric streams
    num_lines = ['specnum' + l[6:] for l, c in zip(lines, cases) if c[0] == 'num' and 1 <= c[1] <= 64]
    num_outs = [o for o, c in zip(mouts, cases) if c[0] == 'num' and 1 <= c[1] <= 64]
    for l, so, do in zip(num_lines, lib.run_model(num_lines), num_outs):
        ctx.count(l, True)
        ctx.dist['stream:independent-reader'] += 1
        if so != do:
            ctx.violation({'kind': 'spec-reader-model', 'case': {'cmd': l}, 'spec': so, 'dec': do,
                           'no_failing_input': True, 'broken': 'theorem spec_reader_agrees vs extraction'})


# --------------------------------------------------------------------------
# character columns
# --------------------------------------------------------------------------
def report_d13(ctx, case, impl, model):
    """the implementation behaves like the ORIGINAL decoder (dec_col_str_orig): an
    all-equal column of NUL strings comes back as empty strings"""
    ctx.violation({'kind': 'str-equal-nul', 'decoder': 'original', 'case': case, 'impl': impl,
                   'model_repaired': model,
                   'what': 'all-equal NUL strings decode compressed to empty strings (D13)'},
                  'equal NUL strings: %s (repaired decoder: %s)' % (impl[:100], model[:100]))


def str_token(v):
    return 'N' if v is None else ('e' if len(v) == 0 else v.hex())


def run_strings(ctx, procs, corpus_cols=()):
    rng = ctx.rng
    cols = list(corpus_cols)
    # structured: every combination of entry classes for 1..3 subsets at small widths
    classes = [None, b'', b'\0', b'\0\0\0', b'\xff\xff\xff', b'AB', b'ABC', b'ABCDE', b' ', b'\xff', b'\0A']
    for nb in ([0, 1, 2, 3] if ctx.quick else [0, 1, 2, 3, 4]):
        for n in (1, 2, 3):
            combos = list(itertools.product(classes, repeat=n))
            if n == 3:
                combos = rng.sample(combos, ctx.n(150, 1331))
            for col in combos:
                cols.append((nb, list(col)))
    # random: widths up to 64 octets (64 does not fit the 6-bit field), up to 40 subsets
    for _ in range(ctx.n(600, 20000)):
        nb = rng.choice([1, 2, 4, 8, 20, 32, 63, 64, 65]) if rng.random() < 0.5 else rng.randrange(0, 24)
        n = rng.choice([1, 2, 3, 4, 7, 19, 40]) if rng.random() < 0.6 else rng.randrange(1, 41)
        style = rng.choice(['different', 'equal', 'equal-nul', 'equal-ff', 'allmissing', 'mixed'])

        def word():
            ln = rng.choice([nb, nb, max(nb - 1, 0), nb + 2, rng.randrange(0, nb + 3)])
            return bytes(rng.choice([0, 32, 65, 66, 255, rng.randrange(256)]) for _ in range(ln))
        if style == 'different':
            vals = [word() for _ in range(n)]
        elif style == 'equal':
            vals = [word()] * n
        elif style == 'equal-nul':
            vals = [b'\0' * rng.choice([nb, nb, max(nb - 1, 0), nb + 1])] * n
        elif style == 'equal-ff':
            vals = [b'\xff' * nb] * n
        elif style == 'allmissing':
            vals = [None] * n
        else:
            vals = [rng.choice([None, b'\0' * nb, b'\xff' * nb, word(), word()]) for _ in range(n)]
        cols.append((nb, vals))
    check_strings(ctx, cols, procs)


def check_strings(ctx, cols, procs):
    rng = ctx.rng
    cases = []
    for nb, vals in cols:
        as_text = rng.random() < 0.5      # JSON input arrives as text; bytes are accepted too
        ivals = [v if v is None else (v.decode('latin-1') if as_text else v) for v in vals]
        cases.append(('str', nb, ivals, STR_ID, None, format(rng.getrandbits(16), '016b'), []))
    results = pmap(work_col, cases, procs)
    lines = []
    for (nb, vals), r in zip(cols, results):
        ae = '1' if all_equal_flag(vals) else '0'
        lines.append('colstr %d %s %s %s' % (nb, ae, ','.join(str_token(v) for v in vals) or '-',
                                             bits_str(r['suffix'])))
    mouts = lib.run_model_sharded(lines)
    for (nb, vals), r, line, mo in zip(cols, results, lines, mouts):
        m_enc, m_dec, m_dec0, m_unc, m_dom = [p.strip() for p in mo.split('|')]
        ctx.count(line, len(vals) >= 2)
        ctx.dist['str:nbytes=%s' % (nb if nb <= 4 else ('5-63' if nb <= 63 else '64+'))] += 1
        branch = ('all-missing' if all(v is None for v in vals) else
                  'all-equal' if all_equal_flag(vals) else 'different')
        ctx.dist['str-branch:' + branch] += 1
        if m_dom[1] == '1':
            ctx.dist['str:equal-nul-column'] += 1
        if r['enc'].startswith('err'):
            ctx.dist['str-encoder-refuses:' + r['enc']] += 1
        impl = ' | '.join([r['enc'], r['dec'], r['unc']])
        model = ' | '.join([m_enc, m_dec, m_unc])
        model0 = ' | '.join([m_enc, m_dec0, m_unc])
        case = {'cmd': line}
        dom = 0 <= nb <= 63 and len(vals) > 0
        expect = [(b'\xff' * nb if v is None else (v[:nb] + b' ' * (nb - len(v[:nb])))) for v in vals]
        pred = (not dom) or (r['dec_vals'] == expect and r['unc_vals'] == expect
                             and r['dec'].endswith(' %d' % r['nbits']))
        if impl != model and impl == model0 and m_dom[1] == '1':
            report_d13(ctx, case, impl, model)
            continue
        if not pred:
            ctx.violation({'kind': 'col-str-predicate', 'case': case, 'impl': impl, 'model': model},
                          'string column %s nbytes=%d: compressed %s uncompressed %s' % (
                              line.split(' ')[3][:60], nb, r['dec'][:80], r['unc'][:80]))
        ctx.compare(case, impl, model, kind='col-str-model', holds=lambda p=pred: p)
        if len(vals) >= 2 and branch == 'different':
            ctx.sample({'cmd': line[:120], 'impl': impl[:160], 'model': model[:160]}, limit=6)


# --------------------------------------------------------------------------
# new reference values
# --------------------------------------------------------------------------
def run_refvals(ctx, procs):
    rng = ctx.rng
    cases = []
    for _ in range(ctx.n(150, 6000)):
        w = rng.choice([2, 3, 8, 12, 16, 24, 33, 64, 65, 1, 0])
        n = rng.randrange(1, 6)
        m = 2 ** max(w - 1, 0)
        v = rng.choice([0, 1, -1, m - 1, -(m - 1), m, -m, rng.randrange(-m, m + 1), None])
        vals = [v] * n
        if rng.random() < 0.15 and n > 1:
            vals[rng.randrange(1, n)] = rng.choice([None, 5, v])
        cases.append((w, vals, format(rng.getrandbits(16), '016b')))
    outs = pmap(work_refval, cases, procs)
    lines = []
    for (w, vals, _), (enc_out, suf, dec_out) in zip(cases, outs):
        lines.append('encref %d %s %s' % (w, '1' if all_equal_flag(vals) else '0',
                                          'N' if vals[0] is None else str(vals[0])))
    mouts = lib.run_model(lines)
    dec_lines, dec_idx = [], []
    for i, ((w, vals, _), (enc_out, suf, dec_out), mo) in enumerate(zip(cases, outs, mouts)):
        ctx.count(lines[i], True)
        ctx.dist['refval:' + (enc_out if enc_out.startswith('err') else 'ok')] += 1
        ok = True
        if enc_out.startswith('ok') and dec_out.startswith('ok'):
            ok = dec_out.split(' ')[1] == str(vals[0])
        if not ok:
            ctx.violation({'kind': 'refval-predicate', 'case': {'cmd': lines[i]}, 'impl': enc_out + ' | ' + dec_out})
        ctx.compare({'cmd': lines[i]}, enc_out, mo, kind='refval-enc-model', holds=lambda o=ok: o)
        if enc_out.startswith('ok '):
            dec_lines.append('decref %d %d %s' % (w, len(vals), bits_str(enc_out[3:].replace('-', '') + suf)))
            dec_idx.append(i)
    for i, l, mo in zip(dec_idx, dec_lines, lib.run_model(dec_lines)):
        ctx.count(l, True)
        ctx.compare({'cmd': l}, outs[i][2], mo, kind='refval-dec-model')


# --------------------------------------------------------------------------
# end to end: the same message stored both ways
# --------------------------------------------------------------------------
def table_b(id_):
    d = descriptor(id_)
    return d.nbits, d.scale, d.refval


def draw_numeric(rng, id_, width_delta=0):
    nbits, scale, refval = table_b(id_)
    nbits0 = nbits
    nbits += width_delta
    cls = rng.choice(['missing', 'zero', 'max', 'mid', 'mid', 'mid'] + (['tableB-all-ones', 'tableB-all-ones'] if width_delta > 0 else []))
    if cls == 'missing':
        return None
    top = 2 ** nbits - 2 if nbits > 1 else 1
    # in a WIDENED field the all-ones pattern of the Table B width is an ordinary value
    raw = {'zero': 0, 'max': top, 'tableB-all-ones': 2 ** nbits0 - 1}.get(cls, rng.randrange(0, top + 1))
    v = raw + refval
    return v if scale == 0 else v / (10.0 ** scale)


def draw_assoc(rng, w, inner):
    """an associated field of w bits: missing, 0, the largest value, the all-ones pattern of each single 204YYY width that
    makes up w (an ordinary value of the w-bit field), or any value"""
    cls = rng.choice(['missing', 'zero', 'max', 'mid', 'mid'] + ['inner'] * (3 if inner else 0))
    if cls == 'missing':
        return None
    top = 2 ** w - 2 if w > 1 else 0
    if cls == 'inner':
        return min(2 ** rng.choice(inner) - 1, top)
    return {'zero': 0, 'max': top}.get(cls, rng.randrange(0, top + 1))


def draw_string(rng, nbytes):
    cls = rng.choice(['missing', 'full', 'short', 'nul', 'ff', 'text', 'text'])
    if cls == 'missing':
        return None
    if cls == 'nul':
        return '\0' * nbytes
    if cls == 'ff':
        return '\xff' * nbytes
    ln = {'full': nbytes, 'short': rng.randrange(0, nbytes)}.get(cls, rng.randrange(0, nbytes + 3))
    return ''.join(chr(rng.choice([32, 65, 66, 67, 90, 48])) for _ in range(ln))


E2E_TEMPLATES = [
    # (name, ids, slots) — slot: ('n', id[, width delta]) numeric/code by Table B, ('s', nbytes) string,
    #                      ('k', value) the same constant in every subset (factors, bitmap bits, 222000)
    ('numeric-201', None, None),     # built per case: [201YYY, 007001, 201000]
    ('mixed', [1001, 1002, 1015, 20003, 12001],
     [('n', 1001), ('n', 1002), ('s', 20), ('n', 20003), ('n', 12001)]),
    ('fixed-repl', [102002, 12001, 20003],
     [('n', 12001), ('n', 20003), ('n', 12001), ('n', 20003)]),
    ('delayed-repl', [101000, 31001, 12001, 1001],
     [('k', 2), ('n', 12001), ('n', 12001), ('n', 1001)]),
    ('delayed-repl-0', [101000, 31001, 12001, 1001],
     [('k', 0), ('n', 1001)]),
    ('bitmap', [1001, 1002, 222000, 236000, 101002, 31031, 1031, 1032, 101002, 33007],
     [('n', 1001), ('n', 1002), ('k', 0), ('k', 0), ('k', 0), ('k', 0), ('n', 1031), ('n', 1032),
      ('n', 33007), ('n', 33007)]),
    ('bitmap-partial', [1001, 1002, 222000, 236000, 101002, 31031, 1031, 1032, 33007],
     [('n', 1001), ('n', 1002), ('k', 0), ('k', 0), ('k', 1), ('k', 0), ('n', 1031), ('n', 1032), ('n', 33007)]),
    ('refval-203', [203012, 7001, 203255, 7001, 203000],
     [('k', -1000), ('n0', 7001)]),
    ('strings', [1015, 1011, 1015],
     [('s', 20), ('s', 9), ('s', 20)]),
    ('flags-1bit', [31031, 31031, 31031],
     [('n', 31031), ('n', 31031), ('n', 31031)]),
    # associated fields: ('a', width in force, widths whose all-ones patterns are ordinary values of the field)
    ('assoc-204', [204004, 31021, 12001, 1002, 204000, 1001],
     [('k', 1), ('a', 4, ()), ('n', 12001), ('a', 4, ()), ('n', 1002), ('n', 1001)]),
    ('assoc-204-nested', [204001, 31021, 204002, 31021, 12001, 204000, 1002, 204000],
     [('k', 1), ('k', 1), ('a', 3, (1, 2)), ('n', 12001), ('a', 1, ()), ('n', 1002)]),
    ('assoc-204-nested-wide', [204003, 31021, 204005, 31021, 20003, 12001, 204000, 204000],
     [('k', 1), ('k', 1), ('a', 8, (3, 5)), ('n', 20003), ('a', 8, (3, 5)), ('n', 12001)]),
]


def gen_e2e(ctx):
    rng = ctx.rng
    env()
    cases = []
    for _ in range(ctx.n(300, 8000)):
        name, ids, slots = rng.choice(E2E_TEMPLATES)
        n = rng.choice([1, 2, 3, 4, 8, 20])
        if name == 'numeric-201':
            w = rng.choice([1, 2, 3, 4, 5, 9, 15, 16, 24, 40, 62])
            ids = [201000 + 128 + (w - 15), 7001, 201000]
            slots = [('n', 7001, w - 15)]
        equalise = rng.random() < 0.25
        first = None
        subsets = []
        for _s in range(n):
            row = []
            for sl in slots:
                if sl[0] == 'k':
                    row.append(sl[1])
                elif sl[0] == 's':
                    row.append(draw_string(rng, sl[1]))
                elif sl[0] == 'a':
                    row.append(draw_assoc(rng, sl[1], sl[2]))
                elif sl[0] == 'n0':       # value against the NEW reference value -1000
                    v = rng.choice([None, -1000, -1000 + rng.randrange(0, 2 ** 15 - 1)])
                    row.append(v)
                else:
                    row.append(draw_numeric(rng, sl[1], sl[2] if len(sl) > 2 else 0))
            if equalise and first is not None:
                row = [f if rng.random() < 0.8 else r for f, r in zip(first, row)]
            first = first or row
            subsets.append(row)
        cases.append((name, ids, subsets))
    return cases


def run_e2e(ctx, procs, corpus_cases=()):
    run_e2e_cases(ctx, list(corpus_cases) + gen_e2e(ctx), procs)


def run_e2e_cases(ctx, cases, procs):
    outs = pmap(work_e2e, [(ids, subsets) for (_, ids, subsets) in cases], procs)
    for (name, ids, subsets), (c, u) in zip(cases, outs):
        key = ('e2e', tuple(ids), repr(subsets))
        ctx.count(key, len(subsets) >= 2)
        ctx.dist['e2e:' + name] += 1
        case = {'template': ids, 'subsets': subsets}
        if c[0] == 'err' or u[0] == 'err':
            ctx.dist['e2e-error'] += 1
            # both forms must agree on refusal as well
            if c[0] != u[0] or c[1] != u[1]:
                ctx.violation({'kind': 'e2e-refusal-differs', 'case': case, 'compressed': c, 'uncompressed': u},
                              'compressed %r vs uncompressed %r' % (c[:3], u[:3]))
            continue
        if c == u:
            ctx.dist['e2e-identical'] += 1
            ctx.sample({'e2e': name, 'template': ids, 'n_subsets': len(subsets), 'decoded_equal': True}, limit=7)
            continue
        # classify the difference by content: which decoded values differ, and how
        d18, d13, other = 0, 0, 0
        if c[2] != u[2] or c[3] != u[3] or [len(x) for x in c[1]] != [len(x) for x in u[1]]:
            other += 1
        else:
            for i, (cv, uv) in enumerate(zip(c[1], u[1])):
                for j, (x, y) in enumerate(zip(cv, uv)):
                    if x == y:
                        continue
                    label = c[2][i][j]
                    onebit = label == '031031' or (label == '007001' and 201114 in ids) or (name == 'assoc-204-nested' and j == 4)
                    if onebit and x is None and y in (1, -399):
                        d18 += 1      # uncompressed reads the missing 1-bit field as the value 1
                    elif x == b'' and isinstance(y, bytes) and y and set(y) == {0}:
                        d13 += 1      # compressed reads equal NUL strings as empty strings
                    else:
                        other += 1
        summary = 'end to end %s: compressed %s uncompressed %s' % (ids, repr(c[1])[:100], repr(u[1])[:100])
        if other:
            ctx.violation({'kind': 'e2e-not-transparent', 'case': case, 'compressed': c, 'uncompressed': u}, summary)
            continue
        if d18:
            ctx.violation({'kind': 'onebit-missing', 'width': 1, 'has_missing': True, 'case': case, 'what': summary})
        if d13:
            ctx.violation({'kind': 'str-equal-nul', 'decoder': 'original', 'case': case, 'what': summary})


# --------------------------------------------------------------------------
# corpus (regression witnesses) — first on every run
# --------------------------------------------------------------------------
def run_corpus(ctx):
    d = os.path.join(lib.VERIF, 'corpus', 'C05')
    num_cases, str_cols, e2e = [], [], []
    for f in sorted(os.listdir(d)) if os.path.isdir(d) else []:
        if not f.endswith('.json'):
            continue
        rec = json.load(open(os.path.join(d, f)))
        for c in rec.get('columns', []):
            vals = [None if v is None else v for v in c['vals']]
            num_cases.append((c.get('kind', 'num'), c['w'], vals, c.get('desc', NUM_ID), None,
                              '0110100110010110', [tuple(x) for x in c.get('widths', [])]))
        for c in rec.get('strings', []):
            str_cols.append((c['nbytes'], [None if v is None else bytes.fromhex(v) for v in c['vals']]))
        for c in rec.get('e2e', []):
            e2e.append((c['name'], c['ids'], c['subsets']))
    run_columns(ctx, num_cases, 'corpus', 1)
    return str_cols, e2e


def run(ctx):
    procs = int(os.environ.get('VERIF_PROCS', '8' if ctx.quick else '14'))
    ctx.rule = (
        'Column level, implementation driven directly through Encoder/Decoder.process_{numeric,codeflag,string,new_refval}_compressed '
        'with a CoderState: (a) EXHAUSTIVE: all columns of 1..4 subsets over {missing, 0..2^w-2} (w=1: {missing,0,1}) for w<=4 '
        '(quick: w<=3 all, w=4 sampled), numeric (007001) and code/flag (031031, 002001, 001003, 002003); every column is encoded by '
        'implementation and model (bits compared), decoded by both and by the independent reader (values, final position compared), '
        'encoded/decoded uncompressed by both, and laid out by the harness at every legal increment width from the smallest up to 3 bits '
        'wider (sometimes much wider, sometimes with a lower base) and presented to the implementation decoder, the model decoder and '
        'the independent reader (ALL widths up to 63 for w<=2 in quick, for w<=3 or <=3 subsets in thorough); (b) random widths 1..64 (+ illegal widths), up to 40 subsets, clustered/full-range/equal/missing-heavy/'
        'all-missing/wide-spread (6-bit field overflow)/out-of-range values; columns equal only after scaling; (c) character columns: all '
        'combinations of 11 entry classes (missing, empty, NUL, 0xFF, short, long, text) for 1..3 subsets and 0..4 octets, random to 65 '
        'octets and 40 subsets, text and bytes input; (d) raw streams (random, all-ones base, width 0/1, truncated) to the three decoders; '
        '(e) 203YYY reference values; (f) end to end: the same JSON message with is_compressed true/false through Encoder().process / '
        'Decoder().process, ten templates (201YYY widths 1..64, mixed, fixed and delayed replication, bitmaps with links, 203YYY, strings, '
        '1-bit flags): decoded values, descriptor labels and bitmap links must be identical. A case is non-trivial when it has >= 2 '
        'subsets and a missing entry or two different entries; distinct = distinct (kind, width, column).')
    str_cols_corpus, e2e_corpus = run_corpus(ctx)

    # (a) exhaustive core
    if ctx.quick:
        cases = gen_exhaustive(ctx, 'num', [1, 2, 3], 4, 6000, 0.05)
        cases += gen_exhaustive(ctx, 'cf', [1, 2, 3], 4, 4000, 0.05)
    else:
        cases = gen_exhaustive(ctx, 'num', [1, 2, 3, 4], None, 0, 0.15)
        cases += gen_exhaustive(ctx, 'cf', [1, 2, 3, 4], None, 0, 0.15)
    run_columns(ctx, cases, 'exhaustive-core', procs)
    ctx.exhaustive = not ctx.quick
    ctx.extra['exhaustive_core'] = ('all columns of <=4 subsets over {missing,0..2^w-2}, w<=%d, numeric and code/flag: complete%s'
                                    % ((3, '; w=4: 6000+4000 sampled') if ctx.quick else (4, '')))
    # (b) random wide columns
    run_columns(ctx, gen_random_num(ctx, ctx.n(2500, 60000)), 'random-wide', procs)
    run_scaled_equal(ctx)
    # (c) strings
    run_strings(ctx, procs, str_cols_corpus)
    # (d) streams
    run_streams(ctx, procs)
    # (e) reference values
    run_refvals(ctx, procs)
    # (f) end to end
    run_e2e(ctx, procs, e2e_corpus)

    # (g) generated templates stored both ways (whole-template transparency), model compared too
    run_generated_templates(ctx)

    # --- extraction cross-check: a sample evaluated by vm_compute ----------------
    rng = ctx.rng
    items = []
    pool = [c for c in cases if len(c[2]) >= 2 and c[0] == 'num']
    sample = pool[:: max(1, len(pool) // ctx.n(40, 120))][:ctx.n(40, 120)]
    lines = ['encnum %d %s %s' % (c[1], '1' if all_equal_flag(c[2]) else '0', show_opt(c[2])) for c in sample]
    for c, out in zip(sample, lib.run_model(lines)):
        def copt(vals):
            return '[' + ';'.join('None' if v is None else 'Some (%d)%%Z' % v for v in vals) + ']'

        def cbits(b):
            return '[' + ';'.join('true' if ch == '1' else 'false' for ch in b) + ']'
        if out.startswith('ok '):
            items.append(('enc_col_num (%d)%%Z %s %s []' % (c[1], 'true' if all_equal_flag(c[2]) else 'false', copt(c[2])),
                          'Ok %s' % cbits(out[3:].replace('-', ''))))
    nx, err = lib.vm_cross_check('C05', 'From PBK Require Import Base Bits Column.', items)
    ctx.extra['extraction_cross_check_vm_compute'] = nx
    if err:
        ctx.violation({'kind': 'extraction-cross-check', 'error': err, 'no_failing_input': True,
                       'broken': 'OCaml extraction of Column.v disagrees with vm_compute'})
    ctx.partial = [
        'onebit_missing_refuted (D18): transparency is false for 1-bit columns with a missing entry; reproduced on the implementation on every run',
        'col_str_nul_refuted (D13): statement about the decoder BEFORE fixes/C05_string_equal_nul.diff (dec_col_str_orig)',
        'onebit_template_refuted (D18, whole-template form): compression_transparent needs the strict ghost; both plain ghost encoders accept a one-bit element missing in one subset and the readers disagree',
        'compression_transparent is stated for value lists accepted by the strict compressed ghost and the uncompressed ghost (executable; acceptance measured on the generated templates); outside: 3-vs-3.0 all-equal columns, bitmaps differing between subsets, all-ones values, fields > 64 bits / > 63 octets',
    ]
    ctx.assumptions = [
        'Column.v models the per-column bodies of process_*_compressed; scaling/reference values and the template walk are the caller\'s (integrator\'s) part',
        'bitstring 4.4.0 behaviour as modelled in Bits.v',
        'character columns with a negative octet count are outside the model (Bits.write_bytes refuses, Python slices); never produced by the coder',
        'the theorems cover every width and subset count; the generated space is widths <= 64 (+ a few illegal ones), <= 40 subsets',
    ]


def run_generated_templates(ctx):
    """Whole templates (operators, replication, bitmaps) over the grammar of C01, with
    replication factors / bitmaps / reference values shared by all subsets: the same
    values are encoded compressed and uncompressed by the implementation, decoded,
    and must give identical values, labels and links; the compressed encode/decode is
    also compared with the extracted model (EncodeC/DecodeC over Column.v)."""
    import pipeline as P
    import json as _json
    n = ctx.n(200, 4000)
    cases = P.build_cases(ctx, n, gen_kwargs=dict(size=6), nsub_choices=(2, 2, 3, 4, 6), compressed=True, shared=True)
    P.attach_templates(cases)
    P.run_gen(cases)
    P.run_encode(cases)
    P.run_decode(cases)

    def jn(x):
        return _json.dumps(x, sort_keys=True, default=lambda o: o.decode('latin-1') if isinstance(o, bytes) else str(o))
    for c in cases:
        if not c.get('toks') or not c.get('gen', '').startswith('ok'):
            ctx.dist['templates-generator-rejected'] += 1
            continue
        case = {'ids': c['ids'], 'seed': c['seed'], 'forced': c['forced'], 'nsub': c['nsub'], 'version': c['version']}
        ctx.count(('tmpl', tuple(c['ids']), c['seed']), True)
        ctx.dist['templates-compressed'] += 1
        eq, detail = P.compare_encode(c)
        if not eq:
            ctx.compare(case, 'impl', 'model', kind='template-compressed-encode', holds=lambda: P.roundtrip_holds(c),
                        extra={'detail': detail})
            continue
        if c['impl_enc'][0] != 'ok':
            ctx.dist['templates-encoder-refused'] += 1
            continue
        eq, detail = P.compare_decode(c)
        if not eq and not ('ulp=1' in detail and 'scale=-' in detail):
            ctx.compare(case, 'impl', 'model', kind='template-compressed-decode', holds=lambda: P.roundtrip_holds(c),
                        extra={'detail': detail})
        # the same data, stored uncompressed
        cu = dict(c, compressed=False)
        eu = P.impl_encode(cu)
        if eu[0] != 'ok':
            ctx.violation({'kind': 'template-transparency', 'case': case, 'why': 'uncompressed form refused: %r' % (eu,)},
                          'ids=%s: encodes compressed but not uncompressed' % c['ids'])
            continue
        cu['impl_enc'] = eu
        du = P.impl_decode(cu)
        dc = c.get('impl_dec')
        if not dc or dc[0] != 'ok' or du[0] != 'ok':
            ctx.violation({'kind': 'template-transparency', 'case': case, 'why': 'decode failed: %r / %r' % (dc and dc[:2], du[:2])},
                          'ids=%s: one storage form does not decode' % c['ids'])
            continue
        if jn(dc[1]) != jn(du[1]) or dc[2] != du[2] or dc[3] != du[3]:
            ctx.violation({'kind': 'template-transparency', 'case': case,
                           'why': 'values/labels/links differ between compressed and uncompressed storage'},
                          'ids=%s: compressed and uncompressed storage decode differently' % c['ids'])
    ghost_templates_check(ctx, cases)


def ghost_templates_check(ctx, cases):
    """The hypotheses and conclusions of the whole-template theorems on the generated
    cases: C05_decode_encode_compressed (EncodeCG.encode_compressed_ghost accepts:
    measured, non-vacuity; then its bits are the implementation's bits and its ghost
    values are what the implementation's decoder returns) and
    C05_compression_transparent (strict compressed ghost and uncompressed ghost both
    accept: then the two ghosts, labels and links printed by the model are identical
    and equal what the implementation decodes from either storage form)."""
    import pipeline as P
    import bufrlib as B
    live = [c for c in cases if c.get('py_vals') is not None and c.get('impl_enc') and c['impl_enc'][0] == 'ok']
    if not live:
        return
    vals = [B.subsets_to_model(c['py_vals']) for c in live]
    out_g = lib.run_model_sharded(['enccg %s %s' % (v, c['toks']) for v, c in zip(vals, live)])
    out_s = lib.run_model_sharded(['enccgs %s %s' % (v, c['toks']) for v, c in zip(vals, live)])
    out_u = lib.run_model_sharded(['encg %s %s' % (v, c['toks']) for v, c in zip(vals, live)])
    accepted = both = 0

    def ghost_vs_impl(ghost_s, dec):
        ghost = B.parse_model_subsets(ghost_s)
        if len(ghost) != len(dec):
            return 'number of subsets'
        for si, (gs, vs) in enumerate(zip(ghost, dec)):
            if len(gs) != len(vs):
                return 'subset %d length' % si
            for k, (tok, v) in enumerate(zip(gs, vs)):
                ok, note = B.value_matches(tok, v)
                if not ok:
                    return 'subset %d value %d impl=%r ghost=%s %s' % (si, k, v, tok, note)
        return None

    for c, og, os_, ou in zip(live, out_g, out_s, out_u):
        case = {'ids': c['ids'], 'seed': c['seed'], 'forced': c['forced'], 'nsub': c['nsub'], 'version': c['version']}
        if not og.startswith('ok '):
            ctx.dist['compressed-ghost-refused ' + og] += 1
            continue
        accepted += 1
        _, bits, labels_s, links_s, ghost_s = og.split(' ')
        # input distribution of the accepted cases, per column of the value lists
        vt = c.get('val_toks') or []
        for k in range(len(vt[0]) if vt else 0):
            col = [s_[k] for s_ in vt if k < len(s_)]
            if 'n' in col and any(x != 'n' for x in col):
                ctx.dist['ghost-accepted column: partly missing'] += 1
            elif all(x == 'n' for x in col):
                ctx.dist['ghost-accepted column: missing throughout'] += 1
            elif len(set(col)) == 1:
                ctx.dist['ghost-accepted column: all equal'] += 1
            else:
                ctx.dist['ghost-accepted column: differing'] += 1
            if any(x.startswith('y') for x in col):
                ctx.dist['ghost-accepted column: character'] += 1
        # the implementation's bits were compared with EncodeC.encode_compressed above (compare_encode);
        # the ghost writes the same bits and records the same labels and links (theorem encode_compressed_ghost_is_encode)
        me = c.get('model_enc', '').split(' ')
        if me[:1] != ['ok'] or me[1:] != [bits, labels_s, links_s]:
            ctx.violation({'kind': 'C05-ghost-bits', 'case': case, 'no_failing_input': True,
                           'broken': 'extracted ghost encoder and extracted encode_compressed differ (theorem encode_compressed_ghost_is_encode)'},
                          'compressed ghost encoder accepts ids=%s but writes other bits than encode_compressed' % c['ids'])
            continue
        dc = c.get('impl_dec')
        if not dc or dc[0] != 'ok':
            ctx.violation({'kind': 'C05-decode-of-encode-fails', 'case': case, 'impl': repr(dc)[:200]},
                          'the implementation cannot decode the compressed data it encoded: ids=%s' % c['ids'])
            continue
        bad = ghost_vs_impl(ghost_s, dc[1])
        if bad and 'ulp=1' in bad and 'scale=-' in bad:
            ctx.dist['decode-1ulp (C01 D12)'] += 1
        elif bad:
            ctx.violation({'kind': 'C05-ghost-values', 'case': case, 'detail': bad},
                          'decode(encode_compressed(v)) is not the ghost of theorem decode_encode_compressed: ' + bad)
        # transparency theorem: both ghosts accept => identical ghosts, labels, links
        if os_.startswith('ok ') and ou.startswith('ok '):
            both += 1
            ts, tu = os_.split(' '), ou.split(' ')
            if ts[2:] != tu[2:] or ts[1:] != og.split(' ')[1:]:
                ctx.violation({'kind': 'C05-ghosts-disagree', 'case': case, 'no_failing_input': True,
                               'broken': 'extracted ghosts contradict theorem ghosts_agree / strict_ghost_is_ghost'},
                              'strict compressed ghost and uncompressed ghost differ for ids=%s' % c['ids'])
        elif not os_.startswith('ok '):
            ctx.dist['strict-ghost-refused ' + os_] += 1
    ctx.extra['compressed_ghost_accepted'] = accepted
    ctx.extra['compressed_ghost_cases'] = len(live)
    ctx.extra['transparency_theorem_applies'] = both
    if accepted < 0.9 * len(live):
        ctx.violation({'kind': 'C05-vacuity', 'no_failing_input': True,
                       'broken': 'theorem decode_encode_compressed applies to only %d of %d generated cases' % (accepted, len(live))})
    if both < 0.6 * len(live):
        ctx.violation({'kind': 'C05-vacuity', 'no_failing_input': True,
                       'broken': 'theorem compression_transparent applies to only %d of %d generated cases' % (both, len(live))})


def parse_opt(tok):
    return [] if tok == '-' else [None if t == 'N' else int(t) for t in tok.split(',')]


def replay(ctx, rec):
    """re-run one stored case on the implementation and the model; the record's
    classification is recomputed by the same code path as in a normal run"""
    case = rec.get('case', {})
    before = len(ctx.violations)
    if 'template' in case:
        run_e2e_cases(ctx, [('replay', case['template'], case['subsets'])], 1)
    elif 'vals' in case and 'w' in case:
        vals = parse_opt(case['vals'])
        kind = case.get('kind_col', 'num')
        c = (kind, case['w'], vals, case.get('desc', NUM_ID), None, '0110100110010110',
             [(case['wd'], case['base'])] if 'wd' in case else [])
        run_columns(ctx, [c], 'replay', 1)
    elif 'cmd' in case:
        toks = case['cmd'].split(' ')
        cmd = toks[0]
        if cmd == 'colstr':
            vals = [] if toks[3] == '-' else [None if t == 'N' else (b'' if t == 'e' else bytes.fromhex(t))
                                              for t in toks[3].split(',')]
            check_strings(ctx, [(int(toks[1]), vals)], 1)
        elif cmd in ('decnum', 'decstr', 'specnum'):
            kind = 'str' if cmd == 'decstr' else 'num'
            bits = '' if toks[3] == '-' else toks[3]
            check_streams(ctx, [(kind, int(toks[1]), int(toks[2]), bits, STR_ID if kind == 'str' else NUM_ID, None)], 1)
        elif cmd == 'deccf':
            bits = '' if toks[4] == '-' else toks[4]
            check_streams(ctx, [('cf', int(toks[1]), int(toks[3]), bits, NUM_ID, int(toks[2]))], 1)
        elif cmd == 'encref':
            v = None if toks[3] == 'N' else int(toks[3])
            io = work_refval((int(toks[1]), [v] if toks[2] == '1' else [v, (v or 0) + 1], '0110100110010110'))[0]
            mo = lib.run_model([case['cmd']])[0]
            ctx.compare(case, io, mo, kind='refval-enc-model')
        elif cmd == 'decref':
            bits = '' if toks[3] == '-' else toks[3]
            io = impl_decode('ref', int(toks[1]), int(toks[2]), bits, descriptor(NUM_ID))[0]
            mo = lib.run_model([case['cmd']])[0]
            ctx.compare(case, io, mo, kind='refval-dec-model')
        elif cmd == 'encnum' and 'users' in case:
            import ast
            from pybufrkit.coder import CoderState
            from pybufrkit.bitops import get_bit_writer
            users = ast.literal_eval(case['users'])
            raws = parse_opt(toks[3])
            refval = next((int(round(u * 10)) - r for u, r in zip(users, raws) if u is not None), 0)
            st = CoderState(True, len(users), [[u] for u in users])
            bw = get_bit_writer()
            try:
                env()['enc'].process_numeric_compressed(st, bw, descriptor(NUM_ID), int(toks[1]), 10, refval)
                io = 'ok ' + bits_str(bw.bit_stream.bin)
            except Exception as ex:
                io = 'err %d' % lib.err_code(ex)
            ctx.compare(case, io, lib.run_model([case['cmd']])[0], kind='col-num-scaled-model')
        else:
            return {'error': 'unrecognised command in replay record', 'cmd': case['cmd']}
    else:
        return {'error': 'unrecognised replay record'}
    new = ctx.violations[before:]
    return {'replayed': case, 'reproduced': bool(new) or bool(ctx.known_hits),
            'violations': [{k: v for k, v in x.items() if k in ('kind', 'impl', 'model', 'what')} for x in new],
            'known_findings': ctx.known_hits}
