"""C13 — no hidden state: results do not depend on what was processed before
(pybufrkit tables.TableGroupCache / templatecompiler.CompiledTemplateManager vs
coq/theories/Cache.v; every observation vs a fresh process)."""
import glob
import json
import multiprocessing
import os
import random
import subprocess
import sys
import tempfile
from concurrent.futures import ThreadPoolExecutor

import lib

sys.path.insert(0, os.path.dirname(os.path.abspath(__file__)))
import c13_obs as O  # noqa: E402

LEVEL = 'proof'
CACHE_MAXES = [None, 0, 1, 2, 5]          # slot = index; encoders use slot + 5


# ---------------------------------------------------------------------------
# the pool of items
# ---------------------------------------------------------------------------
def sample_files():
    fs = sorted(glob.glob(os.path.join(lib.REPO, 'tests', 'data', '*.bufr')) +
                glob.glob(os.path.join(lib.REPO, 'tests', 'benchmark_data', '*.bufr')))
    return [f for f in fs if os.path.isfile(f)]


def build_pool(ctx, n_real, n_synth):
    """items: real sample messages chosen to cover as many table-group keys as possible
    (smallest file per key first), damaged variants of some of them, and synthetic
    one-element messages over other bundled versions (to exceed the real limit of 50)."""
    from pybufrkit.decoder import Decoder
    rng = ctx.rng
    d = Decoder()
    by_key = {}
    for f in sample_files():
        b = open(f, 'rb').read()
        if len(b) > 40000:
            continue
        try:
            m = d.process(b, info_only=True)
            k = (m.master_table_version.value, m.local_table_version.value, m.originating_centre.value,
                 m.originating_subcentre.value)
        except Exception:
            continue
        by_key.setdefault(k, []).append((len(b), os.path.basename(f), b))
    items = []
    keys = sorted(by_key)
    # one (smallest) file per header key, then more files round-robin
    rounds = 0
    while len(items) < n_real and rounds < 6:
        for k in keys:
            fl = sorted(by_key[k])
            if rounds < len(fl) and len(items) < n_real:
                ln, name, b = fl[rounds]
                items.append({'id': 'f:' + name, 'hex': b.hex(), 'kind': 'real', 'hdr': list(k)})
        rounds += 1
    # damaged variants: truncated inside the data section, truncated in section 3, undefined descriptor
    damaged = []
    for it in items[:max(4, n_real // 3)]:
        b = bytes.fromhex(it['hex'])
        cut = rng.choice([len(b) - 5, len(b) - max(6, len(b) // 3), 20, len(b) // 2])
        damaged.append({'id': 't%d:%s' % (cut, it['id'][2:]), 'hex': b[:max(9, cut)].hex(), 'kind': 'truncated'})
    damaged.append({'id': 'u:undefined-33', 'hex': O.mk_message([1001, 63255, 1002], 16, 33).hex(), 'kind': 'undefined'})
    damaged.append({'id': 'u:undefined-seq-13', 'hex': O.mk_message([399999], 16, 13).hex(), 'kind': 'undefined'})
    damaged.append({'id': 'u:delayed-at-end-25', 'hex': O.mk_message([1001, 101000], 16, 25).hex(), 'kind': 'undefined'})
    # messages that leave walker registers "dirty" at their end (open 204, concluded 203 with new
    # reference values, open 201/202/207/208, a defined bitmap), each followed in the pool by
    # small victims that would see a leaked register
    for name, ids, pat in [
            ('open-204', [204008, 31021, 1001, 12001], True), ('concluded-203', [203010, 7001, 12001, 203255], True),
            ('open-201-202', [201132, 202129, 12001, 7001], True), ('open-207', [207002, 12001, 7001], True),
            ('open-208', [208002, 1015, 1001], True), ('open-221', [221002, 1001, 12001], True),
            ('bitmap', [1001, 12001, 222000, 236000, 101002, 31031, 1031, 1032, 101002, 33007], False),
            ('victim-a', [7001, 12001, 1001], True), ('victim-b', [1001, 1015, 7001, 12001], True),
            ('victim-c', [1001, 12001, 222000, 237000, 1031, 1032, 101002, 33007], False),
            # the same operator with different operands in the same table group (cached descriptors)
            ('op-201-a', [201132, 12001, 201000, 7001], True), ('op-201-b', [201130, 12001, 201000, 7001], True),
            ('op-202-a', [202129, 12001, 202000, 7001], True), ('op-202-b', [202130, 12001, 202000, 7001], True),
            ('op-207-a', [207001, 12001, 207000, 7001], True), ('op-207-b', [207002, 12001, 207000, 7001], True),
            ('op-208-a', [208002, 1015, 208000, 1001], True), ('op-208-b', [208003, 1015, 208000, 1001], True),
            ('fixed-rep-a', [101002, 12001, 7001], True), ('fixed-rep-b', [101003, 12001, 7001], True),
            ('seq-a', [301011, 12001], True), ('seq-b', [301012, 301011, 12001], True),
            # a Table D sequence containing 102002 / 102003, and a template using the same replication
            # descriptor with other members (replication descriptors must not be shared objects)
            ('alias2-a', [302040, 12001], True), ('alias2-b', [102002, 12001, 7001, 1001], True),
            ('alias3-a', [302047, 12001], True), ('alias3-b', [102003, 12001, 7001, 1001], True),
            # outer replications that agree on id, factor and direct member ids while an INNER replication differs
            ('nest1-a', [1001, 103000, 31001, 7004, 101002, 11001], True), ('nest1-b', [1001, 103000, 31001, 7004, 101002, 11002], True),
            ('nest2-a', [103002, 7004, 101002, 11001, 12001], True), ('nest2-b', [103002, 7004, 101002, 12101, 12001], True),
            ('nest3-a', [102000, 31001, 101003, 2001], True), ('nest3-b', [102000, 31001, 101003, 12001], True)]:
        damaged.append({'id': 'r:' + name, 'hex': O.mk_message(ids, 64, 33, pattern=pat).hex(), 'kind': 'register'})
    # COMPRESSED messages (one pass over the template, no per-subset reset) and messages that END with an operator
    # still in force (204YYY never cancelled, 201/202/207 open): what one message leaves behind in a coder state
    # must not reach the next message
    for name, ids, comp in [('open204-c', [204008, 31021, 12101], True), ('open204-u', [1001, 204004, 31021, 12001], False),
                            ('open201-c', [201130, 12001], True), ('open207-c', [207002, 12101, 10004], True),
                            ('victim-c1', [12101, 101000, 31001, 10004], True), ('victim-c2', [1001, 1002, 12001, 7001], True),
                            ('victim-c3', [301011, 12101], True)]:
        damaged.append({'id': 'r:' + name, 'hex': O.mk_message(ids, 64, 33, nsub=2 if comp else 1, compressed=comp).hex(),
                        'kind': 'register'})
    # the SAME descriptor list under different master table versions, over elements whose Table B
    # entry differs between the versions (a compiled template must not be shared across table groups)
    for name, ids in [('xver-14001', [1001, 14001, 12001]), ('xver-1103', [1103, 12001]), ('xver-15009', [15009, 2007, 1001]),
                      ('xver-22039', [22039, 12001]),
                      # ... and a marker operator over such an element (pseudo descriptors derived from it)
                      ('xver-m14001', [14001, 224000, 236000, 101001, 31031, 8023, 224255]),
                      ('xver-m22039', [22039, 223000, 236000, 101001, 31031, 223255])]:
        for v in (13, 33, 19):
            damaged.append({'id': 'r:%s-v%d' % (name, v), 'hex': O.mk_message(ids, 64, v, pattern=True).hex(), 'kind': 'register'})
    # the SAME descriptor list under the SAME master tables but different LOCAL tables (centre 98, local table
    # versions 1/2/3/101 and none), over local descriptors defined differently in them
    for name, ids in [('xloc-8201', [1001, 8201, 1002, 12101]), ('xloc-1211-2201', [1211, 2201, 12001]),
                      ('xloc-33194', [1001, 33194, 33195, 12001]), ('xloc-5234', [5234, 5236, 1001])]:
        for ltv in (1, 2, 3, 101, 0):
            damaged.append({'id': 'r:%s-l%d' % (name, ltv), 'hex': O.mk_message(ids, 64, 25, 98, 0, ltv, pattern=True).hex(),
                            'kind': 'register'})
    # centre 98 with a local table version that is NOT bundled (4, 7: falls back to the master tables) and with bundled ones:
    # what was found out about one local version says nothing about another
    for name, ids in [('xunb-8201', [1001, 8201, 1002, 12101]), ('xunb-1211', [1211, 2201, 12001]), ('xunb-wmo', [1001, 1002, 12001])]:
        for ltv in (4, 1, 7, 101):
            damaged.append({'id': 'r:%s-l%d' % (name, ltv), 'hex': O.mk_message(ids, 64, 25, 98, 0, ltv, pattern=True).hex(),
                            'kind': 'register'})
    # the same TOP-LEVEL descriptor ids (a replication) with different descriptors inside it, through one coder (family
    # steps use the same Decoder / Encoder object for both): a compiled template belongs to the whole unexpanded list
    for fam, a_ids, b_ids in [('toprep-fixed', [102002, 12001, 7001], [102002, 10004, 11001]),
                              ('toprep-delayed', [102000, 31001, 12001, 7001], [102000, 31001, 10004, 11001]),
                              ('toprep-tail', [1001, 101003, 12001], [1001, 101003, 10004])]:
        damaged.append({'id': 'r:xunb-%s-a' % fam, 'hex': O.mk_message(a_ids, 64, 33, pattern=True).hex(), 'kind': 'register'})
        damaged.append({'id': 'r:xunb-%s-b' % fam, 'hex': O.mk_message(b_ids, 64, 33, pattern=True).hex(), 'kind': 'register'})
    # the SAME descriptor list, master tables and local table VERSION from different originating centres (98 has
    # local tables bundled, 7 / 34 / 0 have none): the choice of local tables depends on the centre too
    for name, ids in [('xctr-1192', [1001, 1192, 12001]), ('xctr-wmo', [1001, 1002, 12001]), ('xctr-8201', [8201, 12101])]:
        for ctr in (98, 7, 34, 0):
            for ltv in (1, 2):
                damaged.append({'id': 'r:%s-c%d.%d' % (name, ctr, ltv),
                                'hex': O.mk_message(ids, 64, 13, ctr, 0, ltv, pattern=True).hex(), 'kind': 'register'})
    # synthetic messages: version x local table x template
    synth = []
    versions = sorted(int(os.path.basename(p)) for p in glob.glob(os.path.join(lib.REPO, 'pybufrkit', 'tables', '0', '0_0', '*'))
                      if os.path.basename(p).isdigit())
    combos = [(v, c, l) for v in versions for (c, l) in ((0, 0), (98, 1), (98, 101))] + [(77, 0, 0), (5, 0, 0)]
    rng.shuffle(combos)
    templates = [[1001], [1001, 1002], [2001, 101002, 1001], [301011], [101000, 31001, 1001]]
    for (v, c, l) in combos[:n_synth]:
        ids = rng.choice(templates)
        synth.append({'id': 's:%d-%d-%d:%s' % (v, c, l, '.'.join(map(str, ids))),
                      'hex': O.mk_message(ids, 24, v, c, 0, l).hex(), 'kind': 'synthetic'})
    return items, damaged, synth


# ---------------------------------------------------------------------------
# fresh-process references (one subprocess per item: only that message)
# ---------------------------------------------------------------------------
_REF = {}


def fresh_reference(item):
    if item['id'] in _REF:
        return _REF[item['id']]
    with tempfile.NamedTemporaryFile('w', suffix='.json', delete=False) as f:
        json.dump([{'id': item['id'], 'hex': item['hex']}], f)
        path = f.name
    env = dict(os.environ)
    env['PYTHONPATH'] = lib.REPO
    env['PYTHONHASHSEED'] = '0'
    env['PYTHONDONTWRITEBYTECODE'] = '1'
    try:
        p = subprocess.run([sys.executable, os.path.join(os.path.dirname(os.path.abspath(__file__)), 'c13_obs.py'), path],
                           stdout=subprocess.PIPE, stderr=subprocess.PIPE, text=True, timeout=300, env=env)
    finally:
        os.unlink(path)
    if p.returncode != 0:
        raise RuntimeError('reference process failed for %s: %s' % (item['id'], p.stderr[-400:]))
    r = json.loads(p.stdout)[item['id']]
    _REF[item['id']] = r
    return r


# ---------------------------------------------------------------------------
# one history, executed in its own process (the caches are process-global)
# ---------------------------------------------------------------------------
def gen_history(rng, item_ids, n_ops, limit, refs):
    ops = []
    for _ in range(n_ops):
        r = rng.random()
        it = rng.choice(item_ids)
        slot = rng.randrange(len(CACHE_MAXES))
        pairs = [(a, a[:-1] + 'b') for a in item_ids if a.startswith('r:') and a.endswith('-a') and a[:-1] + 'b' in item_ids]
        fams = {}
        for a in item_ids:
            if a.startswith('r:xver-') or a.startswith('r:xloc-') or a.startswith('r:xctr-') or a.startswith('r:xunb-'):
                fams.setdefault(a.rsplit('-', 1)[0], []).append(a)
        fams = [v for v in fams.values() if len(v) >= 2]
        if r < 0.10 and fams:
            # the same descriptor list under different table groups, on the SAME coder object (a compiled template
            # or any other per-coder cache keyed too coarsely would carry one group's widths into the other)
            a, b = rng.sample(rng.choice(fams), 2)
            same = rng.randrange(len(CACHE_MAXES))
            ops.append({'op': 'decode', 'item': a, 'slot': same})
            ops.append({'op': 'decode+observe', 'item': b, 'slot': same, 'seq': [rng.choice(['values', 'nested', 'flat'])]})
            ops.append({'op': 'encode', 'item': a, 'slot': same, 'eslot': same})
            ops.append({'op': 'encode', 'item': b, 'slot': same, 'eslot': same})
        elif r < 0.20 and pairs:
            # two messages of the SAME table group differing in one descriptor, back to back (either
            # order): what a shared cached descriptor object would leak from one into the other
            a, b = rng.choice(pairs)
            if rng.random() < 0.5:
                a, b = b, a
            ops.append({'op': 'decode', 'item': a, 'slot': slot})
            ops.append({'op': 'decode', 'item': b, 'slot': rng.randrange(len(CACHE_MAXES))})
            ops.append({'op': 'decode+observe', 'item': a, 'slot': rng.randrange(len(CACHE_MAXES)),
                        'seq': [rng.choice(['values', 'nested', 'query', 'flat'])]})
        elif r < 0.50:
            ops.append({'op': 'decode', 'item': it, 'slot': slot})
        elif r < 0.70:
            seq = [rng.choice(list(O.RENDER_KINDS) + ['query', 'values', 'wire']) for _ in range(rng.randrange(1, 5))]
            ops.append({'op': 'decode+observe', 'item': it, 'slot': slot, 'seq': seq})
        elif r < 0.82:
            ops.append({'op': 'encode', 'item': it, 'slot': slot, 'eslot': rng.randrange(len(CACHE_MAXES))})
        elif r < 0.88:
            ops.append({'op': 'info', 'item': it, 'slot': slot})
        elif r < 0.93:
            ops.append({'op': 'invalidate'})
        elif r < 0.97:
            ops.append({'op': 'limit', 'limit': rng.choice([1, 2, 3, limit, limit])})
        else:
            ops.append({'op': 'decode', 'item': it, 'slot': slot, 'twice': True})
    return ops


def run_history(args):
    """executed in a worker process: returns per-op records"""
    repo, limit, ops, items = args
    sys.path.insert(0, repo)
    import pybufrkit.tables as T
    from pybufrkit.decoder import Decoder
    from pybufrkit.encoder import Encoder
    T.TableGroupCacheManager.invalidate()
    T.MAXIMUM_NUMBER_OF_CACHED_TABLE_GROUPS = limit
    decs = [Decoder(compiled_template_cache_max=m) for m in CACHE_MAXES]
    encs = [Encoder(compiled_template_cache_max=m) for m in CACHE_MAXES]
    recs = []
    for op in ops:
        rec = {'obs': {}}
        try:
            if op['op'] == 'invalidate':
                T.TableGroupCacheManager.invalidate()
            elif op['op'] == 'limit':
                T.MAXIMUM_NUMBER_OF_CACHED_TABLE_GROUPS = op['limit']
            else:
                data = bytes.fromhex(items[op['item']]['hex'])
                dec = decs[op['slot']]
                if op['op'] == 'info':
                    m, e = O.decode(dec, data, info_only=True)
                    rec['obs']['info'] = e if e else 'ok'
                else:
                    m, e = O.decode(dec, data)
                    if op.get('twice') and not e:
                        m, e = O.decode(dec, data)
                    rec['obs']['decode'] = e if e else O.digest_decoded(m)
                    rec['tg_after_decode'] = O.tg_keys_now()
                    rec['ct_after_decode'] = O.ct_keys_of(dec)
                    if not e and op['op'] == 'decode+observe':
                        rec['obs']['seq'] = [O.observe_on(k, m, op.get('path')) for k in op['seq']]
                    if not e and op['op'] == 'encode':
                        enc = encs[op['eslot']]
                        dg, _ = O.encode(enc, m)
                        rec['obs']['encode'] = dg
                        rec['ect'] = O.ct_keys_of(enc)
        except BaseException as ex:      # noqa
            rec['crash'] = repr(ex)
        rec['tg'] = O.tg_keys_now()
        recs.append(rec)
    return recs


def model_lines(ops, limit0, refs):
    """replay of the same key sequence through the extracted cache model.  Returns the
    command lines and, per op, the indices of the output lines to compare."""
    lines = ['tg_reset']
    for s, m in enumerate(CACHE_MAXES):
        if m is not None:
            lines.append('ct_reset %d %d' % (s, m))
            lines.append('ct_reset %d %d' % (s + 5, m))
    limit = limit0
    marks = []
    for op in ops:
        mk = {}
        if op['op'] == 'invalidate':
            lines.append('tg_invalidate')
        elif op['op'] == 'limit':
            limit = op['limit']
        elif op['op'] == 'info':
            pass                                     # info-only decoding never asks for tables
        else:
            ref = refs[op['item']]
            for rep in range(2 if op.get('twice') and not ref['decode'].startswith('err') else 1):
                tk = (ref['tg_keys_after_decode'] or [None])[0]
                if tk is not None:
                    lines.append('tg_get %d %s' % (limit, tk))
                    if CACHE_MAXES[op['slot']] is not None:
                        ck = (ref['ct_keys_after_decode'] or ['!nocompile'])[0]
                        lines.append('ct_get %d %s' % (op['slot'], ck))
                        mk['ct'] = len(lines) - 1
            lines.append('tg_keys')
            mk['tg_after_decode'] = len(lines) - 1
            if op['op'] == 'encode' and not ref['decode'].startswith('err'):
                ek = ref.get('enc_tg_key') or (ref.get('enc_tg_keys_after') or [None])[0]
                if ek:
                    lines.append('tg_get %d %s' % (limit, ek))
                    if CACHE_MAXES[op['eslot']] is not None:
                        ck = (ref.get('enc_ct_keys') or ['!nocompile'])[0]
                        lines.append('ct_get %d %s' % (op['eslot'] + 5, ck))
                        mk['ect'] = len(lines) - 1
                elif ref.get('encode', '').startswith('err'):
                    # the encoder asked for tables that are not there: room is made first, nothing is added
                    lines.append('tg_get %d !absent-tables-of-%s' % (limit, op['item'].replace(' ', '_')))
        lines.append('tg_keys')
        mk['tg'] = len(lines) - 1
        marks.append(mk)
    return lines, marks


def keys_of(line):
    k = line.split('keys ', 1)[1] if 'keys ' in line else '?'
    return [] if k == '-' else k.split(',')


# ---------------------------------------------------------------------------
def run(ctx):
    ctx.rule = ('Histories: random interleavings of decode / decode-then-query-and-render (several observations on the SAME '
                'message object) / re-encode / info-only decode / TableGroupCacheManager.invalidate / change of '
                'MAXIMUM_NUMBER_OF_CACHED_TABLE_GROUPS, over a pool of real sample messages chosen to use as many table '
                'versions as possible, damaged variants (truncated, undefined descriptor, delayed replication at the end) and '
                'synthetic one-line messages over all bundled versions x local tables; Decoder/Encoder objects with '
                'compiled_template_cache_max in {None,0,1,2,5} shared across the history; table-group limit forced to 1, 2, 3 '
                'and the real 50; each history in its own process. EVERY observation (values, str of descriptors, bitmap '
                'links, four renderings, a query, re-encoded bytes, error class) must equal the observation of a FRESH '
                'subprocess that handled only that message. In parallel the same key sequence is replayed through the '
                'extracted Cache.v and the cache contents and order (table groups; compiled templates of the coder used) are '
                'compared after every operation. A case = one operation of one history; non-trivial = it decodes or encodes.')
    from pybufrkit import tables as T
    real_limit = T.MAXIMUM_NUMBER_OF_CACHED_TABLE_GROUPS
    items, damaged, synth = build_pool(ctx, ctx.n(14, 40), ctx.n(58, 110))
    pool = {it['id']: it for it in items + damaged + synth}
    # fresh references, in parallel
    with ThreadPoolExecutor(max_workers=12) as ex:
        list(ex.map(fresh_reference, pool.values()))
    refs = {k: _REF[k] for k in pool}
    tgkeys = {tuple(r['tg_keys_after_decode']) for r in refs.values()}
    ctx.extra['pool'] = {'real': len(items), 'damaged': len(damaged), 'synthetic': len(synth),
                         'distinct_table_group_keys': len({k for t in tgkeys for k in t})}
    for it in pool.values():
        r = refs[it['id']]
        ctx.dist['pool-%s-%s' % (it['kind'], 'fails' if r['decode'].startswith('err') else 'decodes')] += 1

    # histories
    rng = ctx.rng
    small_ids = [it['id'] for it in items + damaged] + [it['id'] for it in synth[:6]]
    all_ids = list(pool)
    plans = []
    if ctx.quick:
        plans = [(1, 40, small_ids), (2, 40, small_ids), (3, 40, small_ids), (real_limit, 90, [it['id'] for it in synth[:8]] + [it['id'] for it in damaged] + small_ids[:6])]
    else:
        for rep in range(6):
            for L in (1, 2, 3):
                plans.append((L, 150, small_ids if rep % 2 == 0 else all_ids))
        for rep in range(3):
            plans.append((real_limit, 260, all_ids))
    jobs = []
    for L, n, ids in plans:
        ops = gen_history(rng, ids, n, L, refs)
        if L == real_limit:
            # make sure the real limit is reached: every synthetic item once, first
            ops = [{'op': 'decode', 'item': it['id'], 'slot': rng.randrange(len(CACHE_MAXES))} for it in synth] + ops
        # several wiring observations on the SAME object of a compressed multi-subset message (one node tree shared by
        # all subsets: wiring it a second time must change nothing), and of an uncompressed one
        wired = [i for i in ids if i in ('r:open204-c', 'r:open201-c', 'r:open207-c', 'r:victim-c1', 'r:victim-c2', 'r:victim-c3',
                                         'r:bitmap', 'r:nest1-a')]
        for i in rng.sample(wired, min(3, len(wired))):
            seq = ['wire', rng.choice(['nested', 'nestedtext', 'query']), 'wire', rng.choice(['nested', 'nestedtext', 'query']), 'nested']
            ops.insert(rng.randrange(len(ops) + 1), {'op': 'decode+observe', 'item': i, 'slot': rng.randrange(len(CACHE_MAXES)), 'seq': seq})
        for nm in ('toprep-fixed', 'toprep-delayed', 'toprep-tail'):
            a, b2 = 'r:xunb-%s-a' % nm, 'r:xunb-%s-b' % nm
            if a in ids and b2 in ids and rng.random() < 0.7:
                if rng.random() < 0.5:
                    a, b2 = b2, a
                slot_ = rng.choice([i for i, m in enumerate(CACHE_MAXES) if m]) if any(CACHE_MAXES) else 0
                pos = rng.randrange(len(ops) + 1)
                ops[pos:pos] = [{'op': 'decode', 'item': a, 'slot': slot_},
                                {'op': 'decode+observe', 'item': b2, 'slot': slot_, 'seq': ['values', 'nested']},
                                {'op': 'encode', 'item': a, 'slot': slot_, 'eslot': slot_},
                                {'op': 'encode', 'item': b2, 'slot': slot_, 'eslot': slot_}]
        # the same list (plain and with a marker operator) under two master table versions that define its element
        # differently, through ONE coder in both orders, decoding and encoding: in every history
        for nm in ('xver-m14001', 'xver-m22039', rng.choice(['xver-14001', 'xver-1103', 'xver-15009', 'xver-22039'])):
            a, b2 = 'r:%s-v13' % nm, 'r:%s-v%d' % (nm, rng.choice([33, 19]))
            if a in ids and b2 in ids:
                if rng.random() < 0.5:
                    a, b2 = b2, a
                slot_ = rng.randrange(len(CACHE_MAXES))
                pos = rng.randrange(len(ops) + 1)
                ops[pos:pos] = [{'op': 'decode', 'item': a, 'slot': slot_},
                                {'op': 'decode+observe', 'item': b2, 'slot': slot_, 'seq': ['values', 'nested']},
                                {'op': 'decode+observe', 'item': a, 'slot': slot_, 'seq': ['values']},
                                {'op': 'encode', 'item': a, 'slot': slot_, 'eslot': slot_},
                                {'op': 'encode', 'item': b2, 'slot': slot_, 'eslot': slot_}]
        # a message naming tables that are not bundled: the decoder falls back, the encoder refuses; what the decoder found
        # out must not reach the encoder (decode, then encode the same message: as in a process that decoded nothing)
        for a in ['r:xunb-wmo-l%d' % rng.choice([4, 7])] + [i for i in ids if i.startswith('s:77-')][:1]:
            if a in ids:
                slot_ = rng.randrange(len(CACHE_MAXES))
                pos = rng.randrange(len(ops) + 1)
                ops[pos:pos] = [{'op': 'decode', 'item': a, 'slot': slot_}, {'op': 'encode', 'item': a, 'slot': slot_, 'eslot': slot_}]
        for nm in ('xunb-8201', 'xunb-1211'):
            a, b2 = 'r:%s-l%d' % (nm, rng.choice([4, 7])), 'r:%s-l%d' % (nm, rng.choice([1, 101]))
            if a in ids and b2 in ids:
                slot_ = rng.randrange(len(CACHE_MAXES))
                pos = rng.randrange(len(ops) + 1)
                ops[pos:pos] = [{'op': 'decode', 'item': a, 'slot': slot_},
                                {'op': 'decode+observe', 'item': b2, 'slot': rng.randrange(len(CACHE_MAXES)), 'seq': ['values', 'flat']}]
        for op in ops:
            if op['op'] == 'decode+observe':
                op['path'] = refs[op['item']].get('path', '001001')
        jobs.append((lib.REPO, L, ops, pool))
    with multiprocessing.get_context('fork').Pool(min(12, len(jobs))) as mp:
        results = mp.map(run_history, jobs)

    max_seen = 0
    for h, ((_, L, ops, _), recs) in enumerate(zip(jobs, results)):
        lines, marks = model_lines(ops, L, refs)
        mouts = lib.run_model(lines)
        limit = L
        for i, (op, rec, mk) in enumerate(zip(ops, recs, marks)):
            case = {'history': h, 'op_index': i, 'op': {k: v for k, v in op.items()}, 'limit0': L}
            ctx.count((h, i), nontrivial=op['op'] not in ('invalidate', 'limit', 'info'))
            ctx.dist['op-' + op['op']] += 1
            ctx.dist['limit-%d' % L] += 1
            if 'crash' in rec:
                ctx.violation(dict(case, kind='history-crash', error=rec['crash'], no_failing_input=True,
                                   broken='history worker raised outside an operation'))
                continue
            if op['op'] == 'limit':
                limit = op['limit']
            # --- the cache model ---------------------------------------------------
            m_tg = keys_of(mouts[mk['tg']])
            max_seen = max(max_seen, len(rec['tg']))
            ctx.compare(dict(case, what='table-group cache keys after the operation'), rec['tg'], m_tg,
                        kind='tg-cache-contents',
                        holds=lambda: len(rec['tg']) <= max(limit, 1) or op['op'] in ('limit', 'invalidate', 'info'))
            if 'tg_after_decode' in mk and 'tg_after_decode' in rec:
                ctx.compare(dict(case, what='table-group cache keys after the decode step'), rec['tg_after_decode'],
                            keys_of(mouts[mk['tg_after_decode']]), kind='tg-cache-contents', holds=lambda: True)
            if 'ct' in mk and rec.get('ct_after_decode') is not None:
                cm = CACHE_MAXES[op['slot']]
                ctx.compare(dict(case, what='compiled-template cache keys', cache_max=cm), rec['ct_after_decode'],
                            keys_of(mouts[mk['ct']]), kind='ct-cache-contents',
                            holds=lambda: len(rec['ct_after_decode']) <= max(cm, 0))
                ctx.dist['compiled-cache-max-%s' % cm] += 1
            if 'ect' in mk and rec.get('ect') is not None:
                cm = CACHE_MAXES[op['eslot']]
                ctx.compare(dict(case, what='encoder compiled-template cache keys', cache_max=cm), rec['ect'],
                            keys_of(mouts[mk['ect']]), kind='ct-cache-contents',
                            holds=lambda: len(rec['ect']) <= max(cm, 0))
            # --- every observation equals the fresh-process observation ------------
            if op['op'] in ('invalidate', 'limit'):
                continue
            ref = refs[op['item']]
            obs = rec['obs']
            for k, v in obs.items():
                if k == 'seq':
                    for kind, got in zip(op['seq'], v):
                        want = ref['decode'] if kind == 'values' else 'ok' if kind == 'wire' else ref.get(kind)
                        ctx.dist['obs-' + kind] += 1
                        if got != want:
                            ctx.violation(dict(case, kind='history-dependence', observation=kind, after=op['seq'],
                                               got=got, fresh=want, item=op['item']),
                                          '%s of %s differs from the fresh-process result after %s' % (kind, op['item'], op['seq']))
                else:
                    want = ref.get(k)
                    ctx.dist['obs-' + k] += 1
                    if v.startswith('err'):
                        ctx.dist['failing-operations'] += 1
                    if k == 'encode' and ref['decode'].startswith('err'):
                        continue
                    if v != want:
                        ctx.violation(dict(case, kind='history-dependence', observation=k, got=v, fresh=want,
                                           item=op['item']),
                                      '%s of %s: %s here, %s in a fresh process' % (k, op['item'], v, want))
        ctx.sample({'history': h, 'limit': L, 'ops': len(ops), 'first_ops': [o['op'] + ':' + o.get('item', '') for o in ops[:4]],
                    'final_keys_impl=model': recs[-1]['tg'][:4]}, limit=4)
    ctx.extra['max_cached_table_groups_seen'] = max_seen
    ctx.extra['real_limit'] = real_limit
    if max_seen < real_limit:
        ctx.violation({'kind': 'generator-defect', 'no_failing_input': True,
                       'broken': 'no history filled the table-group cache to the real limit (%d < %d)' % (max_seen, real_limit)})
    # extraction cross-check: a short history evaluated by vm_compute (keys as numbers)
    toks = sorted({l.split(' ')[2] for l in lines if l.startswith('tg_get')})
    num = {t: i + 1 for i, t in enumerate(toks)}
    tl = [l for l in lines if l.startswith('tg_get') or l == 'tg_invalidate'][:60]
    sub = ['tg_reset'] + [(('tg_get %s %s' % (l.split(' ')[1], l.split(' ')[2])) if l != 'tg_invalidate' else l) for l in tl] + ['tg_keys']
    mk = keys_of(lib.run_model(sub)[-1])
    ops_coq = ';'.join(('TGet %s %d' % (l.split(' ')[1], num[l.split(' ')[2]])) if l != 'tg_invalidate' else 'TInvalidate' for l in tl)
    # a key whose token starts with '!' stands for tables that cannot be loaded (the driver's load fails on it)
    failing = ';'.join(str(num[t]) for t in toks if t.startswith('!'))
    term = ('tg_keys nat nat unit (tg_run nat nat unit Nat.eqb (fun k _ => if existsb (Nat.eqb k) [%s] then Err EOther else Ok k) '
            '(fun a _ => a) [%s] (tg_init nat nat unit tt))' % (failing, ops_coq))
    n, err = lib.vm_cross_check('C13', 'From PBK Require Import Base Cache.', [(term, '[%s]' % ';'.join(str(num[k]) for k in mk))])
    ctx.extra['extraction_cross_check_vm_compute'] = n
    if err:
        ctx.violation({'kind': 'extraction-cross-check', 'error': err, 'no_failing_input': True,
                       'broken': 'OCaml extraction of Cache.v disagrees with vm_compute'})
    ctx.exhaustive = False
    ctx.assumptions = [
        'load and compile are deterministic functions of their key (and the extra entries): the table files do not change during a run',
        'no table-definition (NCEP) message is processed: add_extra_entries never happens in the histories (C20 covers it)',
        'the reference of an observation is computed in a fresh interpreter that decodes only that message (once per kind of observation)',
        'which table-group / compiled-template key an operation asks for is taken from the fresh-process reference of the item, '
        'not from instrumentation of pybufrkit',
    ]


def replay(ctx, rec):
    return {'note': 'histories replay with the recorded seed: VERIF_SEED=%s ./check C13 %s' % (rec.get('seed'), rec.get('tier'))}
