"""C16 — data queries return exactly the values the path designates."""
import glob
import os

import lib
import bufrlib as B
import pipeline as P
from props import C09

LEVEL = 'proof'


# --------------------------------------------------------------------------
# the implementation, with index-carrying values
# --------------------------------------------------------------------------
def prepare(b):
    """decode + wire; returns (msg, flat per subset, nested canonical dict per subset)"""
    from pybufrkit.decoder import Decoder
    from pybufrkit.renderer import NestedJsonRenderer
    m = Decoder().process(b, wire_template_data=False)
    td = m.template_data.value
    flat = [(list(map(str, ds)), list(vs), sorted(l.items()))
            for ds, vs, l in zip(td.decoded_descriptors_all_subsets, td.decoded_values_all_subsets,
                                 td.bitmap_links_all_subsets)]
    m.wire()
    td.decoded_values_all_subsets = [[C09.wrap(v, k) for k, v in enumerate(vs)] for vs in td.decoded_values_all_subsets]
    nested = NestedJsonRenderer().render(m)[-2][-1]['value']
    return m, flat, nested


def to_idx(x):
    if isinstance(x, list):
        return [to_idx(y) for y in x]
    return x.k


def impl_query(m, expr):
    from pybufrkit.dataquery import NodePathParser, DataQuerent
    try:
        with lib.time_limit(60):
            r = DataQuerent(NodePathParser()).query(m, expr)
        return ('ok', r.subset_indices(), [to_idx(v) for v in r.all_values()])
    except lib.CaseTimeout:
        raise
    except Exception as e:
        return ('err', lib.err_code(e))


# --------------------------------------------------------------------------
# reference evaluator over the nested JSON rendering (child and attribute steps)
# --------------------------------------------------------------------------
class RefError(Exception):
    pass


def apply_slice(ms, sl):
    if isinstance(sl, int):
        return [ms[sl]] if sl < len(ms) else []
    sel = ms[sl]
    order = {id(x): i for i, x in enumerate(ms)}
    return sorted(sel, key=lambda x: order[id(x)])


def ref_cont(sel, comps):
    if len(comps) > 1:
        out = []
        for n in sel:
            out += ref_step(n, comps[1:], False)
        return out
    for n in sel:
        if 'value' not in n:
            raise RefError('valueless')
    return [n['value'].k for n in sel]


def ref_step(node, comps, is_root):
    sep, id_, sl = comps[0]
    if sep == '/':
        if 'members' not in node:
            raise RefError('no members')
        if not is_root and node['id'].startswith('1'):
            reps = node['members']
            if not reps:
                return []
            pos = [i for i, n in enumerate(reps[0]) if n['id'] == id_]
            if isinstance(sl, int):
                pos = [pos[sl]] if sl < len(pos) else []
            else:
                pos = sorted(pos[sl])
            if not pos:
                return []
            env = []
            for rep in reps:
                r = ref_cont([rep[i] for i in pos], comps)
                if r:
                    env.append(r)
            return [env] if env else []
        ms = [n for n in node['members'] if n['id'] == id_]
        return ref_cont(apply_slice(ms, sl), comps)
    if sep == '.':
        if 'attributes' not in node and 'factor' not in node:
            raise RefError('no attributes')
        sel = []
        if 'factor' in node:
            sel += apply_slice([n for n in [node['factor']] if n['id'] == id_], sl)
        if 'attributes' in node:
            sel += apply_slice([n for n in node['attributes'] if n['id'] == id_], sl)
        return ref_cont(sel, comps)
    raise RefError('descendant')


def ref_eval(nested_subset, comps):
    try:
        return ('ok', ref_step({'members': nested_subset, 'id': 'ROOT'}, comps, True))
    except RefError:
        return ('err', 5)


# --------------------------------------------------------------------------
# path enumeration from the structure
# --------------------------------------------------------------------------
def slice_str(sl):
    if sl is None:
        return ''
    if isinstance(sl, int):
        return '[%d]' % sl
    f = lambda x: '' if x is None else str(x)
    return '[%s:%s%s]' % (f(sl.start), f(sl.stop), '' if sl.step is None else ':' + f(sl.step))


MULTI_SLICES = [slice(None, None, -1), slice(None, None, -2), slice(-1, None, -1), slice(-1, 0, -1), slice(1, None, -1),
                slice(-2, None, -1), slice(None, None, 2), slice(1, None), slice(None, -1), slice(None, None, 1)]


def rand_slice(rng, ntargets=1):
    if ntargets >= 2 and rng.random() < 0.6:
        # several same-id siblings: slices that select more than one, half of them backwards
        return rng.choice(MULTI_SLICES)
    k = rng.random()
    if k < 0.45:
        return None
    if k < 0.65:
        return rng.randrange(0, 3)
    if k < 0.75:
        return slice(-1, None)            # what [-1] parses to
    a = rng.choice([None, 0, 1, -1, -2])
    b = rng.choice([None, 1, 2, -1])
    c = rng.choice([None, None, 2, -1])
    return slice(a, b, c)


def to_py_slice(sl):
    return slice(None) if sl is None else sl


def enumerate_paths(rng, nested_subset, max_depth, budget):
    """(expr string, [(sep, id, pyslice)]) for paths that exist in the structure"""
    out = []

    def walk(node, prefix, comps, depth, is_root):
        if depth >= max_depth or len(out) >= budget:
            return
        steps = []
        if 'members' in node:
            mem = node['members']
            if not is_root and node['id'].startswith('1'):
                mem = mem[0] if mem else []
            ids = []
            for n in mem:
                if n['id'] not in ids:
                    ids.append(n['id'])
            steps += [('/', i, [n for n in mem if n['id'] == i]) for i in ids]
        if 'factor' in node:
            steps.append(('.', node['factor']['id'], [node['factor']]))
        for a in node.get('attributes', []):
            steps.append(('.', a['id'], [a]))
        rng.shuffle(steps)
        steps.sort(key=lambda st: -min(len(st[2]), 2))     # steps with several same-id siblings first (stable)
        for sep, i, targets in steps[:4]:
            sl = rand_slice(rng, len(targets))
            expr = prefix + sep + i + slice_str(sl)
            cs = comps + [(sep, i, to_py_slice(sl) if not isinstance(sl, int) else sl)]
            out.append((expr, cs))
            for t in targets[:2]:
                walk(t, expr, cs, depth + 1, False)
    walk({'members': nested_subset, 'id': 'ROOT'}, '', [], 0, True)
    return out


def all_ids(nested_subset):
    ids, attr_ids = [], set()

    def walk(nodes, as_attr):
        for n in nodes:
            if as_attr and n.get('virtual'):
                attr_ids.add(n['id'])
            if n['id'] not in ids:
                ids.append(n['id'])
            if 'members' in n:
                if n['id'].startswith('1'):
                    for rep in n['members']:
                        walk(rep, False)
                else:
                    walk(n['members'], False)
            if 'factor' in n:
                attr_ids.add(n['factor']['id'])      # reached through '.', like an attribute: not an ordinary element
                walk([n['factor']], False)
            walk(n.get('attributes', []), True)
    walk(nested_subset, False)
    return ids, attr_ids


def flatten(x):
    out = []
    for y in x:
        if isinstance(y, list):
            out += flatten(y)
        else:
            out.append(y)
    return out


# --------------------------------------------------------------------------
def model_lines(toks, flat, exprs, compressed, cmd='query'):
    lines, meta = [], []
    for si, (labels, vals, links) in enumerate(flat):
        if compressed and si > 0:
            break
        for e in exprs:
            lines.append(cmd + ' %s %s %s %s %s' % (
                ','.join(labels) or '-', ','.join(B.python_value_to_model(v) for v in vals) or '-',
                ','.join('%d>%d' % kv for kv in links) or '-', e.encode('latin-1').hex(), toks))
            meta.append((si, e))
    return lines, meta


def fmt(x):
    if isinstance(x, list):
        return '[' + ','.join(fmt(y) for y in x) + ']'
    return str(x)


def check_message(ctx, case, toks, b, tag, max_depth, budget):
    rng = ctx.rng
    try:
        with lib.time_limit(120):
            m, flat, nested = prepare(b)
    except Exception as e:
        ctx.dist['%s-not-wired-%d' % (tag, lib.err_code(e))] += 1
        return
    compressed = bool(m.is_compressed.value)
    nsub = len(flat)
    paths = enumerate_paths(rng, nested[0], max_depth, budget)
    if case.get('all_subsets') and not compressed:
        # the subsets' trees differ (attributes hang on different owners): paths that exist in ANY subset's tree
        seen = {e for e, _ in paths}
        for t in nested[1:]:
            for e, cs in enumerate_paths(rng, t, max_depth, budget):
                if e not in seen:
                    seen.add(e)
                    paths.append((e, cs))
    ids, attr_ids = all_ids(nested[0])
    desc = []
    for i in rng.sample(ids, min(len(ids), 4)):
        desc.append(('> ' + i if rng.random() < 0.5 else i, None, i))
    if len(ids) >= 2:
        a, bb = rng.sample(ids, 2)
        desc.append(('%s > %s%s' % (a, bb, slice_str(rand_slice(rng))), None, None))
    sel = rng.choice(['', '', '@[0]', '@[-1]', '@[::2]', '@[1:]', '@[%d]' % (nsub - 1)])
    if case.get('all_subsets'):
        sel = rng.choice(['', '', '@[::-1]', '@[0:]'])       # every subset selected: what one subset's tree gives must not leak
    # child/attribute paths that must fail: a zero slice step, a child step from a value node, an attribute step
    # from a node without attributes (the Python evaluator is not asked about the first: cs is None)
    bad = []
    for e, cs in paths[:6]:
        k = rng.random()
        if not e.endswith(']') and k < 0.4:
            bad.append((e + '[::0]', None))
        elif k < 0.7:
            bad.append((e + '/001001', cs + [('/', '001001', slice(None))]))
        else:
            bad.append((e + '.001001[0]', cs + [('.', '001001', 0)]))
    exprs = [(sel + e, cs, None) for e, cs in paths + bad] + [(sel + e, None, i) for e, _, i in desc]
    # slices whose start is negative while the stop is not (or the step is negative with a stop): resolved against ALL
    # matching siblings, not against those seen before the stop
    for e in case.get('extra_paths', []):
        exprs.append((sel + e, None, None))
    simple = set(e for e, _, _ in exprs)      # every path: the Coq reference covers descendant steps too (QueryRef.jdesc)
    lines, meta = model_lines(toks, flat, [e for e, _, _ in exprs], compressed)
    mouts = dict(zip(meta, lib.run_model_sharded(lines) if len(lines) > 3000 else lib.run_model(lines)))
    # the proved-equal Coq reference (QueryRef.eval_json over Nested.render_nodes) on the extracted model
    rlines, rmeta = model_lines(toks, flat, [e for e, _, _ in exprs if e in simple], compressed, cmd='queryref')
    routs = dict(zip(rmeta, lib.run_model_sharded(rlines) if len(rlines) > 3000 else lib.run_model(rlines)))
    subs_model = dict(zip([e for e, _, _ in exprs],
                          lib.run_model(['qsubsets %d %s' % (nsub, e.encode('latin-1').hex()) for e, _, _ in exprs])))
    for e, cs, bare in exprs:
        io = impl_query(m, e)
        ctx.count((case.get('seed', case.get('file')), e), True)
        ctx.dist['sep:' + ''.join(sorted(set(ch for ch in e if ch in '/.>')))] += 1
        if ':-1]' in e or ':-2]' in e:
            ctx.dist['negative-step-slice'] += 1
        rec = dict(kind='C16-query-mismatch', case=case, expr=e)
        # subsets selected
        sm = subs_model[e]
        if io[0] == 'ok':
            want = '-' if not io[1] else ','.join(map(str, io[1]))
            if sm != 'ok ' + want:
                ctx.compare(dict(case, expr=e), 'subsets ' + want, sm, kind='C16-subset-selector', holds=lambda: True)
            # per subset results: model
            for k, si in enumerate(io[1]):
                mo = mouts.get((0 if compressed else si, e))
                got = 'ok ' + fmt(io[2][k])
                if mo is None:
                    continue
                if mo != got:
                    ref_ok = True
                    if cs is not None:
                        ref_ok = ref_eval(nested[0 if compressed else si], cs) == ('ok', io[2][k])
                    ctx.compare(dict(case, expr=e, subset=si), got[:300], mo[:300], kind='C16-query-mismatch',
                                holds=lambda: ref_ok)
                elif cs is not None:
                    # the property's own reading: evaluation over the nested JSON rendering
                    r = ref_eval(nested[0 if compressed else si], cs)
                    if r != ('ok', io[2][k]):
                        ctx.violation(dict(kind='C16-reference-evaluation', case=case, expr=e, subset=si,
                                           impl=fmt(io[2][k])[:300], reference=repr(r)[:300]),
                                      'query %r: implementation %s, evaluation over nested JSON %r' % (e, fmt(io[2][k])[:80], r))
                ro = routs.get((0 if compressed else si, e))
                if ro is not None:
                    ctx.dist['coq-reference-compared' + ('-descendant' if '>' in e or bare is not None else '')] += 1
                    if ro != got:
                        ctx.compare(dict(case, expr=e, subset=si), got[:300], ro[:300], kind='C16-coq-reference',
                                    holds=lambda: cs is None or ref_eval(nested[0 if compressed else si], cs) == ('ok', io[2][k]))
                if bare is not None and bare not in attr_ids:
                    labels = flat[si][0]
                    want_idx = [j for j, l in enumerate(labels) if l == bare]
                    if flatten(io[2][k]) != want_idx:
                        ctx.violation(dict(kind='C16-bare-id', case=case, expr=e, subset=si, got=flatten(io[2][k])[:50], want=want_idx[:50]),
                                      'bare id %s does not return every value carrying it' % bare)
        else:
            # an error: same class in the model for every selected subset
            mo = mouts.get((0, e))
            if mo is not None and not mo.endswith('err %d' % io[1]):
                # the model reports per subset; an implementation error may come from a later subset
                others = [mouts.get((si, e)) for si in range(nsub)]
                if not any(o and o.endswith('err %d' % io[1]) for o in others):
                    ctx.compare(dict(case, expr=e), 'err %d' % io[1], mo[:200], kind='C16-query-error-class', holds=lambda: True)
            if e in simple:
                # the Coq reference answers with the same error class (for some selected subset)
                ctx.dist['coq-reference-error-compared:%d' % io[1]] += 1
                ros = [routs.get((si, e)) for si in range(nsub)]
                if not any(o and o.endswith('err %d' % io[1]) for o in ros):
                    ctx.compare(dict(case, expr=e), 'err %d' % io[1], str(ros[0])[:200], kind='C16-coq-reference-error-class',
                                holds=lambda: True)
    # the same queries on a message decoded through a compiled template
    if tag == 'generated' and rng.random() < 0.5:
        from pybufrkit.decoder import Decoder
        try:
            # (bounded: outside the premise of C08 a compiled program may read its replication factors out of step and
            # loop over data values; that is C08's subject, here such a message is only counted)
            with lib.time_limit(10):
                mc = Decoder(compiled_template_cache_max=2).process(b)
            tdc = mc.template_data.value
            tdc.decoded_values_all_subsets = [[C09.wrap(v, k) for k, v in enumerate(vs)] for vs in tdc.decoded_values_all_subsets]
            for e, _, _ in exprs[:8]:
                a, c2 = impl_query(m, e), impl_query(mc, e)
                ctx.count((case.get('seed'), 'compiled', e), True)
                if a != c2:
                    ctx.violation(dict(kind='C16-compiled-decode-differs', case=case, expr=e, plain=repr(a)[:200], compiled=repr(c2)[:200]),
                                  'query %r differs on a message decoded with template compilation' % e)
        except Exception as ex:
            ctx.dist['compiled-decode-error-%d' % lib.err_code(ex)] += 1
    ctx.sample({'case': case, 'exprs': [e for e, _, _ in exprs][:6]}, limit=3)


def run(ctx):
    ctx.rule = ('messages of C01/C07 (generated) and sample files x paths that exist in their structure (enumerated from the '
                'nested rendering to depth 4 quick / 6 thorough through sequences, fixed/delayed replications incl. zero-count, '
                'factors, attributes) with random int / negative / 3-part slices at every step x subset selectors x bare-id and '
                'descendant queries; the implementation runs with index-carrying values so results are compared as index '
                'structures with (1) the extracted model (Wire.wire + Query.process_one_subset), (2) an independent evaluator over '
                'the nested JSON rendering for child/attribute paths, (3) the flat data for bare ids, (4) the Coq reference '
                'QueryRef.eval_json over Nested.render_nodes (proved equal to the model: C16_query_eq_reference) run on the '
                'extracted model for every child/attribute path, error classes included; plus child/attribute paths built to '
                'fail (zero slice step, child step from a value node, attribute step from a node without attributes).')
    n = ctx.n(220, 3000)
    cases = P.build_cases(ctx, n, gen_kwargs=dict(size=5), nsub_choices=(1, 2, 3), compressed=(False, False, True),
                          versions=(33,), editions=(4,))
    # templates with several same-id siblings at top level, inside one repetition, and among attributes
    rng = ctx.rng
    for k in range(ctx.n(24, 200)):
        a, b2 = rng.sample([4004, 4005, 12001, 1001, 2001, 5002], 2)
        shape = k % 4
        if shape == 0:
            ids = [a, b2, a, a, b2, a]
        elif shape == 1:
            ids = [103000 + rng.choice([2, 3]), a, b2, a, a]
        elif shape == 2:
            ids = [a, 104000, 31001, a, a, b2, a]
        else:
            ids = [204008, 31021, a, a, 204000, a, b2, a]
        comp = rng.random() < 0.3
        cases.append({'ids': ids, 'version': 33, 'edition': 4, 'nsub': rng.choice([1, 2]), 'compressed': comp, 'forced': '-',
                      'seed': rng.randrange(1, 2 ** 32), 'maxrep': 3, 'features': {'repeated-siblings': 1}, 'shared': comp})
    for k in range(ctx.n(8, 60)):
        a, b2 = rng.sample([4004, 4005, 12001, 1001, 2001, 5002], 2)
        m = rng.choice([4, 5, 6])
        ids = [a] * m + [b2] if k % 2 == 0 else [100000 + (m + 1) * 1000 + 2] + [a] * m + [b2]
        pre = '/%06d' % a if k % 2 == 0 else '/%06d/%06d' % (ids[0], a)
        sl = ['[-2:%d]' % (m - 1), '[-2:%d]' % (m - 2), '[-3:2:1]', '[-1:2]', '[-%d:1]' % (m - 1), '[:0:-1]', '[%d:1:-1]' % (m - 1),
              '[-1:0:-2]', '[-2:]', '[:-2]']
        comp = rng.random() < 0.3
        cases.append({'ids': ids, 'version': 33, 'edition': 4, 'nsub': rng.choice([1, 2]), 'compressed': comp, 'forced': '-',
                      'seed': rng.randrange(1, 2 ** 32), 'maxrep': 3, 'features': {'many-siblings-mixed-sign-slices': 1},
                      'shared': comp, 'extra_paths': [pre + x for x in sl]})
    # a replication whose repetitions differ in what they contain: a nested delayed replication with count 0 in a middle
    # repetition and a non-zero count later (a repetition that yields nothing must not end the enclosing envelope)
    for k in range(ctx.n(16, 160)):
        a, b2, c3 = rng.sample([4004, 4005, 12001, 1001, 2001, 5002, 20011], 3)
        reps = rng.choice([3, 4])
        inner = [rng.choice([1, 2]) for _ in range(reps)]
        inner[rng.randrange(0, reps - 1)] = 0
        if k % 4 < 2:
            inner[0] = 0                       # ... and the FIRST repetition is empty in half of the cases, whatever the seed
        inner[-1] = rng.choice([1, 2])
        # (the outer replication owns FOUR descriptors: b2, 101000, 031001, c3)
        if k % 2:
            ids = [a, 104000 + reps, b2, 101000, 31001, c3]
            counts = inner
        else:
            ids = [a, 104000, 31001, b2, 101000, 31001, c3]
            counts = [reps] + inner
        cases.append({'ids': ids, 'version': 33, 'edition': 4, 'nsub': rng.choice([1, 2]), 'compressed': False,
                      'forced': '31001=' + '.'.join(map(str, counts)), 'seed': rng.randrange(1, 2 ** 32), 'maxrep': 3,
                      'features': {'empty-middle-repetition': 1}, 'shared': True,
                      'extra_paths': ['%06d' % c3, '/%06d/101000/%06d' % (ids[1], c3), '/%06d > %06d' % (ids[1], c3)]})
    # a delayed replication FACTOR that carries an attribute of its own (a bitmap whose zero bit selects the 031001):
    # a kept composite candidate of a descendant step that is not a match
    for k in range(ctx.n(12, 120)):
        a, b2 = rng.sample([4004, 12001, 1001, 2001, 5002, 10004], 2)
        cnt = rng.choice([0, 1, 2])
        op = rng.choice([222, 222, 223, 224])
        nel = 2 + cnt                                   # a, factor, b2 x cnt
        bits = [rng.randrange(2) for _ in range(nel)]
        bits[1] = 0
        zeros = bits.count(0)
        tail = [33007] * zeros if op == 222 else ([8023] if op == 224 else []) + [op * 1000 + 255] * zeros
        ids = [a, 101000, 31001, b2, op * 1000, 236000, 101000 + nel, 31031] + tail
        comp = rng.random() < 0.3
        cases.append({'ids': ids, 'version': 33, 'edition': 4, 'nsub': rng.choice([1, 2]), 'compressed': comp,
                      'forced': '31001=%d;31031=%s' % (cnt, '.'.join(map(str, bits))), 'seed': rng.randrange(1, 2 ** 32),
                      'maxrep': 3, 'features': {'factor-with-attribute': 1}, 'shared': True})
    # the same flat descriptor list in every subset, but a DIFFERENT bitmap per subset (uncompressed): attributes hang
    # on different owners from subset to subset
    for k in range(ctx.n(24, 300)):
        n = rng.choice([2, 3, 4])
        els = rng.sample([1001, 1002, 12001, 10004, 11001, 2001, 4004, 5002], n)
        zeros = rng.randint(1, n - 1)
        op = rng.choice([222, 223, 224])
        tail = [33007] * zeros if op == 222 else ([8023] if op == 224 else []) + [op * 1000 + 255] * zeros
        if k % 2:
            # every element also carries an associated field: an attribute step then never fails for lack of
            # attributes, it just finds no 033007 / marker on the elements the subset's bitmap leaves out
            ids = [204008, 31021] + els + [204000, op * 1000, 236000, 101000 + n, 31031] + tail
        else:
            ids = els + [op * 1000, 236000, 101000 + n, 31031] + tail
        nsub = rng.choice([2, 3])
        bits = [0] * zeros + [1] * (n - zeros)
        variants = []
        for j in range(nsub):
            b = bits[:]
            rng.shuffle(b)
            variants.append('31031=' + '.'.join(map(str, b)))
        cases.append({'ids': ids, 'version': 33, 'edition': 4, 'nsub': nsub, 'compressed': False, 'forced': '||'.join(variants),
                      'seed': rng.randrange(1, 2 ** 32), 'maxrep': 3, 'features': {'same-labels-different-bitmaps': 1},
                      'shared': False})
    P.attach_templates(cases)
    P.run_gen(cases)
    P.run_encode(cases)
    for c in cases:
        e = c.get('impl_enc')
        if not e or e[0] != 'ok':
            continue
        case = {'ids': c['ids'], 'seed': c['seed'], 'forced': c['forced'], 'nsub': c['nsub'], 'version': c['version'],
                'edition': c['edition'], 'compressed': c['compressed']}
        if '||' in c['forced']:
            case['all_subsets'] = True
        if c.get('extra_paths'):
            case['extra_paths'] = c['extra_paths']
        for f in c['features']:
            ctx.dist[f] += 1
        check_message(ctx, case, c['toks'], e[3], 'generated', ctx.n(4, 6), ctx.n(14, 40))
    # a hand-written stratum none of whose cases reached the comparison is a dead stratum: say so
    for f in ('repeated-siblings', 'many-siblings-mixed-sign-slices', 'empty-middle-repetition', 'factor-with-attribute',
              'same-labels-different-bitmaps'):
        if any(f in c['features'] for c in cases) and not ctx.dist[f]:
            ctx.violation({'kind': 'harness-generator', 'no_failing_input': True,
                           'broken': 'stratum %s: no case could be built and encoded' % f})
    files = sorted(glob.glob(os.path.join(lib.REPO, 'tests', 'data', '*.bufr')))
    if not ctx.quick:
        files += sorted(glob.glob(os.path.join(lib.REPO, 'tests', 'benchmark_data', '*.bufr')))
    else:
        files = [f for f in files if os.path.getsize(f) < 6000][:6]
    from pybufrkit.decoder import Decoder
    for f in files:
        b = open(f, 'rb').read()
        try:
            m = Decoder().process(b, wire_template_data=False)
            toks = B.template_tokens(m.template_data.value.template)
        except Exception as e:
            continue
        ctx.dist['corpus-files'] += 1
        check_message(ctx, {'file': os.path.basename(f)}, toks, b, os.path.basename(f), ctx.n(4, 6), ctx.n(8, 30))
    ctx.partial = []
    ctx.assumptions = ['paths with a descendant (>) step: proved over a saturated rendering (executable hypothesis, checked by the '
                       'driver on every case: it answers "unsaturated" otherwise) with a fuel bound in the nesting depth of the rendering',
                       'the Coq reference eval_json reads the rendering Nested.render_nodes, whose agreement with NestedJsonRenderer is '
                       "C09's correspondence; here it is additionally compared with the implementation's answers directly"]


def replay(ctx, rec):
    return {'expr': rec.get('expr'), 'case': rec.get('case')}
