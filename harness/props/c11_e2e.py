"""End-to-end tie for C11 / C12 (theorems C11_e2e_*, C12_e2e_* over StreamFrame.v).

The other C11 cases drive the extracted scanner with per-offset OBSERVATIONS of the
real decoder.  Here nothing is observed: the extracted StreamFrame.frame_generate —
the scanner of Stream.v composed with the framing decoder of Frame.v (template
decoder: the 031031 stub of drv_frame.ml) — runs on the raw stream and must yield
what generate_bufr_message yields.  This ties the instantiation the end-to-end
theorems are about (msginfo_of: len(serialized_bytes), length.value,
data_category, n_subsets; the hook condition; the filter on the metadata-only
message) to the implementation.

Streams: 0..5 messages of N x 031031 made by the implementation's Encoder
(editions 2-4, section 2 present or not, data category 0..5, never 11), separators
without b'BUFR' (incl. partial signatures), optional trailing noise; optionally
damaged messages: stop signature overwritten, section 4 length decreased below its
content ('len4dec'), an undefined descriptor substituted in section 3 ('desc') (the damages the theorems cover: the predicate is evaluated), section 1/4 length -k/+k (tie only; a changed section-3
length makes the unary-number extracted decoder crawl over a garbage 24-bit length and is
left to the observation-driven C12 cases).
Modes: info_only x continue_on_error x {no filter, '${%data_category} == k'}.
"""
import random

import lib
from props import frame_common as fc

CAT_INDEX = {2: 6, 3: 7, 4: 7}


def make_message(rng):
    ed = rng.choice((2, 3, 4, 4))
    sec2 = rng.choice([None, None, '', '10110', '1011000111110000'])
    n = rng.choice([0, 1, 2, 7, 8, 9, 16, rng.randrange(0, 40)])
    bits = ''.join(rng.choice('01') for _ in range(n))
    msg = fc.build_json(ed, bits, sec2, {}, rng=random.Random(rng.randrange(1 << 30)))
    cat = rng.randrange(0, 6)
    msg[1][CAT_INDEX[ed]] = cat
    io, obj = fc.impl_encode(msg, True)
    if obj is None:
        return None
    b = bytes(obj.serialized_bytes)
    lens = fc.exact_lengths(ed, n, sec2)
    offs, pos = {}, 8
    for k in (1, 2, 3, 4):
        if k in lens:
            offs[k] = pos
            pos += lens[k]
    if pos + 4 != len(b):
        raise RuntimeError('e2e generator: section arithmetic does not match the encoder (%d + 4 != %d)' % (pos, len(b)))
    return {'bytes': b, 'edition': ed, 'cat': cat, 'sec2': sec2, 'n': n, 'offs': offs, 'lens': lens}


def separator(rng):
    r = rng.random()
    if r < 0.2:
        return b''
    if r < 0.4:
        return b'\r\r\n' + bytes(rng.choice(b'0123456789 ABCDEFKWX') for _ in range(rng.randrange(4, 18))) + b'\r\r\n'
    if r < 0.6:
        return rng.choice([b'B', b'BU', b'BUF', b'xxBUF', b'7777', b'BUFBUF', b'RBUF'])
    s = bytes(rng.choice(b'BUFR7\x00\xff') for _ in range(rng.randrange(1, 12)))
    return s.replace(b'BUFR', b'BUF_')


def damage(rng, d, kind):
    b = bytearray(d['bytes'])
    if kind == 'stop':
        x4 = rng.choice([b'7778', b'\x00\x00\x00\x00', b'777', b'BUF7', bytes(rng.randrange(256) for _ in range(4))])
        x4 = (x4 + b'\x00\x00\x00\x00')[:4]
        if x4 == b'7777':
            x4 = b'7787'
        b[-4:] = x4
        return bytes(b)
    if kind == 'desc':
        # the damage of C12_e2e_refused_hyps: an undefined element / sequence descriptor in section 3
        off = d['offs'][3] + 7 + 2 * rng.randrange(d['n'])
        b[off:off + 2] = rng.choice([b'\x3f\xff', b'\xff\xff'])       # 063255 / 363255
        return bytes(b)
    if kind == 'len4dec':
        # the damage of C12_damaged_section4_length: 4 <= v <= sl and 8 v < 32 + data bits
        off = d['offs'][4]
        hi = min(d['lens'][4], (32 + d['n'] - 1) // 8)
        b[off:off + 3] = rng.randrange(4, hi + 1).to_bytes(3, 'big')
        return bytes(b)
    sec = {'len1': 1, 'len4': 4}[kind]
    off = d['offs'][sec]
    cur = int.from_bytes(b[off:off + 3], 'big')
    delta = rng.choice([-1, -2, -3, 1, 2])
    b[off:off + 3] = max(cur + delta, 0).to_bytes(3, 'big')
    return bytes(b)


def make_cases(rng, n_streams, with_damage):
    cases = []
    for si in range(n_streams):
        k = rng.choice([0, 1, 2, 2, 3, 3, 4, 5])
        msgs = [m for m in (make_message(rng) for _ in range(k)) if m is not None]
        items = []
        for d in msgs:
            kind = None
            if with_damage and rng.random() < 0.45:
                kind = rng.choice(['stop', 'stop', 'stop', 'len4dec', 'len4dec', 'desc', 'desc', 'len4', 'len1'])
                if kind in ('len4dec', 'desc') and d['n'] == 0:
                    kind = 'stop'             # an empty data section cannot be overrun; no descriptor to replace
            items.append((d, kind, damage(rng, d, kind) if kind else d['bytes'], separator(rng)))
        lead = separator(rng)
        stream = lead + b''.join(b + sp for (_, _, b, sp) in items)
        if rng.random() < 0.3:
            stream += bytes(rng.choice(b'BUF7\x00x') for _ in range(rng.randrange(1, 6))).replace(b'BUFR', b'BUF_')
        kinds = sorted(set(kd for (_, kd, _, _) in items if kd))
        only_stop = all(kd in (None, 'stop', 'len4dec', 'desc') for (_, kd, _, _) in items)
        modes = [(False, False, None), (True, False, None), (False, True, None)]
        fcat = rng.randrange(0, 6)
        modes.append((rng.random() < 0.5, rng.random() < 0.5, fcat))
        if with_damage:
            modes.append((True, True, None))
        for info, coe, flt in modes:
            expect = None
            if only_stop and flt is None:
                pieces = [b for (_, _, b, _) in items]
                good = [kd is None for (_, kd, _, _) in items]
                if info:
                    expect = (pieces, None)                       # section 5 is never read
                elif coe:
                    expect = ([p for p, g in zip(pieces, good) if g], None)
                else:
                    upto = good.index(False) if False in good else len(good)
                    # PyBufrKitError (6), resp. UnknownDescriptor (2) for a refused descriptor list
                    expect = (pieces[:upto], None if upto == len(good) else (2 if items[upto][1] == 'desc' else 6))
            elif not kinds and flt is not None:
                expect = ([b for (d, _, b, _) in items if d['cat'] == flt], None)
            cases.append({'stream': stream, 'info': info, 'coe': coe, 'flt': flt, 'expect': expect,
                          'n_msgs': len(items), 'kinds': kinds,
                          'editions': sorted(set(d['edition'] for (d, _, _, _) in items)),
                          'sec2': any(d['sec2'] is not None for (d, _, _, _) in items)})
    return cases


def run_model_parallel(lines, shards=8):
    """lib.run_model over a few processes (the extracted decoder works on unary lengths), order preserved."""
    if len(lines) < 4 * shards:
        return lib.run_model(lines)
    from concurrent.futures import ThreadPoolExecutor
    n = (len(lines) + shards - 1) // shards
    parts = [lines[i:i + n] for i in range(0, len(lines), n)]
    with ThreadPoolExecutor(max_workers=shards) as ex:
        outs = list(ex.map(lib.run_model, parts))
    return [o for part in outs for o in part]


def run_cases(ctx, cases, kind):
    from props import C11 as S
    lines = ['fgen %d %d %s %s' % (c['info'], c['coe'], '-' if c['flt'] is None else c['flt'], c['stream'].hex() or '-')
             for c in cases]
    mouts = run_model_parallel(lines)
    results = []
    for c, line, mo in zip(cases, lines, mouts):
        results.append((c, mo))
        fexpr = None if c['flt'] is None else '${%%data_category} == %d' % c['flt']
        pieces, err = S.impl_run(c['stream'], c['info'], c['coe'], fexpr, seconds=60)
        io_ = S.fmt_outcome(pieces, err)
        ctx.count(('e2e', c['stream'], c['info'], c['coe'], c['flt']), c['n_msgs'] > 0)
        ctx.dist['e2e:mode:%s%s%s' % ('info' if c['info'] else 'full', '+coe' if c['coe'] else '',
                                      '+filter' if c['flt'] is not None else '')] += 1
        ctx.dist['e2e:n_messages:%d' % c['n_msgs']] += 1
        for kd in c['kinds']:
            ctx.dist['e2e:damage:' + kd] += 1
        for ed in c['editions']:
            ctx.dist['e2e:edition-%d' % ed] += 1
        if c['sec2']:
            ctx.dist['e2e:section2-present'] += 1
        ctx.dist['e2e:predicate-' + ('evaluated' if c['expect'] is not None else 'not-applicable')] += 1

        def holds(c=c, pieces=pieces, err=err):
            if c['expect'] is None:
                return True
            return pieces == c['expect'][0] and err == c['expect'][1]

        rec = {'name': 'e2e', 'stream_hex': c['stream'].hex(), 'info_only': c['info'], 'continue_on_error': c['coe'],
               'filter_category': c['flt'], 'damage': c['kinds'], 'n_messages': c['n_msgs']}
        ok = ctx.compare(rec, io_, mo, kind=kind, holds=holds,
                         extra={'theorems': 'C11_e2e_scan_exact/_filter, C12_e2e_continue_skips_damaged/_stops_at_damaged/'
                                            '_info_mode_ignores_stop_signature are about StreamFrame.frame_generate; this is its tie'})
        if ok and not holds():
            ctx.violation({'kind': kind + '-predicate', 'case': rec, 'impl': io_[:300],
                           'expected_n': len(c['expect'][0]), 'expected_end': c['expect'][1]},
                          'end-to-end prediction fails on the implementation: %d pieces, end %r expected; got %s'
                          % (len(c['expect'][0]), c['expect'][1], io_[:80]))
    return results


def cross_check(ctx, results, limit, tag):
    """Extraction + driver cross-check: the OCaml fgen (with the hand-written stub decoder of drv_frame.ml) against
    vm_compute of StreamFrame.frame_generate with FramePrefix.stub_dd (the decoder of the *_stub theorems)."""
    from props import C11 as S
    items = []
    for c, mo in results:
        if len(items) >= limit:
            break
        if len(c['stream']) > 220 or c['n_msgs'] == 0 or not mo.startswith('n='):
            continue
        if c['flt'] is None:
            filt, fl = '(fun _ => Err EOther)', 'false'
        else:
            filt = '(fun mi => match mi_meta mi with dc :: _ => Ok (N.eqb dc %d) | [] => Err EAttr end)' % c['flt']
            fl = 'true'
        term = 'frame_generate stub_dd (fun _ => []) (fun _ => Err EOther) %s %s %s %s %s' % (
            filt, str(bool(c['info'])).lower(), str(bool(c['coe'])).lower(), fl, S.coq_bytes(c['stream']))
        head, _, ending = mo.partition(' end ')
        _, _, plist = head.partition(' ')
        pieces = [] if plist == '_' else [bytes.fromhex('' if h == '-' else h) for h in plist.split(',')]
        exp_end = 'None' if ending == 'none' else 'Some %s' % S.COQ_ERR[int(ending.split()[1])]
        items.append((term, '([%s], %s)' % (';'.join(S.coq_bytes(p) if p else '[]' for p in pieces), exp_end)))
    n, err = lib.vm_cross_check('C11e2e' + tag, 'From PBK Require Import Base Bits Frame FramePrefix Stream StreamFrame.', items)
    ctx.extra['e2e_extraction_cross_check_vm_compute' + tag] = n
    if err:
        ctx.violation({'kind': 'extraction-cross-check', 'error': err, 'no_failing_input': True,
                       'broken': 'OCaml fgen (extracted StreamFrame.frame_generate + the driver stub decoder) disagrees with '
                                 'vm_compute of frame_generate stub_dd'})


def run(ctx, damaged):
    """damaged=False: C11 (clean streams, filter); damaged=True: C12."""
    rng = random.Random(ctx.rng.randrange(1 << 30))
    from props import C11 as S
    with S.quiet():
        cases = make_cases(rng, ctx.n(80, 600), damaged)
    results = run_cases(ctx, cases, 'C12-e2e-stream' if damaged else 'stream-e2e')
    cross_check(ctx, results, ctx.n(6, 30), '_damaged' if damaged else '')
    need = ['e2e:mode:full', 'e2e:mode:info', 'e2e:predicate-evaluated', '+filter'] + (['e2e:damage:stop', 'e2e:damage:len4dec', 'e2e:damage:desc'] if damaged else [])
    for k in need:
        if not any(x.startswith('e2e:') and k in x and v > 0 for x, v in ctx.dist.items()):
            raise RuntimeError('e2e generator never produced %r: harness defect' % k)
