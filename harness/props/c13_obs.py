"""c13_obs.py — observations of one message, shared by the history workers and the
fresh-process reference of the C13 check.

As a script:  python c13_obs.py <spec.json>   (PYTHONPATH = the repo under test)
decodes ONLY the message(s) of the spec in a fresh interpreter and prints the
observations as JSON."""
import hashlib
import json
import logging
import sys

logging.disable(logging.WARNING)

ERR_CODES = {
    'BitReadError': 1, 'UnknownDescriptor': 2, 'PathExprParsingError': 3,
    'MetadataExprParsingError': 4, 'QueryError': 5, 'PyBufrKitError': 6,
    'AssertionError': 7, 'ValueError': 8, 'IndexError': 9, 'KeyError': 10,
    'TypeError': 11, 'AttributeError': 12, 'StopIteration': 13,
    'NotImplementedError': 14,
}

RENDER_KINDS = ('nested', 'flat', 'flattext', 'nestedtext')


def err_code(exc):
    for cls in type(exc).__mro__:
        if cls.__name__ in ERR_CODES:
            return ERR_CODES[cls.__name__]
    return 15


def md5(s):
    if isinstance(s, str):
        s = s.encode('utf-8', 'surrogateescape')
    return hashlib.md5(s).hexdigest()[:16]


def mk_message(ids, nbytes_data=64, mtv=33, centre=0, subcentre=0, ltv=0, nsub=1, pattern=False, compressed=False):
    """edition-4 message, uncompressed; data section all zero, or a fixed byte pattern
    (so that decoded values depend on the field widths in force)"""
    sec1 = (22).to_bytes(3, 'big') + bytes([0]) + centre.to_bytes(2, 'big') + subcentre.to_bytes(2, 'big') + \
        bytes([0, 0, 0, 0, 0, mtv, ltv]) + (2020).to_bytes(2, 'big') + bytes([1, 1, 0, 0, 0])
    body3 = bytes([0]) + nsub.to_bytes(2, 'big') + bytes([0xC0 if compressed else 0x80]) + b''.join(
        (((i // 100000) << 14) | ((i // 1000 % 100) << 8) | (i % 1000)).to_bytes(2, 'big') for i in ids)
    sec3 = (len(body3) + 3).to_bytes(3, 'big') + body3
    body4 = bytes([0]) + (bytes((i * 37 + 11) % 256 for i in range(nbytes_data)) if pattern else bytes(nbytes_data))
    sec4 = (len(body4) + 3).to_bytes(3, 'big') + body4
    total = 8 + len(sec1) + len(sec3) + len(sec4) + 4
    return b'BUFR' + total.to_bytes(3, 'big') + bytes([4]) + sec1 + sec3 + sec4 + b'7777'


def tg_token(key):
    if key is None:
        return None
    return '%s|%s' % ('/'.join(key.wmo_tables_sn), '/'.join(key.local_tables_sn) if key.local_tables_sn else 'None')


def ct_token(key):
    try:
        ids, tgk = key
        return 'T' + md5(repr((tuple(ids), tg_token(tgk))))
    except Exception:
        # not the (descriptor ids, table group key) pair the model expects
        return 'X' + md5(repr(key))


def tg_keys_now():
    from pybufrkit.tables import TableGroupCacheManager
    return [tg_token(k) for k in TableGroupCacheManager._TABLE_GROUP_CACHE._groups.keys()]


def ct_keys_of(coder):
    m = getattr(coder, 'compiled_template_manager', None)
    if not m:
        return None
    return [ct_token(k) for k in m.cache.keys()]


def digest_decoded(msg):
    td = msg.template_data.value
    vals = repr(td.decoded_values_all_subsets)
    descs = repr([[str(d) for d in ds] for ds in td.decoded_descriptors_all_subsets])
    links = repr([sorted((k, v) for k, v in l.items()) for l in td.bitmap_links_all_subsets])
    return 'v' + md5(vals) + ' d' + md5(descs) + ' l' + md5(links)


def render(kind, msg):
    from pybufrkit import renderer as R
    cls = {'nested': R.NestedJsonRenderer, 'flat': R.FlatJsonRenderer, 'flattext': R.FlatTextRenderer,
           'nestedtext': R.NestedTextRenderer}[kind]
    out = cls().render(msg)
    if not isinstance(out, str):
        out = json.dumps(out, sort_keys=True, default=repr)
    return md5(out)


def query(msg, path):
    from pybufrkit.dataquery import NodePathParser, DataQuerent
    r = DataQuerent(NodePathParser()).query(msg, path)
    return md5(repr(r.all_values()))


def observe_on(kind, msg, path=None):
    """one observation on an already decoded message object"""
    try:
        if kind in RENDER_KINDS:
            return render(kind, msg)
        if kind == 'query':
            return query(msg, path)
        if kind == 'values':
            return digest_decoded(msg)
        if kind == 'wire':
            # BufrMessage.wire() once more on an already wired message (as `decode -a` does after a decode that wired):
            # guarded by the wire-once flag, it must change nothing that is observed afterwards
            msg.wire()
            return 'ok'
    except Exception as e:
        return 'err %d' % err_code(e)
    raise ValueError(kind)


def decode(decoder, data, info_only=False):
    try:
        return decoder.process(data, info_only=info_only), None
    except Exception as e:
        return None, 'err %d' % err_code(e)


def _bytes_as_latin1(o):
    if isinstance(o, bytes):
        return o.decode('latin-1')
    raise TypeError(repr(o))


def flat_json_text(msg):
    """the flat JSON text of a decoded message (bytes as latin-1 text, as the command line writes them)"""
    from pybufrkit.renderer import FlatJsonRenderer
    return json.dumps(FlatJsonRenderer().render(msg), default=_bytes_as_latin1)


def encode(encoder, msg):
    """re-encode a decoded message through its flat JSON form"""
    try:
        js = flat_json_text(msg)
        out = encoder.process(js)
        return md5(out.serialized_bytes), out
    except Exception as e:
        return 'err %d' % err_code(e), None


def first_path(msg):
    """a bare-id query path: the first element descriptor of the first subset"""
    from pybufrkit.descriptors import ElementDescriptor
    try:
        for d in msg.template_data.value.decoded_descriptors_all_subsets[0]:
            if type(d) is ElementDescriptor:
                return '%06d' % d.id
    except Exception:
        pass
    return '001001'


def in_child(fn):
    """run fn() in a forked child of this (so far idle) interpreter: a process that has
    processed NOTHING before; returns its JSON result"""
    import os
    r, w = os.pipe()
    pid = os.fork()
    if pid == 0:
        try:
            os.close(r)
            try:
                res = fn()
            except BaseException as e:      # noqa
                res = {'crash': repr(e)}
            os.write(w, json.dumps(res).encode())
        finally:
            os._exit(0)
    os.close(w)
    buf = b''
    while True:
        chunk = os.read(r, 65536)
        if not chunk:
            break
        buf += chunk
    os.close(r)
    os.waitpid(pid, 0)
    return json.loads(buf.decode() or '{"crash": "no output"}')


def reference(item):
    """all observations of one item; EACH observation in its own fresh process (fork of an
    interpreter that has only imported pybufrkit), so no reference depends on an earlier one"""
    from pybufrkit.decoder import Decoder
    from pybufrkit.encoder import Encoder
    import pybufrkit.renderer, pybufrkit.dataquery, pybufrkit.tables   # noqa: imported, nothing processed
    data = bytes.fromhex(item['hex'])

    def first():
        out = {}
        dec = Decoder(compiled_template_cache_max=5)
        msg, err = decode(dec, data)
        out['tg_keys_after_decode'] = tg_keys_now()
        out['ct_keys_after_decode'] = ct_keys_of(dec)
        out['decode'] = err if err else digest_decoded(msg)
        if not err:
            out['path'] = first_path(msg)
        return out

    def info():
        msg_i, err_i = decode(Decoder(), data, info_only=True)
        return {'info': err_i if err_i else 'ok', 'tg_keys_after_info': tg_keys_now()}

    out = in_child(first)
    out.update(in_child(info))
    if out['decode'].startswith('err'):
        return out

    def kind_fn(kind):
        def f():
            m2, e2 = decode(Decoder(), data)
            return {kind: e2 if e2 else observe_on(kind, m2, out['path'])}
        return f
    for kind in RENDER_KINDS + ('query',):
        out.update(in_child(kind_fn(kind)))

    def flat_js():
        m3, e3 = decode(Decoder(), data)
        return {'js': flat_json_text(m3)}
    js = in_child(flat_js).get('js')

    def enc():
        # the encoder's reference: a process that has DECODED nothing (the flat JSON text comes from another process)
        res = {}
        e = Encoder(compiled_template_cache_max=5)
        try:
            emsg = e.process(js)
            dg = md5(emsg.serialized_bytes)
        except Exception as ex:
            dg, emsg = 'err %d' % err_code(ex), None
        res['encode'] = dg
        # what the attempt left in the (so far empty) table-group cache: nothing when the tables could not be loaded
        res['enc_tg_keys_after'] = tg_keys_now()
        res['enc_ct_keys'] = ct_keys_of(e)
        if emsg is not None:
            res['enc_tg_key'] = tg_token(emsg.table_group_key)
        return res
    out.update(in_child(enc))
    return out


if __name__ == '__main__':
    spec = json.load(open(sys.argv[1]))
    print(json.dumps({item['id']: reference(item) for item in spec}))
