"""C09 — all four output formats carry the same data and convert back to it."""
import glob
import json
import os

import lib
import bufrlib as B
import pipeline as P

LEVEL = 'proof'


# -- index-carrying wrappers: rendering with these shows WHICH flat index lands where
class IInt(int):
    pass


class IFloat(float):
    pass


class IBytes(bytes):
    pass


class INone(object):
    def __repr__(self):
        return 'None'


def wrap(v, k):
    if v is None:
        w = INone()
    elif isinstance(v, bool) or isinstance(v, int):
        w = IInt(v)
    elif isinstance(v, float):
        w = IFloat(v)
    elif isinstance(v, bytes):
        w = IBytes(v)
    else:
        raise ValueError(repr(v))
    w.k = k
    return w


def canon_value(n):
    s = '%s=%d' % (n['id'], n['value'].k)
    if n.get('virtual'):
        s += '*'
    if 'attributes' in n:
        s += '{' + ','.join(canon_value(a) for a in n['attributes']) + '}'
    return s


def canon_nodes(nodes):
    out = []
    for n in nodes:
        if 'value' in n:
            out.append(canon_value(n))
        elif 'members' in n:
            if n['id'].startswith('1'):
                s = 'R' + n['id']
                if 'factor' in n:
                    s += 'F' + canon_value(n['factor'])
                s += '(' + '|'.join(canon_nodes(rep) for rep in n['members']) + ')'
                out.append(s)
            else:
                out.append('S' + n['id'] + '(' + canon_nodes(n['members']) + ')')
        else:
            out.append('N' + n['id'])
    return ','.join(out)


def impl_views(b):
    """Decode + wire with the implementation; returns per subset (labels, values, links) and
    the canonical nested structure, or the error class of wiring."""
    from pybufrkit.decoder import Decoder
    from pybufrkit.renderer import NestedJsonRenderer
    m = Decoder().process(b, wire_template_data=False)
    td = m.template_data.value
    flat = [(list(map(str, ds)), list(vs), sorted(l.items()))
            for ds, vs, l in zip(td.decoded_descriptors_all_subsets, td.decoded_values_all_subsets,
                                 td.bitmap_links_all_subsets)]
    try:
        m.wire()
    except Exception as e:
        return m, flat, ('err', lib.err_code(e))
    # swap in index-carrying values and render
    orig = td.decoded_values_all_subsets
    td.decoded_values_all_subsets = [[wrap(v, k) for k, v in enumerate(vs)] for vs in orig]
    try:
        r = NestedJsonRenderer().render(m)
        nested = r[-2][-1]['value']
        canon = [canon_nodes(sub) for sub in nested]
        res = ('ok', canon)
    except Exception as e:
        res = ('err', lib.err_code(e))
    finally:
        td.decoded_values_all_subsets = orig
    return m, flat, res


def converters_agree(m):
    """The property's own predicate on the implementation: every rendering converts
    back to the flat JSON."""
    from pybufrkit.renderer import FlatJsonRenderer, NestedJsonRenderer, FlatTextRenderer, NestedTextRenderer
    from pybufrkit.utils import (nested_json_to_flat_json, flat_text_to_flat_json, nested_text_to_flat_json,
                                 EntityEncoder)
    flat = json.loads(json.dumps(FlatJsonRenderer().render(m), cls=EntityEncoder))
    out = {}
    nj = json.loads(json.dumps(NestedJsonRenderer().render(m), cls=EntityEncoder))
    out['nested-json'] = nested_json_to_flat_json(nj) == flat

    def norm(x):
        # text formats carry bytes literals; the flat JSON carries latin-1 text
        return json.loads(json.dumps(x, cls=EntityEncoder))
    try:
        out['flat-text'] = norm(flat_text_to_flat_json(FlatTextRenderer().render(m))) == flat
    except Exception as e:
        out['flat-text'] = 'err %d' % lib.err_code(e)
    text = NestedTextRenderer().render(m)
    try:
        out['nested-text'] = norm(nested_text_to_flat_json(text)) == flat
    except Exception as e:
        out['nested-text'] = 'err %d' % lib.err_code(e)
    if out['nested-text'] is not True:
        # D21: lines of elements skipped by 221YYY carry a name but no value.  Remove exactly those
        # lines (they are str(node) of the no-value element nodes) and convert again.
        skipped = no_value_element_lines(m)
        if skipped:
            kept = [l for l in text.splitlines() if l.strip() not in skipped]
            try:
                if norm(nested_text_to_flat_json('\n'.join(kept))) == flat:
                    out['nested-text-cause'] = 'no-value-element-lines'
            except Exception:
                pass
    return out


def no_value_element_lines(m):
    from pybufrkit.templatedata import NoValueDataNode, SequenceNode, FixedReplicationNode, DelayedReplicationNode
    from pybufrkit.descriptors import ElementDescriptor
    found = set()

    def walk(nodes):
        for n in nodes:
            if isinstance(n, (SequenceNode, FixedReplicationNode, DelayedReplicationNode)):
                walk(n.members)
            elif isinstance(n, NoValueDataNode) and isinstance(n.descriptor, ElementDescriptor):
                found.add(str(n).strip())
    for nodes in m.template_data.value.decoded_nodes_all_subsets:
        walk(nodes)
    return found



# -- the two text formats against the Coq model (TextFmt.v) ---------------------------------------
def ds(s):
    """a string as decimal code points joined by '.', '-' for the empty string"""
    return '.'.join(str(ord(c)) for c in s) if s else '-'


def dsl(l):
    return ','.join(ds(x) for x in l) if l else '_'


def unds(t):
    return '' if t == '-' else ''.join(chr(int(x)) for x in t.split('.'))


def sections_of(m):
    """sections as the driver reads them, the repr texts of the parameter values, the values"""
    from pybufrkit.constants import PARAMETER_TYPE_TEMPLATE_DATA
    secs, preprs, pvals, shape = [], [], [], []
    for section in m.sections:
        ps, sh = [], []
        for p in section:
            if p.type == PARAMETER_TYPE_TEMPLATE_DATA:
                ps.append('T')
                sh.append(None)
            else:
                ps.append('%s=%d' % (ds(p.name), len(preprs)))
                sh.append(len(preprs))
                preprs.append(repr(p.value))
                pvals.append(p.value)
        secs.append('%d:%s' % (section.get_metadata('index'), ';'.join(ps)))
        shape.append(sh)
    return ('/'.join(secs) or '_'), preprs, pvals, shape


def flat_cmd(m, secs, preprs):
    from pybufrkit.renderer import FlatTextRenderer
    R = FlatTextRenderer()
    td = m.template_data.value
    subs, objs = [], []
    for i in range(td.n_subsets):
        descs, vs, links = (td.decoded_descriptors_all_subsets[i], td.decoded_values_all_subsets[i],
                            td.bitmap_links_all_subsets[i])
        cells = []
        for d, v in zip(descs, vs):
            flag = hasattr(d, 'unit') and d.unit == 'FLAG TABLE'
            if flag and v is not None:
                bits = [(k + 1) for k, bit in enumerate('{:0{}b}'.format(v, d.nbits)) if bit == '1']
                obj, kind = (v, bits), 'f' + '_'.join(map(str, bits))
            else:
                obj, kind = v, (('g' if flag else 'z') if v is None else 'p')
            cells.append('%s~%s~%s' % (ds(R._render_descriptor(d)), ds(repr(obj)), kind))
            objs.append((obj, v))
        subs.append('%s|%s' % (','.join('%d>%d' % kv for kv in sorted(links.items())) or '-', ';'.join(cells) or '_'))
    cmd = 'c09flat %s %s %s %d %s' % (ds(str(m.table_group_key)), secs, dsl(preprs), len(subs), ' '.join(subs))
    return cmd, objs


def nested_cmd(m, secs, preprs, toks, fuel=6):
    """None when repr is not a function of the model value in this message (0.0 / -0.0)"""
    from pybufrkit.templatedata import NoValueDataNode, DelayedReplicationNode
    from pybufrkit.descriptors import MarkerDescriptor
    td = m.template_data.value
    nv, subs, seen = {}, [], {}
    for i in range(td.n_subsets):
        descs, vs, links = (td.decoded_descriptors_all_subsets[i], td.decoded_values_all_subsets[i],
                            td.bitmap_links_all_subsets[i])
        cls = {}

        def val(n):
            if n.index in cls:
                return
            cls[n.index] = n.__class__.__name__[:-4]
            for a in getattr(n, 'attributes', []):
                val(a)

        def walk(ns):
            for n in ns:
                if isinstance(n, NoValueDataNode):
                    nv[n.descriptor.id] = str(n)
                    if isinstance(n, DelayedReplicationNode):
                        val(n.factor)
                    if hasattr(n, 'members'):
                        walk(n.members)
                else:
                    val(n)
        walk(td.decoded_nodes_all_subsets[i])
        descr = []
        for k, d in enumerate(descs):
            if isinstance(d, MarkerDescriptor):
                descr.append('{:06d}'.format(d.marker_id))
            elif hasattr(d, 'name'):
                descr.append(d.name)
            else:
                descr.append(cls.get(k, 'ValueData'))
        mvals = [B.python_value_to_model(v) for v in vs]
        for mv, v in zip(mvals, vs):
            if seen.setdefault(mv, repr(v)) != repr(v):
                return None
        subs.append('%s|%s|%s|%s|%s' % (','.join(map(str, descs)) or '-', ','.join(mvals) or '-',
                                         ','.join('%d>%d' % kv for kv in sorted(links.items())) or '-',
                                         dsl(descr), dsl([repr(v) for v in vs])))
    nvs = ','.join('%d=%s' % (k, ds(v)) for k, v in sorted(nv.items())) or '_'
    return 'c09nested %d %s %s %s %s %d %s %s' % (fuel, ds(str(m.table_group_key)), secs, dsl(preprs), nvs,
                                                   len(subs), ' '.join(subs), toks)


def literal_ok(x, strip=False):
    import ast
    try:
        t = repr(x)
        y = ast.literal_eval(t.strip() if strip else t)
        return type(y) is type(x) and (y == x or (y != y and x != x))
    except Exception:
        return False


def parse_tie(ctx, case, tag, kind, text, shape, pvals, values, tuples, converter):
    """the model parser (extracted flat/nested_text_to_flat_json) on the REAL text against the real converter;
    literal_eval is the table of the repr texts of this message's objects"""
    texts, first = [], {}

    def tok(t, entry=None):
        if t not in first:
            first[t] = len(texts)
            texts.append(entry if entry is not None else ds(t))
        return first[t]
    for x in pvals:
        tok(repr(x))
    for v in values:
        tok(repr(v))
    for obj, v in tuples:
        if isinstance(obj, tuple) and repr(obj) not in first:
            tok(repr(obj), '%s^%d' % (ds(repr(obj)), first[repr(v)]))
    if len(text) > 400000:
        ctx.dist['%s-text-too-long-for-model-parser' % kind] += 1
        return
    import ast
    for _ in range(6):
        mo = lib.run_model(['c09parse %s %s %s' % (kind, ','.join(texts) or '_', ds(text))])[0]
        if not mo.startswith('need '):
            break
        # texts the model parser hands to literal_eval that are not a repr of this message: ask the real literal_eval
        ctx.dist['%s-parser-tie: literal_eval asked about a text that is no repr of the message' % kind] += 1
        for t in mo[5:].split(','):
            raw = unds(t)
            try:
                x = ast.literal_eval(raw)
                if isinstance(x, tuple):
                    tok(raw, '%s^%d' % (t, tok(repr(x[0]))))
                else:
                    k = tok(repr(x))
                    if raw not in first:
                        first[raw] = k
                        texts.append('%s=%d' % (t, k))
            except Exception:
                first[raw] = -1
                texts.append(t + '!')
    try:
        with lib.time_limit(120):
            back = converter(text)

        def t1(x):
            return str(first.get(repr(x), '?'))
        secs = []
        for si, sec in enumerate(back):
            items = []
            for pi, it in enumerate(sec):
                is_td = (si < len(shape) and pi < len(shape[si]) and shape[si][pi] is None and len(sec) == len(shape[si]))
                if is_td:
                    items.append('[' + '|'.join(','.join(t1(x) for x in sub) for sub in it) + ']')
                else:
                    items.append(t1(it))
            secs.append(';'.join(items) or '_')
        io = 'ok ' + ('/'.join(secs) or '_')
    except Exception as e:
        io = 'err %d' % lib.err_code(e)
    ctx.dist['%s-parser-tie' % kind] += 1
    if io != mo and not (io.startswith('err') and mo.startswith('err')):
        ctx.violation({'kind': 'C09-text-parser-mismatch', 'format': kind, 'case': case, 'impl': io[:300], 'model': mo[:300]},
                      '%s: model %s-text parser differs from utils (%s / %s)' % (tag, kind, io[:80], mo[:80]))


def text_tie(ctx, case, toks, m, tag, agree):
    """model renderers byte for byte against the real ones; model parsers on the real text; the side
    conditions of the Coq theorems evaluated on this message: when they all hold the real round trip must succeed"""
    from pybufrkit.renderer import FlatTextRenderer, NestedTextRenderer
    from pybufrkit.utils import flat_text_to_flat_json, nested_text_to_flat_json
    td = m.template_data.value
    secs, preprs, pvals, shape = sections_of(m)
    values = [v for vs in td.decoded_values_all_subsets for v in vs]
    fcmd, objs = flat_cmd(m, secs, preprs)
    ncmd = nested_cmd(m, secs, preprs, toks)
    cmds = [fcmd] + ([ncmd] if ncmd else [])
    outs = lib.run_model(cmds)
    real = {'flat': FlatTextRenderer().render(m), 'nested': NestedTextRenderer().render(m)}
    ext_ok = all(literal_ok(x) for x in pvals) and all(literal_ok(v) for v in values)
    ext_flat = all(literal_ok(x) for x in pvals) and all(literal_ok(o, strip=True) for o, _ in objs)
    for kind, out in zip(['flat', 'nested'], outs):
        ctx.dist['%s-text-render-tie' % kind] += 1
        if not out.startswith('ok '):
            if out == 'repr-conflict' or out.startswith('wire-'):
                ctx.dist['%s-text-%s' % (kind, out.split(' ')[0])] += 1
                continue
            ctx.violation({'kind': 'C09-text-driver', 'format': kind, 'case': case, 'model': out[:200]},
                          '%s: %s text driver: %s' % (tag, kind, out[:100]))
            continue
        _, mtext, hyps = out.split(' ')
        mtext = unds(mtext)
        if mtext != real[kind]:
            a, b = mtext.split('\n'), real[kind].split('\n')
            k = next((i for i in range(min(len(a), len(b))) if a[i] != b[i]), min(len(a), len(b)))
            ctx.violation({'kind': 'C09-text-render-mismatch', 'format': kind, 'case': case, 'line': k,
                           'model': (a[k] if k < len(a) else None), 'impl': (b[k] if k < len(b) else None)},
                          '%s: %s text differs at line %d: model %r impl %r' % (
                              tag, kind, k, (a[k] if k < len(a) else None), (b[k] if k < len(b) else None)))
        hyp = dict(kv.split('=') for kv in hyps.split(','))
        failing = sorted(k for k, v in hyp.items() if v != '1')
        ext = ext_flat if kind == 'flat' else ext_ok
        if not ext:
            failing.append('literal_eval(repr)')
        if failing:
            ctx.dist['%s-text side condition fails: %s' % (kind, '+'.join(failing))] += 1
        else:
            ctx.dist['%s-text side conditions hold' % kind] += 1
            if agree.get(kind + '-text') is not True:
                ctx.violation({'kind': 'C09-text-theorem-contradicted', 'format': kind, 'case': case,
                               'result': agree.get(kind + '-text')},
                              '%s: the side conditions of %s_text_roundtrip hold but the implementation does not convert back' % (tag, kind))
    if ncmd is None:
        ctx.dist['nested-text-skipped: repr not a function of the model value'] += 1
    parse_tie(ctx, case, tag, 'flat', real['flat'], shape, pvals, values, objs, flat_text_to_flat_json)
    parse_tie(ctx, case, tag, 'nested', real['nested'], shape, pvals, values, [], nested_text_to_flat_json)


HOSTILE = [b" b'x", b'it\'s "q"', b"  lead", b"a = b", b"# x", b"-> A1", b"<<<<<<", b"######", b"3xx y", b"\\", b" b\"",
           b"' b'", b"x b' y'", b"\xff\x85 z", b". dots", b"tab\there", b"nl\nx", b"q'", b'q"', b"....", b" = "]


def hostile_message(k):
    """strings that look like what the parsers search for: quotes, ' b' + quote, ' = ', '#', '->', '<<<<<<', dots;
    under an associated field, in a delayed replication, and as the last value"""
    a, b2, c = HOSTILE[k % len(HOSTILE)], HOSTILE[(k * 7 + 3) % len(HOSTILE)], HOSTILE[(k * 5 + 1) % len(HOSTILE)]
    shape = k % 3
    if shape == 0:
        ids, vals = [1015, 12001, 1019], [[a, 280.5, b2], [c, None, a]]
    elif shape == 1:
        ids, vals = [204004, 31021, 1015, 204000, 101000, 31001, 1019, 1015], [[1, 5, a, 2, b2, c, a]]
    else:
        ids, vals = [1015, 222000, 236000, 101001, 31031, 33007, 1019], [[a, 0, 0, 0, 70, b2]]
    return ids, vals


HOSTILE_NAMES = ["A = B", "x b' y", "#hash", "-> A12001 fake", "3", "<<<<<< section 9 >>>>>>", "###### subset 1 of 1 ######",
                 "Z" * 100, "tab\there", "ends with quote '", 'ends "', "trailing  ", "  leading", "....dots", "1 2 3", "", "b'"]


class hostile_names(object):
    def __init__(self, m, k):
        seen = {}
        for descs in m.template_data.value.decoded_descriptors_all_subsets:
            for d in descs:
                if hasattr(d, 'name') and type(d).__name__ == 'ElementDescriptor':
                    seen[id(d)] = d
        self.ds = list(seen.values())
        self.k = k

    def __enter__(self):
        self.old = [d.name for d in self.ds]
        for j, d in enumerate(self.ds):
            d.name = HOSTILE_NAMES[(self.k * 3 + j) % len(HOSTILE_NAMES)]

    def __exit__(self, *a):
        for d, n in zip(self.ds, self.old):
            d.name = n


def text_hostile_strings(ctx):
    from pybufrkit.decoder import Decoder
    for k in range(ctx.n(21, 63)):
        ids, vals = hostile_message(k)
        try:
            b = B.encode_message(ids, vals, False, 4, 33).serialized_bytes
            m = Decoder().process(b, wire_template_data=False)
            toks = B.template_tokens(m.template_data.value.template)
        except Exception as e:
            ctx.dist['hostile-strings-not-built-%d' % lib.err_code(e)] += 1
            continue
        ctx.count(('hostile', k), True)
        ctx.dist['hostile-strings'] += 1
        check_message(ctx, {'hostile': k, 'ids': ids}, toks, b, 'hostile-%d' % k)
        # the same message with hostile element NAMES (the Table B objects are shared: renamed and restored)
        with hostile_names(m, k):
            ctx.count(('hostile-names', k), True)
            ctx.dist['hostile-names'] += 1
            check_message(ctx, {'hostile': k, 'ids': ids, 'names': True}, toks, b, 'hostile-names-%d' % k)


def large_subset_probe(ctx):
    """a subset with more than 99 999 values: the five-character index column of the flat text overflows to '*****'
    (fixed_width_repr_of_int; C09_flat_text_value_column covers it: the value still starts at column 81); the text must
    convert back to all the values."""
    from pybufrkit.decoder import Decoder
    from pybufrkit.renderer import FlatTextRenderer, FlatJsonRenderer
    from pybufrkit.utils import flat_text_to_flat_json
    n = 50001
    vals = [n]
    for i in range(n):
        vals += [i % 24, i % 60]
    try:
        with lib.time_limit(240):
            b = B.encode_message([102000, 31002, 4004, 4005], [vals], False, 4, 33).serialized_bytes
            m = Decoder().process(b)
            flat = FlatJsonRenderer().render(m)
            back = flat_text_to_flat_json(FlatTextRenderer().render(m))
        ctx.count(('large-subset', n), True)
        ctx.dist['large-subset (100003 values in one subset)'] += 1
        if back != flat:
            k = len(back[-2][-1][0]) if back and len(back) >= 2 and back[-2] and back[-2][-1] else None
            ctx.violation({'kind': 'C09-converter-flat-text-large-subset', 'case': {'ids': [102000, 31002, 4004, 4005], 'count': n},
                           'values_back': k, 'values': len(vals)},
                          'flat text of a subset with %d values converts back to %s values' % (len(vals), k))
    except Exception as e:
        ctx.violation({'kind': 'C09-converter-flat-text-large-subset', 'case': {'ids': [102000, 31002, 4004, 4005], 'count': n},
                       'error': lib.err_code(e)}, 'flat text of a subset with %d values does not convert back (%r)' % (len(vals), e))


def zero_subsets_probe(ctx):
    """a message with no subset: both text renderers emit one empty line for the template data and the converters
    raise ValueError (the model: flat_td_ok / nested_td_ok require a subset; C09_text_zero_subsets_refuted).  Known finding
    D34: reported with kind C09-converter-zero-subsets, which known_findings.json lists."""
    from pybufrkit.decoder import Decoder
    from pybufrkit.renderer import FlatTextRenderer, NestedTextRenderer
    from pybufrkit.utils import flat_text_to_flat_json, nested_text_to_flat_json
    out = {}
    try:
        b = B.encode_message([1001], [], False, 4, 33).serialized_bytes
        m = Decoder().process(b)
        for nm, R, P in (('flat', FlatTextRenderer, flat_text_to_flat_json), ('nested', NestedTextRenderer, nested_text_to_flat_json)):
            t = R().render(m)
            try:
                P(t)
                out[nm] = 'converts'
            except Exception as e:
                out[nm] = 'err %d' % lib.err_code(e)
                # D34 (known finding): a decodable message whose text rendering does not convert back
                ctx.violation({'kind': 'C09-converter-zero-subsets', 'format': nm, 'error': out[nm],
                               'case': {'ids': [1001], 'n_subsets': 0, 'bytes': b.hex()}},
                              'message without any subset: %s text does not convert back to the flat JSON (%s)' % (nm, out[nm]))
            secs, preprs, pvals, shape = sections_of(m)
            if nm == 'flat':
                cmd, _ = flat_cmd(m, secs, preprs)
            else:
                cmd = nested_cmd(m, secs, preprs, B.template_tokens(m.template_data.value.template))
            mo = lib.run_model([cmd])[0].split(' ')
            out[nm + '-model-text-equal'] = (mo[0] == 'ok' and unds(mo[1]) == t)
            out[nm + '-model-hyps'] = mo[2] if len(mo) > 2 else None
    except Exception as e:
        out['error'] = repr(e)[:200]
    ctx.extra['zero-subsets'] = out


def model_wire_lines(toks, flat):
    lines = []
    for labels, vals, links in flat:
        lines.append('wire %s %s %s %s' % (
            ','.join(labels) or '-',
            ','.join(B.python_value_to_model(v) for v in vals) or '-',
            ','.join('%d>%d' % kv for kv in links) or '-', toks))
    return lines


def check_message(ctx, case, toks, b, tag, converters=True, text_model=True):
    try:
        with lib.time_limit(120):
            m, flat, res = impl_views(b)
    except Exception as e:
        ctx.dist['%s-undecodable-%d' % (tag, lib.err_code(e))] += 1
        return
    mouts = lib.run_model(model_wire_lines(toks, flat))
    if res[0] == 'err' and 'ids' in case:
        # the hierarchical view of a decodable message could not be built at all
        hz = B.wiring_hazards(case['ids'], case.get('version', 33))
        if 'marker-under-204' in hz:
            ctx.violation({'kind': 'C09-wire-fails', 'case': case, 'error_class': res[1], 'cause': 'marker-under-204'},
                          '%s: TemplateData.wire raises (error class %d) on a decodable message' % (tag, res[1]))
            return
        if 'marker-without-significance' in hz:
            ctx.dist['wire-fails: marker operator without 008023/008024 (outside the property)'] += 1
        else:
            ctx.violation({'kind': 'C09-wire-fails', 'case': case, 'error_class': res[1]},
                          '%s: TemplateData.wire raises (error class %d) on a decodable message' % (tag, res[1]))
    for si, mo in enumerate(mouts):
        n_vals = len(flat[si][1])
        if res[0] == 'err':
            io = 'err %d' % res[1]
            mo_c = mo if mo.startswith('err') else 'ok'
        else:
            io = 'ok %s' % (res[1][si] or '-')
            mo_c = ' '.join(mo.split(' ')[:2]) if mo.startswith('ok') else mo
        if io != mo_c:
            rec = {'kind': 'C09-wire-mismatch', 'case': case, 'subset': si, 'impl': io[:400], 'model': mo_c[:400]}
            if res[0] == 'err' and res[1] == 10 and mo.startswith('err'):
                rec['kind'] = 'C09-wire-error-class'
            ctx.violation(rec, '%s subset %d: impl=%s model=%s' % (tag, si, io[:100], mo_c[:100]))
        elif mo.startswith('ok'):
            _, tree, flat_s, same, nxt = mo.split(' ')
            want = ','.join(str(k) for k in range(n_vals)) or '-'
            if flat_s != want or same != 'same' or int(nxt) != n_vals:
                ctx.violation({'kind': 'C09-flat-order', 'case': case, 'subset': si, 'flat': flat_s[:200], 'n': n_vals},
                              'hierarchical view does not contain every index once in flat order')
    if res[0] == 'ok' and converters:
        agree = converters_agree(m)
        cause = agree.pop('nested-text-cause', None)
        for fmt, ok in agree.items():
            if ok is not True:
                rec = {'kind': 'C09-converter-' + fmt, 'case': case, 'result': ok}
                if fmt == 'nested-text' and cause:
                    rec['cause'] = cause
                ctx.violation(rec, '%s: %s does not convert back to the flat JSON (%r)' % (tag, fmt, ok))
        if text_model:
            try:
                text_tie(ctx, case, toks, m, tag, agree)
            except RuntimeError as e:
                ctx.violation({'kind': 'C09-text-driver', 'case': case, 'error': str(e)[:200]}, '%s: text driver failed' % tag)
    elif res[0] != 'ok':
        ctx.dist['wire-error-%d' % res[1]] += 1


def cli_four_formats(ctx):
    """command_encode accepts the four formats: decode [-a] [-j] to a file, encode [-a] [-j] it back, same bytes.
    Messages with strings holding 8-bit characters, quotes and leading blanks (the text formats carry bytes literals)."""
    import subprocess
    import tempfile
    msgs = []
    for k, strs in enumerate([(b'Z\xc3\xbcrich', b'Ko\xe8elovice'), (b'P\xc5\x99imda', b"it's \"q\""), (b'  R17', b'plain'),
                              (b'\xff\xfe\x80', b'\\n#x')]):
        ids = [1015, 12001, 204004, 31021, 1019, 204000] if k % 2 else [1015, 12001, 101002, 1019]
        vals = [[strs[0], 280.5 + k, 1, 2, strs[1]]] if k % 2 else [[strs[0], 280.5 + k, strs[1], strs[0]]]
        try:
            msgs.append(B.encode_message(ids, vals, False, 4, 33).serialized_bytes)
        except Exception as e:
            ctx.dist['cli-message-not-built-%d' % lib.err_code(e)] += 1
    env = dict(os.environ, PYTHONPATH=lib.REPO, PYTHONHASHSEED='0')
    os.makedirs(os.path.join(lib.VERIF, 'replays'), exist_ok=True)
    with tempfile.TemporaryDirectory(prefix='c09cli_', dir=os.path.join(lib.VERIF, 'replays')) as d:
        for k, b in enumerate(msgs):
            src = os.path.join(d, 'm%d.bufr' % k)
            open(src, 'wb').write(b)
            for flags in ([], ['-j'], ['-a'], ['-a', '-j']):
                txt = os.path.join(d, 'm%d%s.txt' % (k, ''.join(flags)))
                out = os.path.join(d, 'm%d%s.out' % (k, ''.join(flags)))
                r1 = subprocess.run(['/venv/bin/python', '-m', 'pybufrkit', 'decode'] + flags + [src], env=env,
                                    stdout=subprocess.PIPE, stderr=subprocess.PIPE, timeout=120)
                open(txt, 'wb').write(r1.stdout)
                r2 = subprocess.run(['/venv/bin/python', '-m', 'pybufrkit', 'encode'] + flags + [txt, out], env=env,
                                    stdout=subprocess.PIPE, stderr=subprocess.PIPE, timeout=120)
                ctx.count(('cli', k, tuple(flags)), True)
                ctx.dist['cli-roundtrip' + ''.join(flags)] += 1
                got = open(out, 'rb').read() if os.path.exists(out) else None
                if r1.returncode != 0 or r2.returncode != 0 or got != b:
                    ctx.violation({'kind': 'C09-cli-encode', 'case': {'message_hex': b.hex(), 'flags': flags},
                                   'rc': [r1.returncode, r2.returncode],
                                   'stderr': (r1.stderr + r2.stderr + r2.stdout).decode('latin-1')[-300:],
                                   'got': None if got is None else got.hex()[:200]},
                                  'decode %s | encode %s does not give the message back' % (' '.join(flags), ' '.join(flags)))


def run(ctx):
    ctx.rule = ('generated messages (templates with attributes on plain elements and on replication factors, chained '
                'attributes, 221, zero-count replications, strings, flag tables) and sample files: the implementation wires '
                'and renders each message in the four formats; (1) the nested structure, rendered with index-carrying values, '
                'is compared node by node with the extracted model (Wire.wire + Nested.render_nodes) and the model\'s '
                'nested->flat order must be 0..n-1; (2) the three converters must give back the flat JSON (predicate on the '
                'implementation). non-trivial = template with replication or operator.')
    n = ctx.n(250, 5000)
    cases = P.build_cases(ctx, n, gen_kwargs=dict(size=6), nsub_choices=(1, 1, 2), compressed=False,
                          versions=(33, 33, 25), editions=(4, 4, 3), shared=False)
    # associated fields, nested: an inner 204 span inside an outer one, elements after the inner cancellation
    import tmplgen
    rng = ctx.rng
    pl = tmplgen.pools(33)
    for k in range(ctx.n(24, 300)):
        el = lambda: rng.choice(pl.numeric + pl.codeflag)
        a, b2 = rng.choice([1, 2, 4, 8]), rng.choice([2, 3, 5])
        inner = [204000 + b2, 31021, el()] + ([el()] if rng.random() < 0.4 else []) + [204000]
        shape = k % 4
        if shape == 0:
            ids = [204000 + a, 31021, el()] + inner + [el(), 204000, el()]
        elif shape == 1:
            ids = [204000 + a, 31021] + inner + [el(), el(), 204000]
        elif shape == 2:
            ids = [204000 + a, 31021, el()] + inner + [102002, el(), el(), 204000, el()]
        else:
            ids = [el(), 204000 + a, 31021, el()] + inner + [101000, 31001, el(), 204000]
        forced = '-'
        if k % 3 == 0 and shape in (0, 1):
            # quality information (a virtual attribute) on elements that also carry an associated field
            ids = [204000 + a, 31021, el(), el(), el(), 204000, 222000, 236000, 101003, 31031, 33007, 33007]
            bits = rng.choice([(0, 0, 1), (0, 1, 0), (1, 0, 0)])
            forced = '31031=%d.%d.%d' % bits
        cases.append({'ids': ids, 'version': 33, 'edition': 4, 'nsub': rng.choice([1, 2]), 'compressed': False, 'forced': forced,
                      'seed': rng.randrange(1, 2 ** 32), 'maxrep': 3, 'features': {'nested-204-then-outer': 1}, 'shared': False})
    # 204YYY still in force while the quality values after 222000 are coded: each 033007 carries its own associated field
    for k in range(ctx.n(9, 120)):
        el = lambda: rng.choice(pl.numeric + pl.codeflag)
        a = rng.choice([1, 2, 4, 8])
        bits = rng.choice([(0, 0, 1), (0, 1, 0), (1, 0, 0), (0, 0, 0)])
        ids = [204000 + a, 31021, el(), el(), el(), 222000, 236000, 101003, 31031] + [33007] * bits.count(0) + [204000]
        cases.append({'ids': ids, 'version': 33, 'edition': 4, 'nsub': rng.choice([1, 2]), 'compressed': rng.random() < 0.3,
                      'forced': '31031=%d.%d.%d' % bits, 'seed': rng.randrange(1, 2 ** 32), 'maxrep': 3,
                      'features': {'quality-values-under-204': 1}, 'shared': False})
        cases[-1]['shared'] = cases[-1]['compressed']
    # a delayed replication FACTOR that owns an attribute (a bitmap whose zero bit selects the 031001/031002): its
    # attribute lines are the dotted ones of the nested text
    for k in range(ctx.n(12, 150)):
        a, b2 = rng.sample([4004, 12001, 1001, 2001, 5002, 10004], 2)
        cnt = rng.choice([0, 1, 2])
        op = rng.choice([222, 222, 223, 224])
        fac = rng.choice([31001, 31001, 31002])
        nel = 2 + cnt
        bits = [rng.randrange(2) for _ in range(nel)]
        bits[1] = 0
        zeros = bits.count(0)
        tail = [33007] * zeros if op == 222 else ([8023] if op == 224 else []) + [op * 1000 + 255] * zeros
        ids = [a, 101000, fac, b2, op * 1000, 236000, 101000 + nel, 31031] + tail
        cases.append({'ids': ids, 'version': 33, 'edition': 4, 'nsub': rng.choice([1, 2]), 'compressed': False,
                      'forced': '%d=%d;31031=%s' % (fac, cnt, '.'.join(map(str, bits))), 'seed': rng.randrange(1, 2 ** 32),
                      'maxrep': 3, 'features': {'factor-with-attribute': 1}, 'shared': True})
    P.attach_templates(cases)
    P.run_gen(cases)
    P.run_encode(cases)
    for c in cases:
        e = c.get('impl_enc')
        if not e or e[0] != 'ok':
            ctx.dist['not-encodable'] += 1
            continue
        for f in c['features']:
            ctx.dist[f] += 1
        case = {'ids': c['ids'], 'seed': c['seed'], 'forced': c['forced'], 'nsub': c['nsub'],
                'version': c['version'], 'edition': c['edition']}
        ctx.count((tuple(c['ids']), c['seed']), any(i >= 100000 for i in c['ids']))
        check_message(ctx, case, c['toks'], e[3], 'generated')
        ctx.sample({'ids': c['ids']}, limit=3)
    # sample files (uncompressed ones for the model; converters on all)
    files = sorted(glob.glob(os.path.join(lib.REPO, 'tests', 'data', '*.bufr')))
    if not ctx.quick:
        files += sorted(glob.glob(os.path.join(lib.REPO, 'tests', 'benchmark_data', '*.bufr')))
    else:
        files = [f for f in files if os.path.getsize(f) < 30000]
    from pybufrkit.decoder import Decoder
    for f in files:
        b = open(f, 'rb').read()
        try:
            with lib.time_limit(120):
                m = Decoder().process(b, wire_template_data=False)
                toks = B.template_tokens(m.template_data.value.template)
        except Exception as e:
            ctx.dist['corpus-undecodable-%d' % lib.err_code(e)] += 1
            continue
        ctx.count(('file', os.path.basename(f)))
        ctx.dist['corpus-files'] += 1
        if m.is_compressed.value:
            # compressed: the tree is shared by all subsets; wire it for subset 0 only on the model side
            try:
                m.wire()
                agree = converters_agree(m)
                agree.pop('nested-text-cause', None)
                for fmt, ok in agree.items():
                    if ok is not True:
                        ctx.violation({'kind': 'C09-converter-' + fmt, 'case': {'file': os.path.basename(f)}, 'result': ok},
                                      '%s: %s does not convert back to the flat JSON' % (os.path.basename(f), fmt))
            except Exception as e:
                ctx.dist['corpus-wire-error-%d' % lib.err_code(e)] += 1
            continue
        check_message(ctx, {'file': os.path.basename(f)}, toks, b, os.path.basename(f))
    text_hostile_strings(ctx)
    zero_subsets_probe(ctx)
    large_subset_probe(ctx)
    cli_four_formats(ctx)
    ctx.partial = ["C09_nested_text_221_refuted (D21): NestedTextRenderer prints elements skipped by 221YYY without a value",
                   "C09_text_zero_subsets_refuted: a message without any subset does not convert back from either text format",
                   "repr / ast.literal_eval are external to the text theorems: their side conditions (TextFmtSpec.v) are evaluated per "
                   "message by the extracted code and by the harness (literal_eval(repr(v)) == v)",
                   'labels_agree (an attribute is non-virtual exactly when its descriptor is an associated field) is a checked hypothesis of nested_to_flat_render']
    ctx.assumptions = ['repr / ast.literal_eval are parameters of the text theorems (side conditions checked per message); str.format widths, strip, splitlines, split, rfind, rsplit are modelled']


def replay(ctx, rec):
    c = rec['case']
    if str(rec.get('kind', '')).startswith('C09-converter-flat-text-large-subset'):
        large_subset_probe(ctx)
        return {'violations': len(ctx.violations)}
    if rec.get('kind') == 'C09-converter-zero-subsets':
        zero_subsets_probe(ctx)
        return {'violations': len(ctx.violations), 'known': 'D34'}
    if 'file' in c:
        return {'file': c['file']}
    if 'hostile' in c:
        from pybufrkit.decoder import Decoder
        ids, vals = hostile_message(c['hostile'])
        b = B.encode_message(ids, vals, False, 4, 33).serialized_bytes
        m = Decoder().process(b, wire_template_data=False)
        toks = B.template_tokens(m.template_data.value.template)
        if c.get('names'):
            with hostile_names(m, c['hostile']):
                check_message(ctx, c, toks, b, 'replay')
        else:
            check_message(ctx, c, toks, b, 'replay')
        return {'violations': len(ctx.violations)}
    cases = [{'ids': c['ids'], 'version': c.get('version', 33), 'edition': c.get('edition', 4), 'nsub': c['nsub'],
              'compressed': False, 'forced': c['forced'], 'seed': c['seed'], 'maxrep': 3, 'features': {}, 'shared': False}]
    P.attach_templates(cases); P.run_gen(cases); P.run_encode(cases)
    check_message(ctx, c, cases[0]['toks'], cases[0]['impl_enc'][3], 'replay')
    return {'violations': len(ctx.violations)}
