"""C19 — bit-level reading and writing (pybufrkit/bitops.py vs coq/theories/Bits.v)."""
import lib

LEVEL = 'proof'


def bits_str(b):
    return b if b else '-'


def fmt_field(f):
    k = f[0]
    if k in 'ui':
        return '%s:%d:%d' % (k, f[1], f[2])
    if k == 'b':
        return 'b:%d' % f[1]
    if k == 'n':
        return 'n:' + bits_str(f[1])
    if k == 'y':
        return 'y:%d:%s' % (f[1], f[2].hex() or '-')
    raise ValueError(f)


def show_value(f, v):
    k = f[0]
    if k == 'u':
        return 'u%d' % v
    if k == 'i':
        return 'i%d' % v
    if k == 'b':
        return 'b1' if v else 'b0'
    if k == 'n':
        return 'n' + bits_str(v)
    if k == 'y':
        return 'y' + (v.hex() or '-')


def pad8(bits):
    return bits + '0' * (-len(bits) % 8)


def to_bytes(bits):
    bits = pad8(bits)
    return bytes(int(bits[i:i + 8], 2) for i in range(0, len(bits), 8))


def impl_fields(pre, suf, fields):
    """The implementation's side of a 'fields' case, formatted like the driver."""
    from pybufrkit.bitops import get_bit_writer, get_bit_reader
    bw = get_bit_writer()
    try:
        if pre:
            bw.write_bin(pre)
        for f in fields:
            k = f[0]
            if k == 'u':
                bw.write_uint(f[2], f[1])
            elif k == 'i':
                bw.write_int(f[2], f[1])
            elif k == 'b':
                bw.write_bool(bool(f[1]))
            elif k == 'n':
                bw.write_bin(f[1])
            elif k == 'y':
                bw.write_bytes(f[2], f[1])
    except Exception as e:
        return 'werr %d' % lib.err_code(e), None
    wpos = bw.get_pos()
    written = bw.bit_stream.bin
    if wpos % 8 == 0:
        # what the writer hands out is to_bytes() (defined for whole octets): it must be exactly these bits
        out_bits = ''.join('{:08b}'.format(x) for x in bw.to_bytes())
        if out_bits != written:
            return 'w %s to_bytes-differs %s' % (bits_str(written), bits_str(out_bits)), None
    total = written + suf
    br = get_bit_reader(to_bytes(total))
    vals = []
    try:
        if pre:
            br.read_bin(len(pre))
        for f in fields:
            k = f[0]
            if k == 'u':
                vals.append(br.read_uint(f[1]))
            elif k == 'i':
                vals.append(br.read_int(f[1]))
            elif k == 'b':
                vals.append(br.read_bool())
            elif k == 'n':
                vals.append(br.read_bin(len(f[1])))
            elif k == 'y':
                vals.append(br.read_bytes(f[1]))
    except Exception as e:
        return 'w %s rerr %d' % (bits_str(written), lib.err_code(e)), None
    rest = total[br.get_pos():]
    out = 'w %s r %s %s' % (bits_str(written), ','.join(show_value(f, v) for f, v in zip(fields, vals)),
                            bits_str(rest))
    return out, (written, wpos, vals, br.get_pos())


def expected_value(f):
    k = f[0]
    if k in 'ui':
        return f[2]
    if k == 'b':
        return bool(f[1])
    if k == 'n':
        return f[1]
    if k == 'y':
        v = f[2][:f[1]]
        return v + b' ' * (f[1] - len(v))


def field_ok(f):
    k = f[0]
    if k == 'u':
        return f[1] > 0 and 0 <= f[2] < 2 ** f[1]
    if k == 'i':
        return f[1] > 1 and abs(f[2]) < 2 ** (f[1] - 1)
    if k == 'y':
        return f[1] >= 0
    return True


def holds_fields(pre, suf, fields, impl_raw):
    """The property's own predicate on the implementation's result (independent of
    the model): acceptable fields read back as written, same final position;
    unacceptable ones are refused."""
    out, detail = impl_raw
    if all(field_ok(f) for f in fields):
        if detail is None:
            return False
        written, wpos, vals, rpos = detail
        return (written.startswith(pre) and wpos == rpos == len(written)
                and vals == [expected_value(f) for f in fields])
    return out.startswith('werr')


def run_fields_cases(ctx, cases, tag):
    lines = ['fields %s %s %s' % (bits_str(p), bits_str(s), ' '.join(fmt_field(f) for f in fs))
             for (p, s, fs) in cases]
    mouts = lib.run_model_sharded(lines)
    for (p, s, fs), line, mo in zip(cases, lines, mouts):
        with lib.time_limit(20):
            raw = impl_fields(p, s, fs)
        io = raw[0]
        nontrivial = len(fs) > 0 and any(f[0] in 'uiy' for f in fs)
        ctx.count(line, nontrivial)
        ctx.dist[tag] += 1
        if io.startswith('werr') or 'rerr' in io:
            ctx.dist['error-cases'] += 1
        ctx.compare({'cmd': line}, io, mo, kind='bits-fields',
                    holds=lambda: holds_fields(p, s, fs, raw))
        # the predicate is evaluated on every case, not only on disagreements
        if io == mo and not holds_fields(p, s, fs, raw):
            ctx.violation({'kind': 'bits-fields-predicate', 'case': {'cmd': line}, 'impl': io},
                          'round trip predicate false on ' + line[:100])
        if nontrivial:
            ctx.sample({'cmd': line, 'impl': io[:200], 'model': mo[:200]}, limit=3)


def impl_read(kind, w, bits):
    from pybufrkit.bitops import get_bit_reader
    br = get_bit_reader(to_bytes(bits))
    try:
        if kind == 'uint':
            v = str(br.read_uint(w))
        elif kind == 'int':
            v = str(br.read_int(w))
        elif kind == 'bool':
            v = '1' if br.read_bool() else '0'
        elif kind == 'bin':
            v = bits_str(br.read_bin(w))
        elif kind == 'bytes':
            v = br.read_bytes(w).hex() or '-'
        elif kind == 'uon':
            v = str(br.read_uint_or_none(w))
        return 'ok %s %d' % (v, br.get_pos())
    except Exception as e:
        return 'err %d' % lib.err_code(e)


def impl_setuint(v, w, pos, bits):
    from pybufrkit.bitops import get_bit_writer
    bw = get_bit_writer()
    if bits:
        bw.write_bin(bits)
    n = bw.get_pos()
    if n % 8 == 0 and (v + pos // 8) % 3 != 0:
        bw.to_bytes()             # the octets taken once BEFORE the overwrite (as for a length field patched afterwards)
    try:
        bw.set_uint(v, w, pos)
    except Exception as e:
        return 'err %d' % lib.err_code(e)
    if bw.get_pos() != n:
        return 'ok-but-length-changed ' + bits_str(bw.bit_stream.bin)
    if n % 8 == 0:
        # the overwrite as seen through to_bytes() (defined for whole octets)
        out_bits = ''.join('{:08b}'.format(x) for x in bw.to_bytes())
        if out_bits != bw.bit_stream.bin:
            return 'ok-but-to_bytes-differs ' + bits_str(out_bits)
    return 'ok ' + bits_str(bw.bit_stream.bin)


def holds_setuint(v, w, pos, bits, out):
    if not (w > 0 and 0 <= v < 2 ** w):
        return out.startswith('err')
    if not out.startswith('ok '):
        return False
    o = out[3:]
    return (len(o) == len(bits) and o[:pos] == bits[:pos] and o[pos + w:] == bits[pos + w:]
            and int(o[pos:pos + w], 2) == v)


def run(ctx):
    rng = ctx.rng
    ctx.rule = ('exhaustive grid width 1..64 x values {0,1,2^(n-1),2^n-2,2^n-1,2^n (refused),-1 (refused)} x bit offset 0..7 '
                'x {unsigned, sign-magnitude, in-place overwrite}; single reads incl. past the end and widths 0/-1/65; '
                'random sequences of mixed typed fields (<=200 fields). A case is non-trivial when it contains an '
                'integer or bytes field; distinct = distinct command line. Every case is run on pybufrkit.bitops and on the '
                'extracted Bits.v and the outputs (written bits, values, final position / remaining bits, error class) must be equal; '
                'the round-trip predicate is also evaluated directly on the implementation result.')
    # --- corpus of earlier failures runs first --------------------------------
    corpus = [
        ('', '', [('b', 1)]),                                  # D2 region: bool at the very end
        ('10101011', '11001101', [('u', 16, 5)]),
    ]
    run_fields_cases(ctx, corpus, 'corpus')
    # D2: read_bool at end of stream must be the library error
    for kind, w, bits in [('bool', 0, ''), ('int', 8, ''), ('uint', 9, '11111111'), ('bytes', 2, '11111111'),
                          ('bin', 9, '11111111')]:
        line = 'read %s %d %s' % (kind, w, bits_str(bits))
        mo = lib.run_model([line])[0]
        io = impl_read(kind, w, bits)
        ctx.count(line)
        ctx.compare({'cmd': line}, io, mo, kind='bits-read-past-end', holds=lambda: io == 'err 1')

    # --- exhaustive grid ------------------------------------------------------
    cases = []
    for w in range(1, 65):
        vals = sorted({0, 1, 2 ** (w - 1), 2 ** w - 2, 2 ** w - 1, 2 ** w, -1} - {-2})
        for off in range(8):
            pre = ''.join(rng.choice('01') for _ in range(off))
            suf = ''.join(rng.choice('01') for _ in range(rng.randrange(0, 9)))
            for v in vals:
                if v < -1:
                    continue
                cases.append((pre, suf, [('u', w, v)]))
            if w > 1:
                m = 2 ** (w - 1)
                for v in sorted({0, 1, -1, m - 1, -(m - 1), m, -m, (m // 2)}):
                    cases.append((pre, suf, [('i', w, v)]))
    if ctx.quick:
        # the grid is small enough to be exhaustive in both tiers
        pass
    run_fields_cases(ctx, cases, 'grid-uint-int')

    # in-place overwrite grid
    lines, metas = [], []
    for w in range(1, 65):
        for off in range(8):
            n_after = rng.randrange(0, 12)
            bits = ''.join(rng.choice('01') for _ in range(off + w + n_after))
            for v in sorted({0, 1, 2 ** (w - 1), 2 ** w - 2, 2 ** w - 1, 2 ** w, -1, -(2 ** (w - 1))}):     # negative: refused
                lines.append('setuint %d %d %d %s' % (v, w, off, bits_str(bits)))
                metas.append((v, w, off, bits))
    # byte-aligned positions as the encoder uses them (length fields)
    for w in (8, 16, 24, 32):
        for pos in (0, 8, 32, 40):
            bits = ''.join(rng.choice('01') for _ in range(pos + w + 16))
            v = rng.randrange(0, 2 ** w)
            lines.append('setuint %d %d %d %s' % (v, w, pos, bits_str(bits)))
            metas.append((v, w, pos, bits))
    mouts = lib.run_model_sharded(lines)
    for line, mo, (v, w, pos, bits) in zip(lines, mouts, metas):
        io = impl_setuint(v, w, pos, bits)
        ctx.count(line)
        ctx.dist['grid-set_uint'] += 1
        ctx.compare({'cmd': line}, io, mo, kind='bits-set_uint',
                    holds=lambda: holds_setuint(v, w, pos, bits, io),
                    extra={'nbits': w, 'nbits_mod8': w % 8})
        if io == mo and not holds_setuint(v, w, pos, bits, io):
            ctx.violation({'kind': 'bits-set_uint-predicate', 'case': {'cmd': line}, 'impl': io})
    ctx.sample({'cmd': lines[100], 'impl/model': mouts[100]})

    # --- single reads: missing rule, odd widths, past the end -----------------
    lines = []
    for w in list(range(-1, 68)):
        for bits in ('1' * max(w, 0), '1' * max(w - 1, 0) + '0' if w > 0 else '', '0' * max(w, 0), '1' * max(w - 1, 0)):
            lines.append('read uon %d %s' % (w, bits_str(bits)))
            lines.append('read uint %d %s' % (w, bits_str(bits)))
            lines.append('read int %d %s' % (w, bits_str(bits)))
            lines.append('read bin %d %s' % (w, bits_str(bits)))
    for n in range(-1, 6):
        for avail in range(0, 6):
            lines.append('read bytes %d %s' % (n, bits_str(''.join(rng.choice('01') for _ in range(8 * avail)))))
    lines = sorted(set(lines))
    mouts = lib.run_model(lines)
    for line, mo in zip(lines, mouts):
        _, kind, w, bits = line.split(' ')
        bits = '' if bits == '-' else bits
        # the reader works on whole octets: the model sees the same padded stream
        if len(bits) % 8:
            continue
        io = impl_read(kind, int(w), bits)
        ctx.count(line)
        ctx.dist['single-reads'] += 1
        ctx.compare({'cmd': line}, io, mo, kind='bits-read')
    # unaligned single reads: pad explicitly so both sides see the same stream
    lines2 = []
    for w in range(1, 67):
        for bits in ('1' * w, '1' * (w - 1) + '0', '1' * (w - 1)):
            lines2.append('read uon %d %s' % (w, pad8(bits) or '-'))
            lines2.append('read int %d %s' % (w, pad8(bits) or '-'))
    lines2 = sorted(set(lines2))
    mouts = lib.run_model(lines2)
    for line, mo in zip(lines2, mouts):
        _, kind, w, bits = line.split(' ')
        bits = '' if bits == '-' else bits
        io = impl_read(kind, int(w), bits)
        ctx.count(line)
        ctx.dist['single-reads'] += 1
        ctx.compare({'cmd': line}, io, mo, kind='bits-read')

    # --- random field sequences -----------------------------------------------
    nseq = ctx.n(400, 20000)
    cases = []
    for _ in range(nseq):
        nf = rng.choice([1, 2, 3, 5, 8, 13, 40, 200]) if rng.random() < 0.5 else rng.randrange(1, 30)
        fs = []
        for _ in range(nf):
            k = rng.choice('uuuiibny')
            if k == 'u':
                w = rng.randrange(1, 65)
                v = rng.choice([0, 1, 2 ** w - 1, 2 ** w - 2, rng.randrange(0, 2 ** w)])
                if rng.random() < 0.01:
                    v = rng.choice([2 ** w, -1, 2 ** w + 5])
                fs.append(('u', w, v))
            elif k == 'i':
                w = rng.randrange(2, 65)
                m = 2 ** (w - 1)
                v = rng.choice([0, m - 1, -(m - 1), rng.randrange(-(m - 1), m)])
                if rng.random() < 0.01:
                    v = rng.choice([m, -m])
                fs.append(('i', w, v))
            elif k == 'b':
                fs.append(('b', rng.randrange(2)))
            elif k == 'n':
                fs.append(('n', ''.join(rng.choice('01') for _ in range(rng.randrange(0, 20)))))
            else:
                n = rng.randrange(0, 9)
                ln = rng.choice([0, n, max(n - 1, 0), n + 2, rng.randrange(0, 12)])
                fs.append(('y', n, bytes(rng.randrange(256) for _ in range(ln))))
        pre = ''.join(rng.choice('01') for _ in range(rng.randrange(0, 8)))
        suf = ''.join(rng.choice('01') for _ in range(rng.randrange(0, 12)))
        cases.append((pre, suf, fs))
    run_fields_cases(ctx, cases, 'random-sequences')
    ctx.exhaustive = False
    ctx.extra['grid_exhaustive'] = 'width 1..64 x 7 values x offsets 0..7 for unsigned/signed/overwrite: complete in both tiers'

    # --- extraction cross-check: a sample evaluated by vm_compute --------------
    sample = cases[:ctx.n(25, 120)]
    items = []
    slines = ['fields %s %s %s' % (bits_str(p), bits_str(s), ' '.join(fmt_field(f) for f in fs)) for (p, s, fs) in sample]
    souts = lib.run_model(slines)

    def cbits(b):
        return '[' + ';'.join('true' if c == '1' else 'false' for c in b) + ']'

    def cfield(f):
        k = f[0]
        if k == 'u':
            return '(FUint (%d) (%d))' % (f[1], f[2])
        if k == 'i':
            return '(FInt (%d) (%d))' % (f[1], f[2])
        if k == 'b':
            return '(FBool %s)' % ('true' if f[1] else 'false')
        if k == 'n':
            return '(FBin %s)' % cbits(f[1])
        return '(FBytes (%d) [%s])' % (f[1], ';'.join('%d%%N' % x for x in f[2]))

    for (p, s, fs), out in zip(sample, souts):
        if not out.startswith('w ') or ' r ' not in out:
            continue
        written = out.split(' ')[1]
        written = '' if written == '-' else written
        items.append(('write_fields [%s] %s' % (';'.join(cfield(f) for f in fs), cbits(p)),
                      'Ok %s' % cbits(written)))
    n, err = lib.vm_cross_check('C19', 'From PBK Require Import Base Bits.\nOpen Scope Z_scope.', items)
    ctx.extra['extraction_cross_check_vm_compute'] = n
    if err:
        ctx.violation({'kind': 'extraction-cross-check', 'error': err, 'no_failing_input': True,
                       'broken': 'OCaml extraction of Bits.v disagrees with vm_compute'})
    ctx.assumptions = [
        'bitstring 4.4.0 behaviour on the operations used is part of the model (Bits.v), observed not proved',
        'widths beyond 64 and non-ASCII/invalid bin strings are outside the generated space (the theorem itself covers every width)',
    ]


def replay(ctx, rec):
    line = rec['case']['cmd']
    mo = lib.run_model([line])[0]
    toks = line.split(' ')
    if toks[0] == 'read':
        io = impl_read(toks[1], int(toks[2]), '' if toks[3] == '-' else toks[3])
    elif toks[0] == 'setuint':
        io = impl_setuint(int(toks[1]), int(toks[2]), int(toks[3]), '' if toks[4] == '-' else toks[4])
    else:
        def pf(s):
            p = s.split(':')
            if p[0] in 'ui':
                return (p[0], int(p[1]), int(p[2]))
            if p[0] == 'b':
                return ('b', int(p[1]))
            if p[0] == 'n':
                return ('n', '' if p[1] == '-' else p[1])
            return ('y', int(p[1]), bytes.fromhex('' if p[2] == '-' else p[2]))
        pre, suf = ['' if x == '-' else x for x in toks[1:3]]
        io = impl_fields(pre, suf, [pf(s) for s in toks[3:]])[0]
    if io != mo:
        ctx.violation({'kind': rec.get('kind', 'replay'), 'case': rec['case'], 'impl': io, 'model': mo})
    return {'cmd': line, 'impl': io, 'model': mo, 'agree': io == mo}
