"""C11 — stream splitting (pybufrkit.decoder.generate_bufr_message vs coq/theories/Stream.v).

Also the stream-level half of C12 (continue_on_error on damaged messages): the
functions ``build_pool``, ``damage``, ``make_clean_cases``, ``make_damaged_cases``
and ``run_stream_cases`` are written to be imported by the C12 check.

How a case is compared.  The model's decoder is abstract; for every offset of
the stream where b'BUFR' occurs the harness observes what the REAL decoder does
on the suffix starting there (full and metadata-only: ok + len(serialized_bytes)
+ declared length, or the exception class; the filter's verdict on the
metadata-only message) and hands that table to the extracted model
(``Stream.tbl_generate``).  What is compared with ``generate_bufr_message`` is
therefore the scanning logic: bytes.find, how far the position advances, the
``except PyBufrKitError`` branch, the filter protocol.  Independently of the
model, the property's own predicate (yielded serialized_bytes == the list of
constructed messages, in order, filtered by the independently evaluated filter)
is evaluated on the implementation's output of every case that lies in the
property's domain.
"""
import contextlib
import glob
import io
import json
import os
import re
import struct
import subprocess
import sys
import tempfile

import lib

LEVEL = 'proof'
SIG = b'BUFR'
STOP = b'7777'
RUNAWAY = 5000          # a generator that yields more than this is looping

FILTERS = [
    '${%edition} == 4',
    '${%edition} == 3',
    '${%n_subsets} > 1',
    '${%data_category} == 2',
    '${%data_category} == 0',
    '${%is_compressed}',
    '${%length} > 500',
    '${%edition} == 3 and ${%n_subsets} == 1',
    'True',
    'False',
    '${%nonexistent} == 1',          # evaluates to a false value on every message
    # verdicts that hinge on a metadata value that is itself false (0, False): it must reach the expression as it is
    '${%is_compressed} == False',
    '${%data_category} != 0',
    '${%data_category} in (0, 5)',
    '${%update_sequence_number} == 0 and ${%edition} >= 3',
]
FILTERS_RAISING = ['1 // (${%edition} - 4) > 0']   # ZeroDivisionError on edition 4: not a library error


@contextlib.contextmanager
def quiet():
    """The decoder and the scanner print diagnostics; keep them off the check's output."""
    out, err = sys.stdout, sys.stderr
    sys.stdout = io.StringIO()
    sys.stderr = io.StringIO()
    try:
        yield
    finally:
        sys.stdout, sys.stderr = out, err


# ---------------------------------------------------------------------------
# messages
# ---------------------------------------------------------------------------
def split_reference(s):
    """Independent splitter used only to cut the sample files into messages:
    at each b'BUFR' read the 3-byte declared length; accept the piece when it
    ends with b'7777'; continue behind it.  Returns [(offset, piece)]."""
    out, i = [], 0
    while True:
        i = s.find(SIG, i)
        if i < 0:
            return out
        if i + 8 <= len(s):
            n = int.from_bytes(s[i + 4:i + 7], 'big')
            piece = s[i:i + n]
            if n >= 12 and len(piece) == n and piece.endswith(STOP):
                out.append((i, piece))
                i += n
                continue
        i += 1


def craft_message(edition, n_subsets, compressed, text, category=0, dnp=False):
    """A message whose payload is a 160-bit character element (001015) holding
    `text` — used to put b'BUFR' and b'7777' inside message bodies."""
    from pybufrkit.encoder import Encoder
    sec0 = ["BUFR", 0, edition]
    if edition == 4:
        sec1 = [0, 0, 0, 0, 0, False, "0000000", category, 0, 0, 33, 0, 2020, 1, 1, 0, 0, 0]
    else:
        sec1 = [0, 0, 0, 0, 0, False, "0000000", category, 0, 33, 0, 20, 1, 1, 0, 0, 0]
    if dnp:
        # a 221YYY "data not present" span: 012001 and 010004 carry no data, 001001 (class 1) does
        sec3 = [0, "00000000", n_subsets, True, compressed, "000000", [1015, 221003, 12001, 10004, 1001, 2001]]
        sec4 = [0, "00000000", [[text, 11 + i, 1] for i in range(n_subsets)]]
    else:
        sec3 = [0, "00000000", n_subsets, True, compressed, "000000", [1015, 12001]]
        sec4 = [0, "00000000", [[text, 270.5 + i] for i in range(n_subsets)]]
    msg = json.loads(json.dumps([sec0, sec1, sec3, sec4, ["7777"]]))
    with quiet():
        return bytes(Encoder().process(json.dumps(msg)).serialized_bytes)


def describe(piece, name):
    """Standalone decode of a candidate pool message; None if it is not a
    self-contained valid message."""
    from pybufrkit.decoder import Decoder
    try:
        with quiet():
            m = Decoder().process(piece)
    except Exception:
        return None
    if bytes(m.serialized_bytes) != piece or m.length.value != len(piece):
        return None
    if m.data_category.value == 11:
        return None     # table-definition messages change global table state: excluded (notes/C11.md)
    return {'name': name, 'bytes': piece, 'edition': m.edition.value,
            'compressed': bool(m.is_compressed.value), 'n_subsets': m.n_subsets.value,
            'category': m.data_category.value,
            'inner_sig': piece.find(SIG, 1) >= 0, 'inner_stop': piece.find(STOP, 0, len(piece) - 4) >= 0}


_POOL_CACHE = {}


def build_pool(ctx, max_len=None):
    """Valid single messages: cut from /repo/tests/data and /repo/tests/benchmark_data
    (each verified by a standalone decode) plus crafted ones with b'BUFR'/b'7777'
    in the payload.  Returns (pool, whole_files)."""
    if max_len is None:
        max_len = ctx.n(4000, 60000)
    key = (lib.REPO, max_len)
    if key in _POOL_CACHE:
        return _POOL_CACHE[key]
    pool, files, seen = [], [], set()
    paths = sorted(glob.glob(os.path.join(lib.REPO, 'tests', 'data', '*.bufr')) +
                   glob.glob(os.path.join(lib.REPO, 'tests', 'benchmark_data', '*.bufr')))
    max_file = ctx.n(30000, 250000)
    for p in paths:
        s = open(p, 'rb').read()
        if len(s) > max_file:
            continue
        name = os.path.basename(p)
        pieces = split_reference(s)
        descs = []
        for k, (off, piece) in enumerate(pieces):
            if len(piece) > max_len:
                descs.append(None)
                continue
            if piece in seen:
                descs.append('dup')
                continue
            d = describe(piece, '%s#%d' % (name, k))
            descs.append(d)
            if d is not None:
                seen.add(piece)
                pool.append(d)
        if len(pieces) >= 2 and len(s) <= ctx.n(8000, 80000):
            files.append({'name': name, 'stream': s, 'pieces': pieces})
    texts = ['xxBUFRxx7777', 'BUFR', '7777BUFR7777', 'BUFRBUFRBUFRBUFRBUFR', 'BUF', 'plain', 'B7777UFR BUFR']
    for ed in (3, 4):
        for comp in (False, True):
            for ns in (1, 2, 3):
                text = texts[(ed + 2 * ns + (3 if comp else 0)) % len(texts)]
                b = craft_message(ed, ns, comp, text, category=(2 if ns == 2 else 0))
                d = describe(b, 'crafted-ed%d-%s-n%d-%s' % (ed, 'c' if comp else 'u', ns, text))
                if d is None:
                    raise RuntimeError('crafted message does not decode standalone')
                d['crafted'] = True
                pool.append(d)
    for ed, comp, ns in ((4, False, 1), (3, False, 2), (4, True, 2)):
        b = craft_message(ed, ns, comp, 'data not present', dnp=True)
        d = describe(b, 'crafted-dnp-ed%d-%s-n%d' % (ed, 'c' if comp else 'u', ns))
        if d is None:
            raise RuntimeError('crafted 221 message does not decode standalone')
        d['crafted'] = True
        pool.append(d)
    # a valid message whose body holds a COMPLETE, decodable message (as the octets of a 205YYY character field, which
    # start on an octet boundary): the signature inside begins something that would decode if the scanner ever looked at it
    import pipeline
    inner = [d['bytes'] for d in pool if d.get('crafted') and len(d['bytes']) <= 250][:3]
    for i, ib in enumerate(inner):
        b = pipeline.frame_message([205000 + len(ib)], 1, False, 33, ib)
        d = describe(b, 'crafted-nested-%d' % i)
        if d is None:
            raise RuntimeError('nested crafted message does not decode standalone')
        d['crafted'] = True
        d['nested'] = True
        pool.append(d)
    _POOL_CACHE[key] = (pool, files)
    return pool, files


# --- damage (C12) -----------------------------------------------------------
def section_offsets(b):
    """Byte offsets of sections 1, (2), 3, 4 of a valid edition 3/4 message."""
    ed = b[7]
    o1 = 8
    l1 = int.from_bytes(b[o1:o1 + 3], 'big')
    has2 = bool(b[o1 + (9 if ed == 4 else 7)] & 0x80)
    o = o1 + l1
    o2 = None
    if has2:
        o2 = o
        o += int.from_bytes(b[o:o + 3], 'big')
    o3 = o
    l3 = int.from_bytes(b[o3:o3 + 3], 'big')
    o4 = o3 + l3
    l4 = int.from_bytes(b[o4:o4 + 3], 'big')
    return {'o1': o1, 'o2': o2, 'o3': o3, 'l3': l3, 'o4': o4, 'l4': l4}


DAMAGES = ['stop', 'undef-element', 'undef-sequence', 'sec4-len-minus', 'sec4-len-plus', 'sec3-len-minus',
           'sec3-len-plus']


def damage(b, kind, rng):
    """Damage a valid message; the declared total length (and the byte count) stay intact."""
    b = bytearray(b)
    so = section_offsets(b)
    if kind == 'stop':
        b[-4:] = rng.choice([b'XXXX', b'7778', b'\x00\x00\x00\x00', b'777 ',
                             b'\xff\xff\xff\xff', b'77\x807', b'\xc3\x28\xa0\xa1'])      # incl. bytes that are not UTF-8
    elif kind in ('undef-element', 'undef-sequence'):
        n_desc = (so['l3'] - 7) // 2
        if n_desc <= 0:
            b[-4:] = b'XXXX'             # no descriptor to replace: damage the stop signature instead
            return bytes(b)
        k = rng.randrange(n_desc)
        code = 0x3FFF if kind == 'undef-element' else 0xFFFF       # 063255 / 363255
        b[so['o3'] + 7 + 2 * k: so['o3'] + 9 + 2 * k] = struct.pack('>H', code)
    elif kind.startswith('sec4-len') or kind.startswith('sec3-len'):
        o, l = (so['o4'], so['l4']) if kind.startswith('sec4') else (so['o3'], so['l3'])
        k = rng.choice([1, 2, 3, 4, 7])
        n = l - k if kind.endswith('minus') else l + k
        n = max(n, 0)
        b[o:o + 3] = n.to_bytes(3, 'big')
    else:
        raise ValueError(kind)
    return bytes(b)


# ---------------------------------------------------------------------------
# separators
# ---------------------------------------------------------------------------
GTS = [b'\x01\r\r\n001\r\r\nISMD01 OKPR 271200\r\r\n', b'\r\r\n\x03', b'\r\r\n\x03\x01\r\r\n002\r\r\nIUSD40 OKLI 271100\r\r\n',
       b'****0000001234****\n', b'\n']


def noise(rng, n, alphabet=None):
    b = bytes(rng.choice(alphabet) if alphabet else rng.randrange(256) for _ in range(n))
    while SIG in b:
        b = b.replace(SIG, b'BUF_')
    return b


def separator(rng):
    """Returns (kind, bytes); never contains b'BUFR'."""
    kind = rng.choice(['empty', 'empty', 'gts', 'gts', 'noise', 'sigchars', 'partial', 'partial', 'xxBUF', 'stop'])
    if kind == 'empty':
        return kind, b''
    if kind == 'gts':
        return kind, rng.choice(GTS)
    if kind == 'noise':
        return kind, noise(rng, rng.randrange(1, 40))
    if kind == 'sigchars':
        return kind, noise(rng, rng.randrange(1, 24), b'BUFR7')
    if kind == 'partial':
        return kind, noise(rng, rng.randrange(0, 6)) + rng.choice([b'B', b'BU', b'BUF', b'BBUF', b'BUBUF', b'BUFBUF'])
    if kind == 'xxBUF':
        return kind, b'xxBUF'
    return kind, rng.choice([b'7777', b'777', b'77777777'])


# ---------------------------------------------------------------------------
# observing the decoder; running both sides
# ---------------------------------------------------------------------------
class Observer:
    """What the real decoder does at every signature offset of a stream."""

    def __init__(self, stream):
        from pybufrkit.decoder import Decoder
        self.s = stream
        self.dec = Decoder()
        self.offsets = []
        i = stream.find(SIG)
        while i >= 0:
            self.offsets.append(i)
            i = stream.find(SIG, i + 1)
        self._obs = {}
        self._filt = {}
        self.cat11 = False

    def decode(self, off, info_only):
        key = (off, info_only)
        if key not in self._obs:
            try:
                with quiet():
                    m = self.dec.process(self.s[off:], start_signature=None, info_only=info_only)
                if m.data_category.value == 11 and m.n_subsets.value > 0:
                    self.cat11 = True
                self._obs[key] = ('o%d.%d' % (len(m.serialized_bytes), m.length.value), m)
            except Exception as e:
                self._obs[key] = ('e%d' % lib.err_code(e), None)
        return self._obs[key]

    def filt(self, off, expr):
        if expr is None:
            return '-'
        key = (off, expr)
        if key not in self._filt:
            from pybufrkit.script import ScriptRunner
            tok, m = self.decode(off, True)
            if m is None:
                self._filt[key] = '-'
            else:
                try:
                    with quiet():
                        v = ScriptRunner(expr, mode='eval').run(m)
                    self._filt[key] = 't' if v else 'f'
                except Exception as e:
                    self._filt[key] = 'e%d' % lib.err_code(e)
        return self._filt[key]

    def entries(self, expr):
        return ['%d/%s/%s/%s/k/k' % (off, self.decode(off, False)[0], self.decode(off, True)[0],
                                     self.filt(off, expr)) for off in self.offsets]


def fmt_outcome(pieces, err):
    return 'n=%d %s end %s' % (len(pieces), ','.join((p.hex() or '-') for p in pieces) if pieces else '_',
                               'none' if err is None else ('err %s' % err))


def impl_run(stream, info_only, continue_on_error, filter_expr, seconds=120):
    """generate_bufr_message on the implementation: (pieces, error class or None)."""
    from pybufrkit.decoder import Decoder, generate_bufr_message
    out, err = [], None
    try:
        with lib.time_limit(seconds):
            with quiet():
                for m in generate_bufr_message(Decoder(), stream, info_only=info_only,
                                               continue_on_error=continue_on_error, filter_expr=filter_expr):
                    out.append(bytes(m.serialized_bytes))
                    if len(out) > RUNAWAY:
                        err = 'runaway'
                        break
    except lib.CaseTimeout:
        err = 'timeout'
    except Exception as e:
        err = lib.err_code(e)
    return out, err


def model_line(case, obs):
    return 'scan %d %d %d %s %s' % (int(case['info_only']), int(case['continue_on_error']),
                                    int(bool(case['filter'])), case['stream'].hex() or '-',
                                    ' '.join(obs.entries(case['filter'])))


def short_case(case):
    """JSON-serialisable replay record of a case."""
    return {'name': case.get('name', ''), 'stream_hex': case['stream'].hex(), 'info_only': case['info_only'],
            'continue_on_error': case['continue_on_error'], 'filter': case['filter'],
            'expect_hex': None if case.get('expect') is None else [p.hex() for p in case['expect']],
            'expect_err': case.get('expect_err'), 'tags': case.get('tags', []),
            'in_domain': case.get('in_domain', False),
            **({'kind': case['kind']} if 'kind' in case else {}),
            **({'allow_tabledef': True} if case.get('allow_tabledef') else {})}


def case_from_record(rec):
    return {'name': rec.get('name', ''), 'stream': bytes.fromhex(rec['stream_hex']),
            'info_only': rec['info_only'], 'continue_on_error': rec['continue_on_error'],
            'filter': rec.get('filter'),
            'expect': None if rec.get('expect_hex') is None else [bytes.fromhex(h) for h in rec['expect_hex']],
            'expect_err': rec.get('expect_err'), 'tags': rec.get('tags', []),
            'in_domain': rec.get('in_domain', False),
            **({'kind': rec['kind']} if 'kind' in rec else {}),
            **({'allow_tabledef': True} if rec.get('allow_tabledef') else {})}


def run_stream_cases(ctx, cases, kind='stream-scan', enforce_expect=True, prop_note='', classify=None):
    """Run cases on the implementation and on the extracted model.

    case: dict(stream=bytes, info_only, continue_on_error, filter=str|None,
               expect=[bytes]|None, expect_err=int|None, tags=[...], name, in_domain)
    * implementation output != model output  -> ctx.compare (violation; the
      property predicate decides between a failing input and a broken tie);
    * expect given and enforce_expect: the predicate "yielded serialized_bytes ==
      expect and the generator ended with expect_err" is evaluated on the
      implementation's output of every such case (violation kind '<kind>-predicate').
    Returns the list of (case, impl_outcome_string, model_outcome_string)."""
    observers = {}
    lines, obs_list = [], []
    for c in cases:
        o = observers.get(c['stream'])
        if o is None:
            o = observers[c['stream']] = Observer(c['stream'])
        obs_list.append(o)
        lines.append(model_line(c, o))
    mouts = lib.run_model_sharded(lines, shards=12) if len(lines) >= 2000 else lib.run_model(lines)
    results = []
    for c, o, line, mo in zip(cases, obs_list, lines, mouts):
        looping = mo.endswith('end err 99')     # the model ran out of fuel: no progress (declared length 0)
        pieces, err = impl_run(c['stream'], c['info_only'], c['continue_on_error'], c['filter'],
                               seconds=3 if looping else 120)
        io_ = fmt_outcome(pieces, err)
        if looping and err in ('runaway', 'timeout'):
            # both sides make no progress; recorded, outside the given properties
            ctx.dist['non-terminating (declared length 0): model out of fuel, implementation loops'] += 1
            ctx.count((c['stream'], c['info_only'], c['continue_on_error'], c['filter']), False)
            continue
        tags = c.get('tags', [])
        for t in tags:
            ctx.dist[t] += 1
        ctx.dist['mode:%s%s%s' % ('info' if c['info_only'] else 'full', '+coe' if c['continue_on_error'] else '',
                                  '+filter' if c['filter'] else '')] += 1
        ctx.dist['n_yielded:%d' % min(len(pieces), 7)] += 1
        if err is not None:
            ctx.dist['ended-with:err%s' % err] += 1
        n_spurious = len(o.offsets) - len(c.get('starts', o.offsets))
        if o.cat11 and not c.get('allow_tabledef'):
            ctx.dist['skipped-table-definition-message'] += 1
            continue
        nontrivial = len(c['stream']) > 0 and len(o.offsets) > 0
        ctx.count((c['stream'], c['info_only'], c['continue_on_error'], c['filter']), nontrivial)

        def holds(c=c, pieces=pieces, err=err):
            if c.get('expect') is None:
                return True      # outside the property's domain: only the tie is at stake
            if c.get('expect_err') == 'lib':      # any PyBufrKitError
                return pieces == c['expect'] and err in (1, 2, 3, 4, 5, 6)
            return pieces == c['expect'] and err == c.get('expect_err')

        rec = short_case(c)
        if len(rec['stream_hex']) > 40000:
            rec['stream_hex_truncated'] = True
        ok = ctx.compare(rec, io_ if len(io_) < 400 else _digest(io_), mo if len(mo) < 400 else _digest(mo),
                         kind=c.get('kind', kind), holds=holds,
                         extra={'theorems': 'scan_exact scan_filter scan_continue_skips scan_stops_at_error '
                                            'non_library_error_escapes (coq/properties/C11.v) rest on this tie' + prop_note})
        if c.get('expect') is not None and enforce_expect and ok and not holds():
            vrec = {'kind': c.get('kind', kind) + '-predicate', 'case': rec, 'impl': io_[:400],
                    'expected_n': len(c['expect']), 'expect_err': c.get('expect_err')}
            if classify is not None:
                # names the cause when the difference is exactly a recorded finding (never hides one)
                vrec.update(classify(c, pieces, err) or {})
            ctx.violation(vrec, 'yielded messages differ from the constructed ones: %s' % c.get('name', ''))
        if c.get('in_domain') and 'msgs' in c:
            # the theorems' hypotheses about the decoder, observed on this very stream: at every message start
            # the full decode consumes and declares len(m); the metadata-only decode declares len(m) and
            # leaves exactly the stop signature unread
            hyp = all(o.decode(off, False)[0] == 'o%d.%d' % (len(m), len(m)) and
                      o.decode(off, True)[0] == 'o%d.%d' % (len(m) - 4, len(m)) and m.endswith(STOP) and m.startswith(SIG)
                      for off, m in zip(c['starts'], c['msgs']))
            ctx.dist['decoder hypotheses H1-H3 observed at every message start' if hyp
                     else 'decoder hypotheses NOT met at a message start'] += 1
            if not hyp:
                ctx.violation({'kind': 'stream-decoder-hypothesis', 'case': rec, 'no_failing_input': True,
                               'broken': 'hypotheses of scan_exact/scan_filter about Decoder.process (suffix independence, '
                                         'consumed = declared = actual length): a decoder-level property (C04/C12) fails here'},
                              'decoder hypotheses not met in ' + c.get('name', ''))
        if c.get('expect') is not None:
            ctx.dist['in-domain (theorem applies)' if c.get('in_domain') else 'predicate-checked'] += 1
        else:
            ctx.dist['tie-only (outside the property domain)'] += 1
        if nontrivial and c.get('expect'):
            ctx.sample({'name': c.get('name'), 'mode': [c['info_only'], c['continue_on_error'], c['filter']],
                        'stream_len': len(c['stream']), 'signature_offsets': o.offsets[:12],
                        'impl': io_[:160], 'model': mo[:160]}, limit=4)
        results.append((c, io_, mo))
    return results


def _digest(s):
    import hashlib
    return '%s...[%d chars, blake2b %s]' % (s[:200], len(s), hashlib.blake2b(s.encode(), digest_size=8).hexdigest())


# ---------------------------------------------------------------------------
# case generators
# ---------------------------------------------------------------------------
def filter_verdict(msg_bytes, expr, _cache={}):
    """The filter's value on a message, evaluated on its own (independent of any stream)."""
    key = (msg_bytes, expr)
    if key not in _cache:
        from pybufrkit.decoder import Decoder
        from pybufrkit.script import ScriptRunner
        with quiet():
            m = Decoder().process(msg_bytes, info_only=True)
            by_script = bool(ScriptRunner(expr, mode='eval').run(m))
        # the same verdict WITHOUT the script machinery: every ${%name} replaced by the value of the first parameter of
        # that name in section order (None when there is none), then the plain Python expression
        names = re.findall(r'\$\{%([A-Za-z_0-9]+)\}', expr)
        env = {}
        for nm in names:
            val = None
            for sec in m.sections:
                hit = [p for p in sec if p.name == nm]
                if hit:
                    val = hit[0].value
                    break
            env['_md_' + nm] = val
        plain = re.sub(r'\$\{%([A-Za-z_0-9]+)\}', lambda mo: '_md_' + mo.group(1), expr)
        try:
            direct = bool(eval(plain, {}, env))
        except Exception:
            direct = by_script          # an expression that raises: the scanner's exception classes are checked elsewhere
        _cache[key] = direct
        if direct != by_script:
            FILTER_DISAGREEMENTS.append({'expr': expr, 'message': msg_bytes.hex()[:400], 'script': by_script, 'direct': direct,
                                         'values': {k: repr(v) for k, v in env.items()}})
    return _cache[key]


FILTER_DISAGREEMENTS = []


def assemble(rng, msgs, trailing=True, lead=True):
    """sep0 + m1 + sep1 + ... ; returns (stream, starts, separator kinds)."""
    kinds = []
    k0, sep0 = separator(rng) if lead else ('empty', b'')
    kinds.append(k0)
    parts, starts, pos = [sep0], [], len(sep0)
    for i, m in enumerate(msgs):
        starts.append(pos)
        parts.append(m)
        pos += len(m)
        if i < len(msgs) - 1 or trailing:
            k, sp = separator(rng)
            kinds.append(k)
            parts.append(sp)
            pos += len(sp)
    return b''.join(parts), starts, kinds


def pick_messages(rng, pool, n):
    crafted = [d for d in pool if d.get('crafted')]
    real = [d for d in pool if not d.get('crafted')]
    out = []
    for _ in range(n):
        out.append(rng.choice(crafted) if (rng.random() < 0.45 or not real) else rng.choice(real))
    return out


def modes_for(rng, n_modes, filters=FILTERS):
    """(info_only, continue_on_error, filter) combinations for one stream."""
    allm = [(io_, coe, f) for io_ in (False, True) for coe in (False, True) for f in [None] + filters]
    base = [(False, rng.random() < 0.5, None), (True, rng.random() < 0.5, None)]
    f = rng.choice(filters)
    base += [(False, rng.random() < 0.5, f), (True, rng.random() < 0.5, rng.choice(filters))]
    if n_modes >= len(allm):
        return allm
    extra = [m for m in allm if m not in base]
    rng.shuffle(extra)
    return (base + extra)[:n_modes]


def make_clean_cases(ctx, pool, n_streams, n_modes=4):
    """Streams of 0..6 valid messages and signature-free separators, all in the
    domain of scan_exact / scan_filter: expect = the messages (filtered)."""
    rng = ctx.rng
    cases = []
    for k in range(n_streams):
        n = rng.choice([0, 1, 1, 2, 2, 3, 3, 4, 5, 6])
        ds = pick_messages(rng, pool, n)
        msgs = [d['bytes'] for d in ds]
        stream, starts, kinds = assemble(rng, msgs, trailing=rng.random() < 0.8)
        tags = ['clean', 'n_messages:%d' % n] + ['sep:' + kk for kk in sorted(set(kinds))]
        if any(d['inner_sig'] for d in ds):
            tags.append('body-contains-BUFR')
        if any(d['inner_stop'] for d in ds):
            tags.append('body-contains-7777')
        if len({d['edition'] for d in ds}) > 1:
            tags.append('mixed-editions')
        if any(d['compressed'] for d in ds) and not all(d['compressed'] for d in ds):
            tags.append('mixed-compression')
        for io_, coe, f in modes_for(rng, n_modes):
            exp = [m for m in msgs if (f is None or filter_verdict(m, f))]
            cases.append({'name': 'clean-%d' % k, 'stream': stream, 'starts': starts, 'msgs': msgs, 'info_only': io_,
                          'continue_on_error': coe, 'filter': f, 'expect': exp, 'expect_err': None,
                          'tags': tags, 'in_domain': True})
    return cases


def make_damaged_cases(ctx, pool, n_streams, kinds=None, modes=None):
    """Streams of 2..5 messages with a subset of them damaged (total length
    intact).  expect = what C12 demands: with continue_on_error (full mode) the
    undamaged messages, in order; without it the messages before the first
    damaged one and then a LIBRARY error (expect_err = 'lib': checked by class
    membership by the caller).  In metadata-only mode damage behind section 3 is
    invisible; expect is None there (tie only)."""
    rng = ctx.rng
    kinds = kinds or DAMAGES
    cases = []
    small = [d for d in pool if len(d['bytes']) <= 3000]
    for k in range(n_streams):
        n = rng.randrange(2, 6)
        ds = pick_messages(rng, small, n)
        dmg = [rng.random() < 0.4 for _ in ds]
        if not any(dmg):
            dmg[rng.randrange(n)] = True
        lead = True
        if k % 3 == 0 and n >= 3:
            # the stream begins with its longest message, undamaged, directly at offset 0; a shorter damaged one follows,
            # then a good one (what "skip the damaged message" must then use is the damaged message's OWN length)
            ds.sort(key=lambda d: -len(d['bytes']))
            dmg = [False, True] + [rng.random() < 0.2 for _ in ds[2:]]
            dmg[-1] = False
            lead = False
        msgs, dk = [], []
        for d, bad in zip(ds, dmg):
            if bad:
                kind = rng.choice(kinds)
                msgs.append(damage(d['bytes'], kind, rng))
                dk.append(kind)
            else:
                msgs.append(d['bytes'])
        stream, starts, skinds = assemble(rng, msgs, trailing=rng.random() < 0.8, lead=lead)
        tags = ['damaged', 'n_messages:%d' % n, 'n_damaged:%d' % sum(dmg)] + ['damage:' + x for x in sorted(set(dk))]
        if not lead:
            tags.append('long-first-at-offset-0')
        good = [m for m, bad in zip(msgs, dmg) if not bad]
        first_bad = dmg.index(True)
        for io_, coe in (modes or [(False, True), (False, False), (True, True), (True, False)]):
            if io_:
                exp, exp_err = None, None
            elif coe:
                exp, exp_err = good, None
            else:
                exp, exp_err = msgs[:first_bad], 'lib'
            cases.append({'name': 'damaged-%d' % k, 'stream': stream, 'starts': starts, 'info_only': io_,
                          'continue_on_error': coe, 'filter': None, 'expect': exp, 'expect_err': exp_err,
                          'tags': tags, 'damage_kinds': dk, 'damaged': dmg, 'in_domain': False})
    # a damaged message whose body holds a complete decodable message, LAST in the stream with nothing behind it, alone,
    # and in the middle: skipping it means skipping its whole declared length, wherever it stands
    nested = [d for d in pool if d.get('nested')]
    plain = [d for d in small if not d.get('nested')]
    for j, d in enumerate(nested):
        for kind in [x for x in ('stop', 'undef-element', 'sec4-len-minus', 'sec3-len-minus') if x in kinds]:
            bad = damage(d['bytes'], kind, rng)
            g1, g2 = rng.choice(plain)['bytes'], rng.choice(plain)['bytes']
            for shape, msgs, dmg in (('last', [g1, bad], [False, True]), ('alone', [bad], [True]),
                                     ('middle', [g1, bad, g2], [False, True, False])):
                stream, starts, skinds = assemble(rng, msgs, trailing=(shape == 'middle' and j % 2 == 0), lead=(shape != 'alone'))
                tags = ['damaged', 'damaged-body-holds-a-whole-message', 'nested-' + shape, 'damage:' + kind]
                good = [m for m, b2 in zip(msgs, dmg) if not b2]
                for io_, coe in (modes or [(False, True), (False, False), (True, True), (True, False)]):
                    if io_:
                        exp, exp_err = None, None
                    elif coe:
                        exp, exp_err = good, None
                    else:
                        exp, exp_err = msgs[:dmg.index(True)], 'lib'
                    cases.append({'name': 'nested-%s-%d-%s' % (shape, j, kind), 'stream': stream, 'starts': starts, 'info_only': io_,
                                  'continue_on_error': coe, 'filter': None, 'expect': exp, 'expect_err': exp_err,
                                  'tags': tags, 'damage_kinds': [kind], 'damaged': dmg, 'in_domain': False})
    return cases


def make_offdomain_cases(ctx, pool, n_streams):
    """Separators that DO contain the signature, truncated last messages, noise
    only: outside the theorems' domain, the tie model/implementation still has
    to hold (this is what reaches 'advance by one' and the nested except)."""
    rng = ctx.rng
    cases = []
    small = [d for d in pool if len(d['bytes']) <= 3000]
    for k in range(n_streams):
        shape = rng.choice(['sig-in-separator', 'truncated-last', 'noise-only', 'bare-signatures', 'header-only',
                            'wrong-total-length', 'wrong-total-length'])
        ds = pick_messages(rng, small, rng.randrange(0, 4))
        msgs = [d['bytes'] for d in ds]
        if shape == 'sig-in-separator':
            parts = []
            for m in msgs + [b'']:
                parts.append(rng.choice([b'BUFR', b'xBUFRx', b'BUFRBUFR', b'BUFR\x00\x00\x10\x04', b'BUFR\x00\x00\x00\x04',
                                         noise(rng, 5) + b'BUFR' + noise(rng, rng.randrange(0, 30))]))
                parts.append(m)
            stream = b''.join(parts)
        elif shape == 'truncated-last':
            if not msgs:
                msgs = [rng.choice(small)['bytes']]
            last = msgs[-1]
            stream = b''.join(msgs[:-1]) + last[:rng.randrange(1, len(last))]
        elif shape == 'wrong-total-length':
            # section 0 declares a total length that is not the real one; everything else intact
            if not msgs:
                msgs = [rng.choice(small)['bytes']]
            parts = []
            for m in msgs:
                if rng.random() < 0.6:
                    n = max(0, len(m) + rng.choice([-9, -4, -1, 1, 2, 4, 5, 30] * 4 + [-len(m)]))
                    m = m[:4] + n.to_bytes(3, 'big') + m[7:]
                    if rng.random() < 0.5:      # ... and make the full decode fail: the recovery path sees the wrong length
                        m = damage(m, rng.choice(['undef-element', 'undef-sequence']), rng)
                parts.append(m)
                parts.append(rng.choice([b'', b'', b'\r\r\n', b'BUF']))
            parts.append(rng.choice(small)['bytes'])
            stream = b''.join(parts)
        elif shape == 'noise-only':
            stream = noise(rng, rng.randrange(0, 60)) + rng.choice([b'', b'B', b'BUF'])
        elif shape == 'bare-signatures':
            stream = b''.join(rng.choice([b'BUFR', b'BUF', b'R', b'7777', b'\x00']) for _ in range(rng.randrange(1, 12)))
        else:
            m = rng.choice(small)['bytes']
            stream = b'xx' + m[:8] + b'yy' + b''.join(msgs)
        for io_, coe, f in [(False, False, None), (False, True, None), (True, True, None), (True, False, None),
                            (rng.random() < 0.5, True, rng.choice(FILTERS + FILTERS_RAISING))]:
            cases.append({'name': 'offdomain-%d' % k, 'stream': stream, 'info_only': io_, 'continue_on_error': coe,
                          'filter': f, 'expect': None, 'expect_err': None, 'tags': ['off-domain', 'shape:' + shape],
                          'in_domain': False})
    return cases


def make_file_cases(ctx, files, n_modes):
    """Whole multi-message sample files (real GTS bulletins)."""
    rng = ctx.rng
    cases = []
    for f in files:
        s, pieces = f['stream'], f['pieces']
        # in the property's domain iff what lies between the pieces holds no signature and every piece is valid
        gaps, pos = [], 0
        for off, p in pieces:
            gaps.append(s[pos:off])
            pos = off + len(p)
        gaps.append(s[pos:])
        clean = all(SIG not in g for g in gaps) and all(describe(p, '') is not None for _, p in pieces)
        for io_, coe, flt in modes_for(rng, n_modes):
            exp = None
            if clean:
                exp = [p for _, p in pieces if (flt is None or filter_verdict(p, flt))]
            cases.append({'name': 'file:' + f['name'], 'stream': s, 'starts': [o for o, _ in pieces],
                          'info_only': io_, 'continue_on_error': coe, 'filter': flt, 'expect': exp,
                          'expect_err': None, 'tags': ['sample-file', 'n_messages:%d' % min(len(pieces), 7)],
                          'in_domain': clean})
    return cases


# ---------------------------------------------------------------------------
# bytes.find
# ---------------------------------------------------------------------------
def run_find_cases(ctx, n):
    rng = ctx.rng
    lines, metas = [], []
    fixed = [(b'BUFR', b'BUBUFBUFR', 0), (b'BUFR', b'BUFR', 1), (b'BUFR', b'xBUFBUFRBUFR', 5), (b'BUFR', b'', 0),
             (b'BUFR', b'BUF', 0), (b'', b'ab', 2), (b'', b'ab', 3), (b'BUFR', b'BUFR', 4), (b'BUFR', b'BUFR', 5)]
    for sub, s, st in fixed:
        metas.append((sub, s, st))
    for _ in range(n):
        s = bytes(rng.choice(b'BUFRx') for _ in range(rng.randrange(0, 14)))
        sub = SIG if rng.random() < 0.7 else bytes(rng.choice(b'BUFR') for _ in range(rng.randrange(0, 4)))
        metas.append((sub, s, rng.randrange(0, len(s) + 3)))
    for sub, s, st in metas:
        lines.append('sfind %s %s %d' % (sub.hex() or '-', s.hex() or '-', st))
    mouts = lib.run_model(lines)
    for (sub, s, st), line, mo in zip(metas, lines, mouts):
        io_ = str(s.find(sub, st))
        ctx.count(line, nontrivial=len(s) >= 4)
        ctx.dist['bytes.find'] += 1
        if io_ != '-1':
            ctx.dist['bytes.find:found'] += 1
        ctx.compare({'cmd': line}, io_, mo, kind='stream-find')


# ---------------------------------------------------------------------------
# command line (bonus): split and info on one stream
# ---------------------------------------------------------------------------
def run_cli_sample(ctx, case):
    stream, expect = case['stream'], case['expect']
    os.makedirs(os.path.join(lib.VERIF, 'replays'), exist_ok=True)
    with tempfile.TemporaryDirectory(prefix='c11cli_', dir=os.path.join(lib.VERIF, 'replays')) as d:
        p = os.path.join(d, 'in.bufr')
        with open(p, 'wb') as f:
            f.write(stream)
        env = dict(os.environ, PYTHONPATH=lib.REPO)
        r = subprocess.run([sys.executable, '-c', 'import sys; from pybufrkit import main; sys.exit(main())',
                            'split', p], stdout=subprocess.PIPE, stderr=subprocess.PIPE, env=env, timeout=300)
        outs = []
        i = 0
        while os.path.exists('%s.%d' % (p, i)):
            outs.append(open('%s.%d' % (p, i), 'rb').read())
            i += 1
        ctx.count(('cli-split', stream))
        ctx.dist['cli-split'] += 1
        if r.returncode != 0 or outs != expect or b''.join(outs) != b''.join(expect):
            ctx.violation({'kind': 'stream-cli-split', 'case': short_case(case), 'rc': r.returncode,
                           'n_files': len(outs), 'stderr': r.stderr.decode(errors='replace')[-400:]},
                          'pybufrkit split wrote %d files, %d messages expected' % (len(outs), len(expect)))
        r = subprocess.run([sys.executable, '-c', 'import sys; from pybufrkit import main; sys.exit(main())',
                            'info', '-c', p], stdout=subprocess.PIPE, stderr=subprocess.PIPE, env=env, timeout=300)
        ctx.count(('cli-info-count', stream))
        ctx.dist['cli-info-count'] += 1
        tail = r.stdout.decode(errors='replace').strip().split(':')[-1].strip()
        if r.returncode != 0 or tail != str(len(expect)):
            ctx.violation({'kind': 'stream-cli-info-count', 'case': short_case(case), 'rc': r.returncode,
                           'stdout': r.stdout.decode(errors='replace')[-200:]},
                          'pybufrkit info -c counted %r, %d expected' % (tail, len(expect)))


# ---------------------------------------------------------------------------
# extraction cross-check
# ---------------------------------------------------------------------------
def coq_bytes(b):
    return '[' + ';'.join('%d' % x for x in b) + ']%N'


def coq_result_pair(tok):
    if tok[0] == 'o':
        c, d = tok[1:].split('.')
        return '(Ok (%s%%N, %s%%N))' % (c, d)
    return '(Err %s)' % COQ_ERR[int(tok[1:])]


COQ_ERR = {1: 'EBitRead', 2: 'EUnknownDescriptor', 3: 'EPathExpr', 4: 'EMetadataExpr', 5: 'EQuery', 6: 'ELib',
           7: 'EAssert', 8: 'EValue', 9: 'EIndex', 10: 'EKey', 11: 'EType', 12: 'EAttr', 13: 'EStopIter',
           14: 'ENotImpl', 15: 'EOther', 99: 'EFuel'}


def coq_filt(tok):
    if tok == 't':
        return '(Ok true)'
    if tok == 'f':
        return '(Ok false)'
    if tok == '-':
        return '(Err EOther)'
    return '(Err %s)' % COQ_ERR[int(tok[1:])]


def cross_check(ctx, results, limit):
    items = []
    for c, io_, mo in results:
        if len(items) >= limit:
            break
        if len(c['stream']) > 260 or not mo.startswith('n='):
            continue
        o = Observer(c['stream'])
        ents = []
        for e in o.entries(c['filter']):
            off, f, i, fl, _, _ = e.split('/')
            ents.append('(Entry %s%%N %s %s %s (Ok tt) (Ok tt))' % (off, coq_result_pair(f), coq_result_pair(i), coq_filt(fl)))
        term = 'tbl_generate [%s] %s %s %s %s' % (
            ';'.join(ents), str(c['info_only']).lower(), str(c['continue_on_error']).lower(),
            str(bool(c['filter'])).lower(), coq_bytes(c['stream']))
        head, _, ending = mo.partition(' end ')
        n, _, plist = head.partition(' ')
        pieces = [] if plist == '_' else [bytes.fromhex('' if h == '-' else h) for h in plist.split(',')]
        exp_end = 'None' if ending == 'none' else 'Some %s' % COQ_ERR[int(ending.split()[1])]
        items.append((term, '([%s], %s)' % (';'.join(coq_bytes(p) if p else '[]' for p in pieces), exp_end)))
    n, err = lib.vm_cross_check('C11', 'From PBK Require Import Base Stream.', items)
    ctx.extra['extraction_cross_check_vm_compute'] = n
    if err:
        ctx.violation({'kind': 'extraction-cross-check', 'error': err, 'no_failing_input': True,
                       'broken': 'OCaml extraction of Stream.v disagrees with vm_compute'})


# ---------------------------------------------------------------------------
def load_corpus():
    out = []
    for p in sorted(glob.glob(os.path.join(lib.VERIF, 'corpus', 'C11', '*.json'))):
        for rec in json.load(open(p)):
            c = case_from_record(rec)
            c['tags'] = ['corpus'] + [t for t in c['tags'] if t != 'corpus']
            out.append(c)
    return out


def run(ctx):
    ctx.rule = ('Streams are built from valid single messages (cut from /repo/tests/data and /repo/tests/benchmark_data and each '
                'verified by a standalone decode; plus Encoder-made messages, editions 3/4, compressed or not, 1..3 subsets, whose '
                'character payload contains BUFR and 7777), 0..6 per stream, joined by separators (empty, GTS headers, random bytes, '
                'strings over {B,U,F,R,7}, partial signatures B/BU/BUF/xxBUF, 7777; BUFR never inside a separator), with or without '
                'trailing bytes; whole multi-message sample files; streams with damaged messages (stop signature, undefined '
                'descriptor, section-3/4 length +-k; total length intact); off-domain streams (signature inside separators, truncated '
                'last message, noise only). Each stream runs in several of the 48 modes info_only x continue_on_error x '
                '{no filter, 11 metadata filters}. For every b"BUFR" offset the real decoder is observed (full and metadata-only) and '
                'the table drives the extracted Stream.tbl_generate; its output (hex pieces + ending) must equal what '
                'generate_bufr_message yields. On every in-domain case the predicate "yielded serialized_bytes == constructed messages '
                '(filtered by the filter evaluated on each message alone), in order, no error" is evaluated on the implementation '
                'output. A case is non-trivial when the stream holds at least one signature; distinct = distinct '
                '(stream, mode).')
    pool, files = build_pool(ctx)
    ctx.dist['pool-messages'] = len(pool)
    ctx.dist['pool-crafted'] = sum(1 for d in pool if d.get('crafted'))
    ctx.dist['pool-edition3'] = sum(1 for d in pool if d['edition'] == 3)
    ctx.dist['pool-edition4'] = sum(1 for d in pool if d['edition'] == 4)
    ctx.dist['pool-compressed'] = sum(1 for d in pool if d['compressed'])
    ctx.dist['pool-inner-BUFR'] = sum(1 for d in pool if d['inner_sig'])
    if len(pool) < 20 or not any(d['inner_sig'] for d in pool):
        raise RuntimeError('message pool too small (%d): harness defect' % len(pool))

    # corpus first
    corpus = load_corpus()
    run_stream_cases(ctx, corpus, kind='stream-scan')

    run_find_cases(ctx, ctx.n(1500, 20000))

    clean = make_clean_cases(ctx, pool, ctx.n(260, 1700), n_modes=ctx.n(4, 5))
    res_clean = run_stream_cases(ctx, clean, kind='stream-scan')

    fcases = make_file_cases(ctx, files, ctx.n(3, 8))
    run_stream_cases(ctx, fcases, kind='stream-scan')

    # C12 half: only the tie is enforced here (the C12 check owns the predicate; D10)
    dam = make_damaged_cases(ctx, pool, ctx.n(60, 300))
    run_stream_cases(ctx, dam, kind='stream-scan-damaged', enforce_expect=False)

    off = make_offdomain_cases(ctx, pool, ctx.n(70, 300))
    run_stream_cases(ctx, off, kind='stream-scan-offdomain')

    # command line on one in-domain sample with >= 2 messages
    for c in clean:
        if len(c['expect']) >= 2 and c['filter'] is None and len(c['stream']) < 20000:
            try:
                run_cli_sample(ctx, dict(c, expect=[m for m in c['expect']]))
            except subprocess.TimeoutExpired:
                ctx.violation({'kind': 'stream-cli-timeout', 'case': short_case(c)})
            break

    # ... and on a stream of the crafted messages whose bodies contain b'BUFR' and b'7777'
    inner = [d['bytes'] for d in pool if d.get('crafted') and (b'7777' in d['bytes'][8:-4] or b'BUFR' in d['bytes'][4:])][:5]
    if len(inner) >= 2:
        stream = b'\r\r\n'.join(inner) + b'\r\r\n\x03'
        try:
            run_cli_sample(ctx, {'name': 'cli-inner-signatures', 'stream': stream, 'expect': inner, 'info_only': False,
                                 'continue_on_error': False, 'filter': None, 'tags': ['cli', 'body-contains-7777'],
                                 'in_domain': True})
        except subprocess.TimeoutExpired:
            ctx.violation({'kind': 'stream-cli-timeout', 'case': {'name': 'cli-inner-signatures'}})

    # end to end: the extracted scanner over the concrete framing decoder (StreamFrame.v), nothing observed
    from props import c11_e2e
    c11_e2e.run(ctx, damaged=False)

    cross_check(ctx, res_clean + [], ctx.n(12, 60))

    for need in ('body-contains-BUFR', 'sep:partial', 'mixed-editions', 'damaged', 'off-domain',
                 'mode:info', 'mode:full+coe'):
        if not any(k.startswith(need) and v > 0 for k, v in ctx.dist.items()):
            raise RuntimeError('generator never produced %r: harness defect' % need)
    ctx.exhaustive = False
    ctx.assumptions = [
        'process/process_info are abstract in the theorems; their hypotheses (suffix independence, consumed = declared = '
        'actual length, messages start with BUFR, metadata-only decode leaves only the stop signature unread) are what the '
        'decoder-level properties C04/C12/C17 establish — here they are observed per case, not proved',
        'table-definition messages (data category 11) are excluded from the generated streams (they change global table state)',
        'the filter expression is evaluated by the real ScriptRunner; the model receives its truth value per offset',
    ]


def replay(ctx, rec):
    if 'cmd' in rec.get('case', {}):
        line = rec['case']['cmd']
        mo = lib.run_model([line])[0]
        _, sub, s, st = line.split(' ')
        io_ = str(bytes.fromhex('' if s == '-' else s).find(bytes.fromhex('' if sub == '-' else sub), int(st)))
        if io_ != mo:
            ctx.violation({'kind': rec.get('kind', 'replay'), 'case': rec['case'], 'impl': io_, 'model': mo})
        return {'cmd': line, 'impl': io_, 'model': mo, 'agree': io_ == mo}
    c = case_from_record(rec['case'])
    res = run_stream_cases(ctx, [c], kind=rec.get('kind', 'stream-scan'))
    if not res:
        return {'skipped': True}
    _, io_, mo = res[0]
    return {'name': c['name'], 'impl': io_[:600], 'model': mo[:600], 'agree': io_ == mo,
            'expect_n': None if c['expect'] is None else len(c['expect'])}
