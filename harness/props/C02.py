"""C02 — encoding produces the canonical FM-94 bit stream for the given values."""
import lib
import bufrlib as B
import pipeline as P

LEVEL = 'proof'


def canonical_columns_hold(ibits, shape, nsub):
    """The property's own predicate on the IMPLEMENTATION's compressed data bits, given only the shape of the
    columns (element widths, from SpecC.layout_cols): every numeric column is base, 6-bit width, increments with
      - width 0 and no increments, or
      - some present increment (not all ones), the smallest present increment 0 (the base is the minimum), the
        width the least k with max + 2 < 2^k, and not all subsets equal (width 0 is used exactly then);
    character columns: width 0, or width = the field length in octets and a NUL base; 203YYY: width 0.
    Returns (ok, detail, nbits_consumed)."""
    pos = 0

    def take(n):
        nonlocal pos
        if pos + n > len(ibits):
            raise IndexError
        b = ibits[pos:pos + n]
        pos += n
        return int(b, 2) if n else 0

    try:
        for k, tok in enumerate(shape):
            kind = tok[0]
            if kind == 'r':
                w = int(tok[1:])
                take(w)
                if take(6) != 0:
                    return False, 'column %d (%s): reference value with increments' % (k, tok), pos
                continue
            w, wd = [int(x) for x in tok[1:].split('.')]
            if kind == 's':
                base = take(8 * w)
                nd = take(6)
                if nd != wd:
                    return False, 'column %d (%s): width field %d' % (k, tok, nd), pos
                if nd:
                    if nd != w or base != 0:
                        return False, 'column %d (%s): character increments of %d octets, base %x' % (k, tok, nd, base), pos
                    incs = [take(8 * nd) for _ in range(nsub)]
                    if len(set(incs)) == 1:
                        return False, 'column %d (%s): equal strings written with increments' % (k, tok), pos
                continue
            base = take(w)
            nd = take(6)
            if nd != wd:
                return False, 'column %d (%s): width field %d' % (k, tok, nd), pos
            if nd == 0:
                continue
            incs = [take(nd) for _ in range(nsub)]
            ones = 2 ** nd - 1
            present = [d for d in incs if d != ones]
            if not present:
                return False, 'column %d (%s): all increments missing but width %d' % (k, tok, nd), pos
            if min(present) != 0:
                return False, 'column %d (%s): base is not the minimum (least increment %d)' % (k, tok, min(present)), pos
            if (max(present) + 2).bit_length() != nd:
                return False, 'column %d (%s): width %d for spread %d' % (k, tok, nd, max(present)), pos
            if len(present) == nsub and len(set(present)) == 1:
                return False, 'column %d (%s): all subsets equal but width %d (stored-equal finding)' % (k, tok, nd), pos
    except IndexError:
        return False, 'data section too short for the columns', pos
    return True, '', pos


def apply_short_strings(c):
    """Every character entry becomes a very short string (the same in all subsets for odd seeds: an all-equal column)."""
    pool = [b'ALPHA', b'A', b'OSLO 2', b'', b'xy']
    for j, toks in enumerate(c['val_toks']):
        for i, t in enumerate(toks):
            if t[0] == 'y':
                nb = pool[(c['seed'] + (0 if c['seed'] % 2 else j) + i) % len(pool)]
                toks[i] = 'y' + (nb.hex() or '-')
                c['py_vals'][j][i] = nb


def apply_strip_equal(c):
    """Every character entry becomes 'OS' behind a per-subset prefix of white space: equal after str.strip(), different bytes."""
    pads = [b'', b' ', b'  ', b'\t', b'\n ', b'\x0c']
    o = c['seed'] % 5
    for j, toks in enumerate(c['val_toks']):
        for i, t in enumerate(toks):
            if t[0] == 'y':
                n = len(bytes.fromhex(t[1:])) if t != 'y-' else 0
                if n >= 4:
                    nb = (pads[(j + o) % len(pads)] + b'OS')[:n]
                    toks[i] = 'y' + nb.hex()
                    c['py_vals'][j][i] = nb


def run(ctx):
    ctx.rule = ('same template/value space as C01 (values in the representable range of each field or missing; per-subset '
                'varying replication factors and bitmaps); each (template, values) pair is encoded by Encoder().process and by '
                'the extracted model (Encode.encode_uncompressed = the concatenation of the fields in template order): the '
                'data section must be bit-for-bit the model\'s bits followed only by zero padding; refusals must have the '
                'same error class; the implementation\'s own decoder must read the values back (round-trip predicate). '
                'non-trivial = operator or replication in the template.')
    n = ctx.n(500, 12000)
    cases = P.build_cases(ctx, n, gen_kwargs=dict(size=7), nsub_choices=(1, 1, 2, 3), compressed=(False, False, True),
                          versions=(33, 33, 33, 25, 19, 28), editions=(4, 4, 3, 2))
    # character fields wider than 32 bytes (205YYY / 208YYY), to be filled with much shorter strings below
    rng = ctx.rng
    for k in range(ctx.n(16, 300)):
        y1, y2 = rng.choice([33, 40, 48, 64, 100]), rng.choice([34, 40, 50])
        ids = rng.choice([[1015, 205000 + y1, 12101, 208000 + y2, 1019, 208000, 20003],
                          [205000 + y1, 1001, 205000 + y2],
                          [208000 + y2, 1015, 1019, 208000, 1015, 12101],
                          [101002, 205000 + y1, 1001]])
        comp = rng.random() < 0.35
        cases.append({'ids': ids, 'version': 33, 'edition': 4, 'nsub': rng.choice([1, 2, 3]), 'compressed': comp, 'forced': '-',
                      'seed': rng.randrange(1, 2 ** 32), 'maxrep': 3, 'features': {'wide-character-field': 1}, 'shared': comp})
    # descriptor lists beginning with class 00 elements (F = 0, X = 0: the first octet of section 3's list is zero)
    for k in range(ctx.n(10, 100)):
        head = rng.choice([[1], [10, 11, 12], [30], [4, 5], [1, 30]])
        ids = head + [rng.choice([1001, 12001, 2001])] + ([101002, 1] if rng.random() < 0.3 else [])
        comp = rng.random() < 0.3
        cases.append({'ids': ids, 'version': 33, 'edition': rng.choice([4, 3, 2]), 'nsub': rng.choice([1, 2]), 'compressed': comp,
                      'forced': '-', 'seed': rng.randrange(1, 2 ** 32), 'maxrep': 3, 'features': {'class-00-first': 1}, 'shared': comp})
    cases.append({'ids': [12001], 'version': 33, 'edition': 4, 'nsub': 2, 'compressed': True, 'forced': '-', 'seed': 32,
                  'maxrep': 3, 'features': {'witness-D32': 1}, 'shared': True})
    # the same character element under two widths (208YYY then the Table B width, or the reverse), MISSING in both places:
    # each field is all ones over its own width
    for k in range(ctx.n(8, 80)):
        st = [1015, 1019, 1011, 1018][(k // 2) % 4]              # for every element the narrower field comes first once
        y = rng.choice([2, 4, 5, 9])
        ids = [208000 + y, st, 208000, st, 1001] if k % 2 == 0 else [st, 208000 + y, st, 208000, 1001]
        # first in the list: encoded before any other message of this run has touched these elements
        cases.insert(k, {'ids': ids, 'version': 33, 'edition': 4, 'nsub': rng.choice([1, 2]), 'compressed': False, 'forced': '-',
                         'seed': rng.randrange(1, 2 ** 32), 'maxrep': 3, 'features': {'missing-string-two-widths': 1}, 'shared': False})
    # compressed character columns whose entries differ ONLY in leading blanks / other surrounding white space (equal after
    # str.strip()): they differ, so the column has a width and every entry is written
    for k in range(ctx.n(8, 80)):
        st = [1015, 1019, 1011, 1018][k % 4]
        ids = [[1001, st, 12101], [208006, st, 208000, st], [st, st], [205004, st]][(k // 4) % 4]
        cases.append({'ids': ids, 'version': 33, 'edition': 4, 'nsub': rng.choice([2, 3, 4]), 'compressed': True, 'forced': '-',
                      'seed': rng.randrange(1, 2 ** 32), 'maxrep': 3, 'features': {'strings-equal-after-strip': 1}, 'shared': True})
    # very wide character fields (66..200 octets under 205YYY / 208YYY) holding very short strings: more than 64 octets of
    # blank padding in one field
    for k in range(ctx.n(9, 60)):
        y = [66, 100, 130, 200, 90, 255][k % 6]
        ids = [[208000 + y, 1015, 208000, 1001], [205000 + y, 1001], [208000 + y, 1019, 1015, 208000, 12101]][(k // 2) % 3]
        comp = k % 2 == 1
        cases.append({'ids': ids, 'version': 33, 'edition': 4, 'nsub': rng.choice([2, 3]) if comp else rng.choice([1, 2]),
                      'compressed': comp, 'forced': '-', 'seed': rng.randrange(1, 2 ** 32), 'maxrep': 3,
                      'features': {'short-string-in-very-wide-field': 1}, 'shared': comp})
    P.attach_templates(cases)
    P.run_gen(cases)
    for c in cases:
        if c['features'].get('short-string-in-very-wide-field') and c.get('val_toks'):
            apply_short_strings(c)
            c['short_strings'] = True
    for c in cases:
        if c['features'].get('strings-equal-after-strip') and c.get('val_toks'):
            apply_strip_equal(c)
            c['strip_equal'] = True
    for c in cases:
        if c['features'].get('missing-string-two-widths') and c.get('val_toks'):
            for j, toks in enumerate(c['val_toks']):
                for i, t in enumerate(toks):
                    if t[0] == 'y' or (t == 'n' and i < len(toks) - 1):
                        toks[i] = 'n'
                        c['py_vals'][j][i] = None
            c['missing_strings'] = True
    import random
    for c in cases:
        if c.get('missing_strings') or c.get('strip_equal') or c.get('short_strings'):
            continue
        if c.get('val_toks') and (c['features'].get('wide-character-field') or rng.random() < 0.3):
            # derived from the case's own seed so that a replay varies the same strings the same way
            if P.vary_string_lengths(c, random.Random(c['seed'] ^ 0x5A5A5A)):
                c['features']['strings-shorter-or-longer-than-field'] = 1
                c['vary_strings'] = True
    # D32 witness: two values that differ before scaling and are stored as the same integer (273.15 K, 273.151 K)
    for c in cases:
        if c['features'].get('witness-D32') and c.get('val_toks'):
            c['val_toks'] = [['d27315:2'], ['d273151:3']]
            c['py_vals'] = [[B.model_value_to_python(x) for x in s2] for s2 in c['val_toks']]
    P.run_encode(cases)
    P.run_decode(cases)
    # compressed data: the canonical column layout (SpecC.canonical_bits_c) next to the encoder model
    comp = [c for c in cases if c.get('py_vals') is not None and c['compressed']]
    for c, o in zip(comp, lib.run_model_sharded(['canonc %s %s' % (B.subsets_to_model(c['py_vals']), c['toks']) for c in comp])):
        c['model_canonc'] = o
    for c in cases:
        if not c.get('toks') or not c.get('gen', '').startswith('ok'):
            ctx.dist['generator-rejected'] += 1
            continue
        for f in c['features']:
            ctx.dist[f] += 1
        ctx.dist['edition-%d' % c['edition']] += 1
        nontriv = any(i >= 100000 for i in c['ids'])
        ctx.count((tuple(c['ids']), c['seed'], c['edition']), nontriv)
        case = {'ids': c['ids'], 'seed': c['seed'], 'forced': c['forced'], 'nsub': c['nsub'],
                'version': c['version'], 'edition': c['edition'], 'compressed': c['compressed'],
                'vary_strings': bool(c.get('vary_strings')), 'missing_strings': bool(c.get('missing_strings')),
                'strip_equal': bool(c.get('strip_equal')), 'short_strings': bool(c.get('short_strings'))}
        eq, detail = P.compare_encode(c)
        if c['impl_enc'][0] == 'ok':
            # section 3: the descriptor list is packed F (2 bits) X (6) Y (8), 16 bits each, nothing dropped
            d3 = B.section3_descriptor_bytes(c['impl_enc'][3])
            want = B.pack_descriptors(c['ids'])
            if d3[:len(want)] != want or len(d3) - len(want) not in (0, 1) or any(d3[len(want):]):
                ctx.violation({'kind': 'C02-descriptor-packing', 'case': case, 'section3': d3.hex(), 'expected': want.hex()},
                              'section 3 does not hold the descriptor list F/X/Y packed: %s vs %s' % (d3.hex()[:60], want.hex()[:60]))
        if c['impl_enc'][0] != 'ok':
            ctx.dist['encoder-refused-%d' % c['impl_enc'][1]] += 1
        canon_ok, canon_why = True, ''
        if c['compressed'] and c['impl_enc'][0] == 'ok':
            # C02_encode_canonical_compressed on the extracted code: the layout accepts and gives the same bits as the
            # encoder model; and the implementation's bits satisfy the canonical-column predicate
            mc = c.get('model_canonc', 'err -1')
            if eq:
                ceq, cdetail = P.compare_encode(dict(c, model_enc=mc))
                ctx.dist['compressed-layout-compared'] += 1
                if not ceq:
                    ctx.violation({'kind': 'C02-compressed-layout-mismatch', 'case': case, 'detail': cdetail, 'canonc': mc[:60],
                                   'no_failing_input': True, 'broken': 'SpecC.canonical_bits_c / EncodeC.encode_compressed (extraction)'},
                                  'ids=%s canonical column layout differs from the encoder: %s' % (c['ids'], cdetail))
            if mc.startswith('ok '):
                shape = mc.split(' ')[2]
                shape = [] if shape == '-' else shape.split(',')
                canon_ok, canon_why, used = canonical_columns_hold(P.hex_to_bits(c['impl_enc'][1], c['impl_enc'][2]), shape, c['nsub'])
                for tok in shape:
                    ctx.dist['column-' + ('numeric-width0' if tok[0] == 'n' and tok.endswith('.0') else
                                          'numeric-increments' if tok[0] == 'n' else
                                          'string-width0' if tok[0] == 's' and tok.endswith('.0') else
                                          'string-increments' if tok[0] == 's' else 'refval')] += 1
                if canon_ok and used != int(mc.split(' ')[1].split(':')[1]):
                    canon_ok, canon_why = False, 'columns end at bit %d, layout has %s bits' % (used, mc.split(' ')[1].split(':')[1])
                if eq and not canon_ok:
                    ctx.violation(dict({'kind': 'C02-compressed-column-not-canonical', 'case': case, 'detail': canon_why},
                                       **({'cause': 'equal-after-scaling'} if 'stored-equal finding' in canon_why else {})),
                                  'ids=%s %s' % (c['ids'], canon_why))
        if not eq:
            rt = P.roundtrip_holds(c) and canon_ok
            rec = {'kind': 'C02-encode-mismatch', 'case': case, 'detail': detail + (' | ' + canon_why if canon_why else ''),
                   'property_predicate_holds_on_impl': rt}
            if rt:
                rec['no_failing_input'] = True
                rec['broken'] = 'correspondence Encode.encode_uncompressed / Encoder.process'
            ctx.violation(rec, 'ids=%s %s' % (c['ids'], detail))
        elif c['impl_enc'][0] == 'ok' and not c['features'].get('witness-D32') and not P.roundtrip_holds(c):
            i = c.get('impl_dec')
            # D12: the decoder's 1-ulp error for negative scales is C01's finding, not an encoder fault
            dq, dd = P.compare_decode(c)
            if 'ulp=1' in dd and 'scale=-' in dd:
                ctx.dist['decode-1ulp (C01 D12)'] += 1
            else:
                rec = {'kind': 'C02-roundtrip', 'case': case}
                if i and i[0] == 'err' and i[1] == 9 and P.wide_field_cause(c):
                    # D26: the encoder wrote a field wider than 64 bits (e.g. 204YYY widths accumulating through a
                    # sequence that opens 204 without closing it), the decoder cannot read it back
                    rec['cause'] = 'field-wider-than-64-bits'
                ctx.violation(rec, 'decode(encode(v)) != canon(v), ids=%s' % c['ids'])
        if nontriv:
            ctx.sample({'ids': c['ids'], 'nsub': c['nsub'], 'values_subset0': c['val_toks'][0][:10],
                        'model_bits': c.get('model_enc', '')[:80]}, limit=3)
    ctx.partial = ['width0_iff_stored_equal_refuted: the all-equal test is made on the values given, before scaling; two '
                   'different values with the same stored integer (273.15, 273.151 at scale 1) give a column of width 2 with '
                   'zero increments instead of width 0 (outside this generator\'s value space; notes/specc.md)',
                   'encode_canonical (encoder bits = concat of Spec field bits) is by construction of Encode.v: the model IS the '
                   'field-by-field layout; decode_encode relates it to the decoder']
    ctx.assumptions = ['IEEE-754 steps of the encoder are modelled exactly in Float53.v (round-to-nearest-even multiply, round half even); '
                       'pow10 for negative scales assumed correctly rounded (checked against CPython by C03)']


def replay(ctx, rec):
    c = rec['case']
    cases = [{'ids': c['ids'], 'version': c.get('version', 33), 'edition': c.get('edition', 4), 'nsub': c['nsub'],
              'compressed': c.get('compressed', False), 'forced': c['forced'], 'seed': c['seed'], 'maxrep': 3, 'features': {},
              'shared': c.get('compressed', False)}]
    P.attach_templates(cases); P.run_gen(cases)
    if c.get('missing_strings'):
        for j, toks in enumerate(cases[0]['val_toks']):
            for i, t in enumerate(toks):
                if t[0] == 'y':
                    toks[i] = 'n'
                    cases[0]['py_vals'][j][i] = None
    if c.get('vary_strings'):
        import random
        P.vary_string_lengths(cases[0], random.Random(c['seed'] ^ 0x5A5A5A))
    if c.get('strip_equal'):
        apply_strip_equal(cases[0])
    if c.get('short_strings'):
        apply_short_strings(cases[0])
    P.run_encode(cases); P.run_decode(cases)
    eq, detail = P.compare_encode(cases[0])
    if not eq:
        ctx.violation({'kind': 'C02-encode-mismatch', 'case': c, 'detail': detail}, detail)
    rt = P.roundtrip_holds(cases[0]) if cases[0].get('impl_enc', ('',))[0] == 'ok' else None
    if rt is False:
        rec2 = {'kind': 'C02-roundtrip', 'case': c}
        i = cases[0].get('impl_dec')
        if i and i[0] == 'err' and i[1] == 9 and P.wide_field_cause(cases[0]):
            rec2['cause'] = 'field-wider-than-64-bits'
        ctx.violation(rec2, 'decode(encode(v)) != canon(v), ids=%s' % c['ids'])
    return {'equal': eq, 'detail': detail, 'roundtrip': rt}
