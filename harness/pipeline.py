"""harness/pipeline.py — generate (template, values) cases and push them through
the implementation and the extracted model: gen -> encode -> decode.

A case is a dict:
  ids, version, edition, nsub, compressed, forced, seed, maxrep       (the input)
  toks            driver tokens of the template as the implementation built it
  gen             'ok <subsets>' | 'err k' from the model's generator
  py_vals         the generated values as Python objects (what the encoder is given)
  impl_enc        ('ok', data_bits_hex, nbits_data, message_bytes) | ('err', code)
  model_enc       driver line
  impl_dec        ('ok', values, labels, links) | ('err', code)
  model_dec       driver line
"""
from __future__ import annotations

import os

import lib
import bufrlib as B
from tmplgen import TemplateGen


def build_cases(ctx, n, gen_kwargs=None, nsub_choices=(1, 1, 2, 3), compressed=False,
                versions=(33,), editions=(4,), maxrep=3, shared=None):
    """Draw n templates; returns the list of case dicts (input part only)."""
    rng = ctx.rng
    cases = []
    for _ in range(n):
        kw = dict(gen_kwargs or {})
        version = rng.choice(versions)
        g = TemplateGen(rng, version=version, **kw)
        nsub = rng.choice(nsub_choices)
        comp = compressed if isinstance(compressed, bool) else rng.choice(compressed)
        cases.append({
            'ids': g.ids, 'version': version, 'edition': rng.choice(editions), 'nsub': nsub,
            'compressed': comp, 'forced': g.forced_str(), 'seed': rng.randrange(1, 2 ** 32),
            'maxrep': maxrep, 'features': dict(g.features),
            'shared': comp if shared is None else shared,
        })
        c = cases[-1]
        segs = getattr(g, 'bitmap_segments', [])
        if segs and nsub >= 2 and not c['shared'] and not comp and rng.random() < 0.7:
            # uncompressed: every subset gets its OWN bitmaps (the bits of each definition permuted: same number of
            # zero bits, so the template's marker / class-33 runs still fit), drawn from the case's seed
            # (one forced string per subset, joined by '||': travels with the case record, so replays rebuild it)
            c['forced'] = '||'.join(forced_variants(g.forced, segs, nsub, c['seed']))
            c['features']['bitmaps-differ-between-subsets'] = 1
    return cases


def forced_variants(forced, segs, nsub, seed):
    import random
    r = random.Random(seed ^ 0xB17B17)
    out = []
    for j in range(nsub):
        f = {k: list(v) for k, v in forced.items()}
        if j > 0:
            bits, pos, new = f.get(31031, []), 0, []
            for n in segs:
                seg = bits[pos:pos + n]
                r.shuffle(seg)
                new += seg
                pos += n
            f[31031] = new + bits[pos:]
        out.append(';'.join('%d=%s' % (k, '.'.join(str(x) for x in v)) for k, v in sorted(f.items())) or '-')
    return out


def attach_templates(cases):
    """Build each template with the implementation's tables; serialise for the driver."""
    for c in cases:
        try:
            with lib.time_limit(20):
                t = B.template_from_ids(c['ids'], c['version'])
                c['toks'] = B.template_tokens(t)
        except Exception as e:
            c['toks'] = None
            c['template_error'] = lib.err_code(e)
            if os.environ.get('VERIF_DEBUG_TMPL'):
                with open(os.environ['VERIF_DEBUG_TMPL'], 'a') as f:
                    f.write('%s %s %r\n' % (sorted(c.get('features', {})), c['ids'], e))
    return cases


def run_gen(cases):
    live = [c for c in cases if c.get('toks')]
    lines, owner = [], []
    for c in live:
        if '||' in c['forced']:
            for j, f in enumerate(c['forced'].split('||')):
                lines.append('gen %d %d %s 0 1 %s' % ((c['seed'] + 7919 * j) % 2 ** 32 or 1, c['maxrep'], f, c['toks']))
                owner.append(c)
        else:
            lines.append('gen %d %d %s %d %d %s' % (c['seed'], c['maxrep'], c['forced'], 1 if c['shared'] else 0,
                                                    c['nsub'], c['toks']))
            owner.append(c)
    outs = lib.run_model_sharded(lines)
    parts = {}
    for c, o in zip(owner, outs):
        parts.setdefault(id(c), []).append(o)
    for c in live:
        os_ = parts[id(c)]
        if len(os_) == 1 and '||' not in c['forced']:
            o = os_[0]
        elif all(x.startswith('ok ') for x in os_):
            o = 'ok ' + '|'.join(x[3:] for x in os_)
        else:
            o = next(x for x in os_ if not x.startswith('ok '))
        c['gen'] = o
        if o.startswith('ok '):
            if '||' in c['forced']:
                toks = [B.parse_model_subsets(x[3:])[0] for x in os_]
            else:
                toks = B.parse_model_subsets(o[3:])
            c['val_toks'] = toks
            c['py_vals'] = [[B.model_value_to_python(x) for x in s] for s in toks]
    return cases


def impl_encode(c, **enc_kw):
    try:
        with lib.time_limit(30):
            m = B.encode_message(c['ids'], c['py_vals'], c['compressed'], c['edition'], c['version'], **enc_kw)
        b = m.serialized_bytes
        off, n = B.data_section_bits(b)
        return ('ok', b[off:off + n].hex(), n * 8, b)
    except lib.CaseTimeout:
        raise
    except Exception as e:
        return ('err', lib.err_code(e))


def run_encode(cases, **enc_kw):
    live = [c for c in cases if c.get('py_vals') is not None]
    for c in live:
        c['impl_enc'] = impl_encode(c, **enc_kw)
    # the model is given exactly what the implementation's encoder is given
    lines = ['%s %s %s' % ('encc' if c['compressed'] else 'encu', B.subsets_to_model(c['py_vals']), c['toks'])
             for c in live]
    for c, o in zip(live, lib.run_model_sharded(lines)):
        c['model_enc'] = o
    return cases


def frame_message(ids, nsub, compressed, mtv, data, centre=0, ltv=0):
    """A whole edition-4 message around given section-4 data octets, built WITHOUT the implementation's encoder."""
    sec1 = (22).to_bytes(3, 'big') + bytes([0]) + centre.to_bytes(2, 'big') + (0).to_bytes(2, 'big') + \
        bytes([0, 0, 0, 0, 0, mtv, ltv]) + (2020).to_bytes(2, 'big') + bytes([1, 1, 0, 0, 0])
    body3 = bytes([0]) + nsub.to_bytes(2, 'big') + bytes([0xC0 if compressed else 0x80]) + B.pack_descriptors(ids)
    sec3 = (len(body3) + 3).to_bytes(3, 'big') + body3
    body4 = bytes([0]) + data
    sec4 = (len(body4) + 3).to_bytes(3, 'big') + body4
    total = 8 + len(sec1) + len(sec3) + len(sec4) + 4
    return b'BUFR' + total.to_bytes(3, 'big') + bytes([4]) + sec1 + sec3 + sec4 + b'7777'


def model_message(c):
    """The message whose data section holds the MODEL encoder's bits (None when the model refuses the values)."""
    me = c.get('model_enc')
    if not me or not me.startswith('ok '):
        return None
    h, n = me.split(' ')[1].split(':')
    n = int(n)
    bits = hex_to_bits(h, n)
    bits += '0' * (-len(bits) % 8)
    data = bytes(int(bits[i:i + 8], 2) for i in range(0, len(bits), 8))
    return frame_message(c['ids'], c['nsub'], bool(c['compressed']), c.get('version', 33), data), n


def pad_hex(bits_hexn):
    """'<hex>:<n>' -> (hex padded to whole octets with zero bits, n)"""
    h, n = bits_hexn.split(':')
    return ('' if h == '-' else h), int(n)


def impl_decode(c, **dec_kw):
    e = c.get('impl_enc')
    if not e or e[0] != 'ok':
        return None
    try:
        with lib.time_limit(30):
            _, vals, labels, links = B.decode_impl(e[3], **dec_kw)
        return ('ok', vals, labels, links)
    except lib.CaseTimeout:
        raise
    except Exception as ex:
        return ('err', lib.err_code(ex))


def run_decode(cases, **dec_kw):
    live = [c for c in cases if c.get('impl_enc') and c['impl_enc'][0] == 'ok']
    for c in live:
        c['impl_dec'] = impl_decode(c, **dec_kw)
    lines = ['%s %d %s:%d %s' % ('decc' if c['compressed'] else 'decu', c['nsub'], c['impl_enc'][1] or '-',
                                 c['impl_enc'][2], c['toks']) for c in live]
    for c, o in zip(live, lib.run_model_sharded(lines)):
        c['model_dec'] = o
    return cases


def compare_decode(c):
    """Compare implementation and model decode of the same bits.
    Returns (equal, detail) — detail names the first difference."""
    i, m = c.get('impl_dec'), c.get('model_dec')
    if i is None or m is None:
        return True, 'not-run'
    if i[0] == 'err' or m.startswith('err'):
        same = (i[0] == 'err' and m == 'err %d' % i[1])
        if not same and i[0] == 'err' and i[1] == 6 and m == 'err 1':
            # running off the end of the data section: the model holds the data bits only (BitReadError), the
            # implementation reads on into the following octets and then reports the overrun of the declared
            # section length (PyBufrKitError): the same refusal, BitReadError being a PyBufrKitError
            same = True
        return same, 'error class impl=%r model=%r' % (i, m[:40])
    _, vals_s, labels_s, links_s, used = m.split(' ')
    mvals = B.parse_model_subsets(vals_s)
    mlabels, mlinks = B.parse_model_outs(labels_s, links_s)
    _, ivals, ilabels, ilinks = i
    if len(mvals) != len(ivals):
        return False, 'subset count'
    for si, (mv, iv) in enumerate(zip(mvals, ivals)):
        if len(mv) != len(iv):
            return False, 'subset %d: %d values vs %d' % (si, len(iv), len(mv))
        for k, (tok, v) in enumerate(zip(mv, iv)):
            ok, note = B.value_matches(tok, v)
            if not ok:
                return False, 'subset %d value %d: impl=%r model=%s %s' % (si, k, v, tok, note)
    if ilabels != mlabels:
        return False, 'labels impl=%r model=%r' % (ilabels[:1], mlabels[:1])
    if ilinks != mlinks:
        return False, 'links impl=%r model=%r' % (ilinks, mlinks)
    return True, ''


def canon_equal(gen_tok, v):
    """Does the decoded value v equal the generated value up to FM-94's canonical
    form (a missing character field reads back as 0xFF octets)?"""
    if gen_tok == 'n':
        return v is None or (isinstance(v, bytes) and len(v) > 0 and set(v) == {0xff})
    ok, _ = B.value_matches(gen_tok, v)
    if not ok and gen_tok[0] == 'y' and isinstance(v, bytes):
        # a string shorter (longer) than its field is blank padded (cut) to the field width
        g = bytes.fromhex('' if gen_tok[1:] == '-' else gen_tok[1:])
        return len(g) != len(v) and v == g.ljust(len(v), b' ')[:len(v)]
    if not ok and gen_tok[0] == 'd' and isinstance(v, float):
        # a generated decimal with more than 53 significant bits is not a double: what was encoded
        # is the nearest double, and what reads back may differ from the exact decimal by one
        # rounding of that magnitude (half a unit of the last scaled digit is far below it)
        m, s = gen_tok[1:].split(':')
        if abs(int(m)) >= 2 ** 52:
            exact = B.nearest_double(int(m), int(s))
            return abs(v - exact) <= abs(exact) * 2.0 ** -50
    return ok


def roundtrip_holds(c):
    """The implementation alone: decode(encode(values)) == canon(values)."""
    i = c.get('impl_dec')
    if not i or i[0] != 'ok':
        return False
    _, ivals, _, _ = i
    g = c['val_toks']
    if len(g) != len(ivals):
        return False
    for gv, iv in zip(g, ivals):
        if len(gv) != len(iv):
            return False
        for tok, v in zip(gv, iv):
            if not canon_equal(tok, v):
                return False
    return True


def vary_string_lengths(c, rng, lead_blanks=False):
    """Replace some generated strings (always full width) by shorter ones (incl. empty, one byte, 33+ bytes short) or
    longer ones: the encoder pads with blanks / cuts.  Changes c['val_toks'] and c['py_vals'] consistently."""
    changed = 0
    for si, toks in enumerate(c.get('val_toks') or []):
        for k, t in enumerate(toks):
            if t[0] != 'y' or t == 'y-' or rng.random() < 0.4:
                continue
            b = bytes.fromhex(t[1:])
            if set(b) == {0xff}:
                continue
            n = len(b)
            m = rng.choice([0, 1, max(n - 1, 0), max(n - 33, 0), max(n - 40, 0), n // 2, n + 3])
            nb = (b + b'xyz')[:m]
            if nb.endswith(b' ') or not nb:
                nb = nb.rstrip(b' ')
            if lead_blanks and nb and rng.random() < 0.5:
                # right-justified text: leading blanks are data (trailing ones are padding)
                nb = (b' ' * rng.randint(1, 3) + nb)[:max(n, 1)]
                nb = nb.rstrip(b' ') or b' x'[:n]
            if lead_blanks and n >= 2 and rng.random() < 0.35:
                # text that ENDS (before the blank padding, or at the very end of the field) in a character Python's
                # str.strip()/rstrip() would also remove but which is data here: TAB, CR LF, VT, FF, FS..US, NEL, NBSP
                tail = rng.choice([b'\t', b'\r\n', b'\x0b', b'\x0c', b'\x1c', b'\x1f', b'\x85', b'\xa0', b'\n'])
                keep = rng.choice([n - len(tail), max(len(nb) - len(tail), 0), rng.randint(0, n - len(tail))])
                nb = (nb + b'pqrstuvwxyz' * 8)[:max(keep, 0)].rstrip(b' ') + tail
                if rng.random() < 0.3:
                    nb = (tail + nb)[:n]                      # ... and one in front
                    nb = nb.rstrip(b' ') or tail[:n]
            toks[k] = 'y' + (nb.hex() or '-')
            c['py_vals'][si][k] = nb
            changed += 1
    return changed


def wide_field_cause(c):
    """D26: is the failure of decode(encode(v)) == v caused exactly by the 65-entry table of missing values
    (fields wider than 64 bits)?  The table is lengthened in place for one decode of this case; when the round trip
    then holds, the cause is named.  Never hides anything else: the probe only reads."""
    from pybufrkit import constants
    tab = constants.NUMERIC_MISSING_VALUES
    n0 = len(tab)
    tab.extend(2 ** i - 1 for i in range(n0, 1025))
    try:
        probe = dict(c)
        probe['impl_dec'] = impl_decode(probe)
        return roundtrip_holds(probe)
    except Exception:
        return False
    finally:
        del tab[n0:]


def hex_to_bits(h, n):
    if not h or h == '-':
        return ''
    return bin(int(h, 16))[2:].zfill(len(h) * 4)[:n]


def compare_encode(c):
    """Implementation's data section vs the model's encoder output.
    Returns (equal, detail).  The implementation pads the section with zero bits
    to whole (edition <= 3: an even number of) octets; the model's writer holds
    exactly the field bits."""
    ie, me = c.get('impl_enc'), c.get('model_enc')
    if ie is None or me is None:
        return True, 'not-run'
    if ie[0] == 'err' or me.startswith('err'):
        same = ie[0] == 'err' and me == 'err %d' % ie[1]
        return same, 'error class impl=%r model=%r' % (ie[:2], me[:30])
    parts = me.split(' ')
    mh, mn = parts[1].split(':')
    mn = int(mn)
    mbits = hex_to_bits(mh, mn)
    ibits = hex_to_bits(ie[1], ie[2])
    if len(ibits) < mn:
        return False, 'implementation wrote %d bits, model %d' % (len(ibits), mn)
    if ibits[:mn] != mbits:
        k = next(i for i in range(mn) if ibits[i] != mbits[i])
        return False, 'data bits differ at bit %d (of %d)' % (k, mn)
    pad = ibits[mn:]
    if set(pad) - {'0'}:
        return False, 'padding is not zero'
    if len(pad) >= 16 or (c['edition'] >= 4 and len(pad) >= 8):
        return False, 'padding of %d bits' % len(pad)
    # descriptors and links recorded by the encoder
    return True, ''
