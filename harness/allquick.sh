#!/bin/bash
# run every quick check with the given seed; summary lines only
seed=${1:-0}
cd "$(dirname "$0")/.."
for i in $(seq -w 1 20); do
  id=C$i
  out=$(VERIF_SEED=$seed ./check $id quick 2>&1); rc=$?
  echo "$out" | grep -E "^(VIOLATION|$id quick)" | cut -c1-300
  echo "  -> $id exit=$rc"
done
