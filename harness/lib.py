"""harness/lib.py — shared machinery of the checks.

A check (``./check <id> quick|thorough``) has two halves:

1. proof obligations: ``coq/properties/<id>.v`` is re-checked by coqc against the
   freshly built library; ``Print Assumptions`` output is parsed; the sources are
   grepped for forbidden vernacular.
2. correspondence: the extracted model (``model/main.native``) and the Python
   implementation imported from /repo run on the same generated inputs; any
   difference, and any input on which the property's predicate fails, is a
   violation (or a KNOWN-FINDING when listed in known_findings.json).
"""
from __future__ import annotations

import contextlib
import hashlib
import json
import os
import shutil
import random
import re
import signal
import subprocess
import sys
import time
import traceback
from collections import Counter

VERIF = os.path.dirname(os.path.dirname(os.path.abspath(__file__)))
REPO = os.environ.get('VERIF_REPO', '/repo')
COQ = os.path.join(VERIF, 'coq')
MODEL_BIN = os.path.join(VERIF, 'model', 'main.native')
DEFAULT_SEED = 20240601

ALLOWED_AXIOMS = {
    # std-lib axioms a theorem may depend on (each must also be named in DESIGN.md)
}

FORBIDDEN = re.compile(
    r'\bAdmitted\b|\badmit\b|^\s*(Local\s+|Global\s+|Polymorphic\s+)?(Axiom|Axioms|Parameter|Parameters|Conjecture)\b'
    r'|Unset\s+Guard|bypass_check|Admit\s+Obligations|type-in-type|impredicative-set|Unset\s+Universe\s+Checking|Unset\s+Positivity',
    re.M)

ERR_CODES = {
    'BitReadError': 1, 'UnknownDescriptor': 2, 'PathExprParsingError': 3,
    'MetadataExprParsingError': 4, 'QueryError': 5, 'PyBufrKitError': 6,
    'AssertionError': 7, 'ValueError': 8, 'IndexError': 9, 'KeyError': 10,
    'TypeError': 11, 'AttributeError': 12, 'StopIteration': 13,
    'NotImplementedError': 14,
}


def err_code(exc: BaseException) -> int:
    """Canonical class of a Python exception (class only, never the message)."""
    for cls in type(exc).__mro__:
        if cls.__name__ in ERR_CODES:
            # bitstring.CreationError etc. are ValueErrors: found through the MRO
            return ERR_CODES[cls.__name__]
    return 15


class CaseTimeout(Exception):
    pass


@contextlib.contextmanager
def time_limit(seconds: int):
    # the limits written at the call sites are what a case may take on an idle machine; on a loaded one (many checks
    # side by side) a case may run much longer without anything being wrong: the alarm is set generously, a genuine
    # non-termination is still reported, just later
    seconds = int(seconds * float(os.environ.get('VERIF_TIME_FACTOR', '6')))
    def handler(signum, frame):
        raise CaseTimeout('case exceeded %d s' % seconds)
    old = signal.signal(signal.SIGALRM, handler)
    signal.alarm(seconds)
    try:
        yield
    finally:
        signal.alarm(0)
        signal.signal(signal.SIGALRM, old)


def sh(cmd, timeout=3000, cwd=VERIF):
    p = subprocess.run(cmd, shell=True, cwd=cwd, stdout=subprocess.PIPE,
                       stderr=subprocess.STDOUT, timeout=timeout, text=True)
    return p.returncode, p.stdout


# --------------------------------------------------------------------------
# build and proof obligations
# --------------------------------------------------------------------------
def ensure_built():
    """Run setup.sh under a lock (cheap when everything is up to date)."""
    lock = os.path.join(VERIF, '.build.lock')
    rc, out = sh('flock %s ./setup.sh' % lock, timeout=3400)
    return rc == 0, out


def strip_comments(src: str) -> str:
    out, depth, i = [], 0, 0
    while i < len(src):
        if src.startswith('(*', i):
            depth += 1
            i += 2
        elif src.startswith('*)', i) and depth:
            depth -= 1
            i += 2
        else:
            if not depth:
                out.append(src[i])
            i += 1
    return ''.join(out)


def forbidden_scan():
    """grep all .v sources for forbidden vernacular (comments stripped)."""
    hits = []
    for root, _, files in os.walk(COQ):
        for f in files:
            if f.endswith('.v'):
                p = os.path.join(root, f)
                src = strip_comments(open(p).read())
                for m in FORBIDDEN.finditer(src):
                    hits.append('%s: %s' % (os.path.relpath(p, VERIF), m.group(0).strip()))
    return hits


def coq_check(prop_id: str) -> dict:
    """Re-check coq/properties/<id>.v; return the measured proof coverage."""
    t0 = time.time()
    built, build_out = ensure_built()
    vfile = os.path.join(COQ, 'properties', prop_id + '.v')
    res = {'obligations': 0, 'discharged': 0, 'theorems': [], 'assumptions': {},
           'ok': False, 'failed': [], 'forbidden': [], 'build_ok': built,
           'checker_cmd': '', 'log_tail': ''}
    if not os.path.exists(vfile):
        res['failed'].append('missing ' + vfile)
        return res
    src = strip_comments(open(vfile).read())
    thms = re.findall(r'^\s*(?:Theorem|Lemma|Corollary)\s+([A-Za-z0-9_\']+)', src, re.M)
    res['theorems'] = thms
    res['obligations'] = len(thms)
    outdir = os.path.join(COQ, 'properties', '.out', 'p%d' % os.getpid())     # one per process: checks may run concurrently
    os.makedirs(outdir, exist_ok=True)
    cmd = 'timeout 900 coqc -Q coq/theories PBK -o %s/%s.vo coq/properties/%s.v' % (
        os.path.relpath(outdir, VERIF), prop_id, prop_id)
    res['checker_cmd'] = ('./setup.sh (coq_makefile; make -j16: full .vo build) && mkdir -p coq/properties/.out && timeout 900 coqc '
                          '-Q coq/theories PBK -o coq/properties/.out/%s.vo coq/properties/%s.v' % (prop_id, prop_id))
    rc, out = sh(cmd, timeout=1000)
    shutil.rmtree(outdir, ignore_errors=True)
    res['log_tail'] = out[-1500:]
    # Print Assumptions blocks
    assumptions = {}
    cur = None
    blocks = re.split(r'(?m)^(?=Closed under the global context|Axioms:)', out)
    pa = re.findall(r'Print\s+Assumptions\s+([A-Za-z0-9_\']+)', src)
    blocks = [b for b in blocks if b.startswith('Closed under') or b.startswith('Axioms:')]
    for name, b in zip(pa, blocks):
        if b.startswith('Closed under'):
            assumptions[name] = []
        else:
            axs = re.findall(r'(?m)^([A-Za-z0-9_\.\']+)\s*:', b)
            assumptions[name] = axs
    res['assumptions'] = assumptions
    if rc == 0:
        res['discharged'] = len(thms)
        for t in thms:
            if t not in assumptions:
                res['failed'].append('no Print Assumptions for ' + t)
            else:
                bad = [a for a in assumptions[t] if a not in ALLOWED_AXIOMS]
                if bad:
                    res['failed'].append('%s depends on %s' % (t, ', '.join(bad)))
    else:
        m = re.search(r'line (\d+)', out)
        line = int(m.group(1)) if m else 0
        # theorems whose statement starts before the failing line and are closed
        done = 0
        raw = open(vfile).read().split('\n')
        for t in thms:
            for i, l in enumerate(raw, 1):
                if re.match(r'\s*(Theorem|Lemma|Corollary)\s+' + re.escape(t) + r'\b', l):
                    if i < line:
                        # closed if a Qed appears between i and line
                        if any(re.search(r'\bQed\.', x) for x in raw[i - 1:line - 1]):
                            done += 1
                    break
        res['discharged'] = done
        res['failed'].append('coqc failed on properties/%s.v: %s' % (
            prop_id, (out.strip().split('\n') or [''])[-1][:200]))
    if not built:
        res['failed'].append('library build failed: ' + build_out[-300:])
    res['forbidden'] = forbidden_scan()
    if res['forbidden']:
        res['failed'].append('forbidden vernacular: ' + '; '.join(res['forbidden'][:5]))
    res['ok'] = not res['failed'] and res['discharged'] == res['obligations'] and res['obligations'] > 0
    res['wall_s'] = round(time.time() - t0, 2)
    return res


# --------------------------------------------------------------------------
# the extracted model
# --------------------------------------------------------------------------
def run_model(lines, timeout=1800):
    """Run command lines through the extracted model; one output line each."""
    if not lines:
        return []
    data = '\n'.join(lines) + '\n'
    env = dict(os.environ)
    # the extracted code recurses on lists: give it stack
    p = subprocess.run('ulimit -s unlimited 2>/dev/null; exec %s' % MODEL_BIN, shell=True,
                       input=data, stdout=subprocess.PIPE, stderr=subprocess.PIPE,
                       text=True, timeout=timeout, env=env)
    out = p.stdout.split('\n')
    if out and out[-1] == '':
        out.pop()
    if len(out) != len(lines):
        raise RuntimeError('model driver returned %d lines for %d commands (rc=%s, stderr=%s)' % (
            len(out), len(lines), p.returncode, p.stderr[-300:]))
    return out


SHARD_MIN_LINES = 2000      # a check whose lines are few but heavy lowers this (process-local)


def run_model_sharded(lines, shards=12, timeout=3000):
    """Same as run_model but split over processes (order preserved)."""
    if len(lines) < SHARD_MIN_LINES or shards <= 1:
        return run_model(lines, timeout)
    from concurrent.futures import ThreadPoolExecutor
    n = (len(lines) + shards - 1) // shards
    parts = [lines[i:i + n] for i in range(0, len(lines), n)]
    with ThreadPoolExecutor(max_workers=shards) as ex:
        outs = list(ex.map(lambda p: run_model(p, timeout), parts))
    return [o for part in outs for o in part]


def vm_cross_check(prop_id, header, items, timeout=600):
    """Extraction cross-check: evaluate a sample of cases inside Coq by vm_compute
    and require the OCaml output.  items: list of (coq_term, coq_expected_term).
    Returns (n_checked, failure_message_or_None)."""
    if not items:
        return 0, None
    d = os.path.join(COQ, 'properties', '.out', 'x%d' % os.getpid())
    os.makedirs(d, exist_ok=True)
    path = os.path.join(d, 'cases_%s.v' % prop_id)
    with open(path, 'w') as f:
        f.write(header + '\n')
        for i, (term, expected) in enumerate(items):
            f.write('Example xc%d : (%s) = (%s). Proof. vm_compute. reflexivity. Qed.\n' % (i, term, expected))
    rc, out = sh('timeout %d coqc -Q coq/theories PBK -o %s/cases_%s.vo %s' % (
        timeout, os.path.relpath(d, VERIF), prop_id, os.path.relpath(path, VERIF)), timeout=timeout + 30)
    shutil.rmtree(d, ignore_errors=True)
    if rc != 0:
        return 0, 'vm_compute cross-check failed: ' + out[-400:]
    return len(items), None


# --------------------------------------------------------------------------
# known findings
# --------------------------------------------------------------------------
def load_known():
    p = os.path.join(VERIF, 'known_findings.json')
    if not os.path.exists(p):
        return []
    return json.load(open(p)).get('findings', [])


def match_known(known, prop_id, record):
    for k in known:
        if k.get('property') != prop_id:
            continue
        m = k.get('match', {})
        if all(record.get(key) == val for key, val in m.items()):
            return k
    return None


# --------------------------------------------------------------------------
# the per-run context
# --------------------------------------------------------------------------
class Ctx:
    def __init__(self, prop_id, tier, seed):
        self.prop_id = prop_id
        self.tier = tier
        self.seed = seed
        self.rng = random.Random(seed)
        self.evaluations = 0
        self.nontrivial = set()
        self.samples = []
        self.dist = Counter()
        self.violations = []          # records not covered by known findings
        self.known_hits = {}          # finding id -> count
        self.known = load_known()
        self.notes = []
        self.rule = ''
        self.exhaustive = None
        self.partial = []
        self.assumptions = []
        self.extra = {}
        self.t0 = time.time()
        self._printed_known = set()

    @property
    def quick(self):
        return self.tier == 'quick'

    def n(self, quick, thorough):
        return quick if self.tier == 'quick' else thorough

    def count(self, key, nontrivial=True):
        """Register one executed case; key identifies it for the distinct count."""
        self.evaluations += 1
        if nontrivial:
            h = hashlib.blake2b(repr(key).encode(), digest_size=8).digest()
            self.nontrivial.add(h)

    def sample(self, obj, limit=5):
        if len(self.samples) < limit:
            self.samples.append(obj)

    def violation(self, record, summary=None):
        """record: JSON-serialisable dict with at least 'kind'.  Decides between
        KNOWN-FINDING and VIOLATION."""
        record = dict(record)
        record.setdefault('property', self.prop_id)
        k = match_known(self.known, self.prop_id, record)
        if k is not None:
            fid = k.get('id', '?')
            self.known_hits[fid] = self.known_hits.get(fid, 0) + 1
            if fid not in self._printed_known:
                self._printed_known.add(fid)
                # sys.__stdout__: a check may have silenced sys.stdout around noisy library calls
                print('KNOWN-FINDING: property=%s %s: %s' % (self.prop_id, fid, k.get('what', '')), file=sys.__stdout__)
                sys.__stdout__.flush()
            return False
        self.violations.append(record)
        if len(self.violations) <= 20:
            os.makedirs(os.path.join(VERIF, 'replays'), exist_ok=True)
            h = hashlib.blake2b(json.dumps(record, sort_keys=True, default=str).encode(),
                                digest_size=6).hexdigest()
            path = os.path.join(VERIF, 'replays', '%s_%s.json' % (self.prop_id, h))
            record['seed'] = self.seed
            record['tier'] = self.tier
            with open(path, 'w') as f:
                json.dump(record, f, indent=1, default=str)
            tail = ' no-failing-input-found' if record.get('no_failing_input') else ''
            print('VIOLATION property=%s replay=%s%s' % (self.prop_id, path, tail), file=sys.__stdout__)
            if summary:
                print('  ' + summary, file=sys.__stdout__)
            sys.__stdout__.flush()
        return True

    def compare(self, case, impl_out, model_out, kind='model-mismatch', holds=None, extra=None):
        """The central classification of one case (DESIGN section 2 step 3).
        holds: None, or a callable returning True/False: does the property's own
        predicate hold of the implementation's output on this case?"""
        if impl_out == model_out:
            return True
        rec = {'kind': kind, 'case': case, 'impl': impl_out, 'model': model_out}
        if extra:
            rec.update(extra)
        if holds is not None:
            try:
                h = bool(holds())
            except Exception as e:           # the predicate itself failed on the impl
                h = False
                rec['predicate_error'] = repr(e)
            rec['property_predicate_holds_on_impl'] = h
            if h:
                rec['no_failing_input'] = True
                rec['broken'] = 'correspondence model/implementation for %s' % self.prop_id
        self.violation(rec, 'impl=%r model=%r' % (str(impl_out)[:120], str(model_out)[:120]))
        return False


def write_evidence(ctx: Ctx, proof: dict, level='proof'):
    cov = {
        'obligations': proof.get('obligations', 0),
        'discharged': proof.get('discharged', 0),
        'checker_cmd': proof.get('checker_cmd', ''),
        'trusted_base': [
            'Coq 8.16.1 kernel (coqc), vm_compute (no native_compute)',
            'axioms: ' + (json.dumps({k: v for k, v in proof.get('assumptions', {}).items() if v}) or 'none')
            if any(proof.get('assumptions', {}).values()) else
            'axioms: none — every theorem of properties/%s.v is closed under the global context (Print Assumptions, this run)' % ctx.prop_id,
            'hand-written Gallina model tied to /repo by the correspondence run below (differential, not a proof)',
            'extraction: ExtrOcamlBasic only (bool, option, unit, list, prod, sumbool, sumor; andb/orb inlined); numbers stay positive/N/Z/nat; OCaml 4.13.1 driver model/*.ml',
            'harness: generators, canonicalisation and comparison in harness/props/%s.py' % ctx.prop_id,
        ],
        'theorems': proof.get('theorems', []),
        'assumptions_per_theorem': proof.get('assumptions', {}),
        'proof_failures': proof.get('failed', []),
        'evaluations': ctx.evaluations,
        'distinct_nontrivial': len(ctx.nontrivial),
        'rule': ctx.rule,
        'samples': ctx.samples or ['(no correspondence cases this run)'],
        'distribution': dict(ctx.dist),
        'known_findings_reproduced': ctx.known_hits,
        'partial': ctx.partial,
        'notes': ctx.notes,
    }
    if ctx.exhaustive is not None:
        cov['exhaustive'] = bool(ctx.exhaustive)
    cov.update(ctx.extra)
    ev = {
        'property_id': ctx.prop_id,
        'tier': ctx.tier,
        'seed': ctx.seed,
        'level': level,
        'coverage': cov,
        'assumptions': ctx.assumptions,
        'wall_s': round(time.time() - ctx.t0, 2),
        'violations': len(ctx.violations),
    }
    os.makedirs(os.path.join(VERIF, 'evidence'), exist_ok=True)
    path = os.path.join(VERIF, 'evidence', ctx.prop_id + '.json')
    tmp = '%s.%d.tmp' % (path, os.getpid())          # written whole, then renamed: concurrent checks never leave half a file
    with open(tmp, 'w') as f:
        json.dump(ev, f, indent=1, default=str)
    os.replace(tmp, path)
    return path
