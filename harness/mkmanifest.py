"""Regenerate MANIFEST.json from harness/props/*.meta.json (one file per claimed
property) — so adding a property never edits a shared file by hand."""
import glob
import json
import os

VERIF = os.path.dirname(os.path.dirname(os.path.abspath(__file__)))
ALL = ['C%02d' % i for i in range(1, 21)]


def main():
    checks, claimed = [], set()
    for p in sorted(glob.glob(os.path.join(VERIF, 'harness', 'props', 'C*.meta.json'))):
        m = json.load(open(p))
        pid = m['property_id']
        claimed.add(pid)
        checks.append({
            'property_id': pid,
            'quick_cmd': './check %s quick' % pid,
            'thorough_cmd': './check %s thorough' % pid,
            'evidence_file': 'evidence/%s.json' % pid,
            'replay_cmd_template': './check %s --replay {path}' % pid,
            'engine': 'coq-model+correspondence',
            'level_claimed': {'category': m.get('category', 'proof'), 'text': m['level_text'],
                              'design_ref': m.get('design_ref', 'DESIGN.md section 6, ' + pid)},
            'level_note': m['level_note'],
            'technique': m.get('technique', 'machine-checked proof in Coq 8.16 of theorems about a Gallina model + model/implementation correspondence check'),
        })
    na_file = os.path.join(VERIF, 'harness', 'not_applicable.json')
    na = json.load(open(na_file)) if os.path.exists(na_file) else {}
    not_applicable = [{'property_id': pid, 'reason': na.get(pid, 'check not built yet in this tree (work in progress); not claimed')}
                      for pid in ALL if pid not in claimed]
    man = {
        'version': 1,
        'setup_cmd': './setup.sh',
        'hooks': {
            'guard': 'PYBUFRKIT_VERIF',
            'enable': 'no instrumentation of /repo is needed: the harness imports pybufrkit from /repo (PYTHONPATH=/repo) and observes public results; the guard name is reserved and unused',
            'baseline_off_cmd': 'cd /repo && /venv/bin/python -m pytest -ra -q -p no:cacheprovider --timeout=900 --continue-on-collection-errors',
            'source_commits': [],
            'add_only': True,
        },
        'engines': [{
            'name': 'coq-model+correspondence',
            'path': 'coq/ (Gallina model + theorems), model/ (extracted OCaml driver), harness/ (generators, implementation runner, comparison)',
            'serves_properties': sorted(claimed),
            'kind_free_text': 'Coq 8.16.1 proofs about a hand-written executable model; model tied to /repo on every run by differential correspondence (extracted OCaml model vs pybufrkit on generated inputs, sample cross-checked by vm_compute)',
        }],
        'checks': checks,
        'notes': 'See DESIGN.md. fix: commits in /repo are listed in known_findings.json under "fixed".',
        'not_applicable': not_applicable,
    }
    with open(os.path.join(VERIF, 'MANIFEST.json'), 'w') as f:
        json.dump(man, f, indent=1)
    print('MANIFEST.json: %d checks, %d not claimed' % (len(checks), len(not_applicable)))


if __name__ == '__main__':
    main()
