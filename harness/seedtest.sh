#!/bin/bash
# seedtest.sh <patch.diff> <check id> [<check id> ...] : apply a seeded change to /repo, run the
# quick checks, undo the change.  Prints one line per check.
patch=$1; shift
git -C /repo apply "$patch" || { echo "patch does not apply"; exit 2; }
for id in "$@"; do
  out=$(cd /verif && ./check $id quick 2>&1)
  rc=$?
  echo "== $id exit=$rc $(echo "$out" | grep -c '^VIOLATION') violation line(s); $(echo "$out" | tail -1)"
  echo "$out" | grep -A1 '^VIOLATION' | head -4
done
git -C /repo checkout -- .
