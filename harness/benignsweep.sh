#!/bin/bash
# benignsweep.sh [jobs]: every stored behaviour-preserving refactoring (benign/*/patch.diff) against all 20 quick checks
# (scratch worktrees of /repo under /tmp, removed afterwards).  A line that is not "rc=0 viol=0" is a false alarm.
cd "$(dirname "$0")/.."
jobs=${1:-3}
one() {
  d=$1; name=$(basename $d); w=/tmp/bw_$name
  rm -rf $w; git -C /repo worktree add -q --detach $w HEAD 2>/dev/null || { echo "$name NOWORKTREE"; return; }
  if git -C $w apply $PWD/$d/patch.diff 2>/dev/null; then
    for i in 01 02 03 04 05 06 07 08 09 10 11 12 13 14 15 16 17 18 19 20; do
      out=$(VERIF_REPO=$w ./check C$i quick 2>&1); rc=$?
      echo "$name C$i rc=$rc viol=$(echo "$out" | grep -c '^VIOLATION')"
    done
  else echo "$name NOAPPLY"; fi
  git -C /repo worktree remove --force $w 2>/dev/null
}
export -f one
ls -d benign/ben_* | xargs -P $jobs -I{} bash -c 'one {}'
