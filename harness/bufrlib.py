"""harness/bufrlib.py — glue between pybufrkit objects and the model driver's text
protocol for the coder family (C01, C02, C03, C05, C06, C07, C08, C12 ...)."""
from __future__ import annotations

import json
import math
import os
from fractions import Fraction

import lib


# --------------------------------------------------------------------------
# tables and templates
# --------------------------------------------------------------------------
def table_group(version=33, local=None):
    from pybufrkit.tables import TableGroupCacheManager
    return TableGroupCacheManager.get_table_group(master_table_version=version)


def hexs(b: bytes) -> str:
    return b.hex() or '-'


def desc_tokens(d, out):
    """Serialise one pybufrkit descriptor object as driver tokens (prefix syntax)."""
    from pybufrkit.descriptors import (ElementDescriptor, FixedReplicationDescriptor,
                                       DelayedReplicationDescriptor, OperatorDescriptor,
                                       SequenceDescriptor, UndefinedElementDescriptor,
                                       UndefinedSequenceDescriptor)
    t = type(d)
    if t is ElementDescriptor:
        out += ['e', str(d.id), hexs(d.unit.encode('latin-1')), str(d.scale), str(d.refval), str(d.nbits)]
    elif t is FixedReplicationDescriptor:
        out += ['f', str(d.id), '(']
        for m in d.members:
            desc_tokens(m, out)
        out.append(')')
    elif t is DelayedReplicationDescriptor:
        out += ['d', str(d.id)]
        desc_tokens(d.factor, out)
        out.append('(')
        for m in d.members:
            desc_tokens(m, out)
        out.append(')')
    elif t is OperatorDescriptor:
        out += ['o', str(d.id)]
    elif t is SequenceDescriptor:
        out += ['s', str(d.id), '(']
        for m in d.members:
            desc_tokens(m, out)
        out.append(')')
    elif t is UndefinedElementDescriptor:
        out += ['ue', str(d.id)]
    elif t is UndefinedSequenceDescriptor:
        out += ['us', str(d.id)]
    else:
        raise ValueError('cannot serialise descriptor %r of type %s' % (d, t.__name__))


def show_desc(d):
    """The compact form the driver's show_desc prints (model/drv_template.ml)."""
    from pybufrkit import descriptors as D
    t = type(d)
    if t is D.UndefinedElementDescriptor:
        return 'U%d' % d.id
    if t is D.UndefinedSequenceDescriptor:
        return 'V%d' % d.id
    if isinstance(d, D.ElementDescriptor):
        return 'E%d:%d:%d:%d' % (d.id, d.nbits, d.scale, d.refval)
    if t is D.FixedReplicationDescriptor:
        return 'F%d(%s)' % (d.id, show_descs(d.members))
    if t is D.DelayedReplicationDescriptor:
        return 'D%d[%s](%s)' % (d.id, show_desc(d.factor), show_descs(d.members))
    if t is D.OperatorDescriptor:
        return 'O%d' % d.id
    if isinstance(d, D.SequenceDescriptor):
        return 'S%d(%s)' % (d.id, show_descs(d.members))
    return '?%s%d' % (t.__name__, d.id)


def show_descs(ms):
    return ','.join(show_desc(m) for m in ms)


def template_tokens(template) -> str:
    out = ['(']
    for m in template.members:
        desc_tokens(m, out)
    out.append(')')
    return ' '.join(out)


def expanded_ids(ids, version=33):
    """The ids in processing order with Table D sequences expanded (operators hidden in a sequence count)."""
    try:
        t = template_from_ids(ids, version)
    except Exception:
        return list(ids)
    out = []

    def walk(ms):
        for d in ms:
            if hasattr(d, 'members') and d.id >= 300000:
                walk(d.members or [])
            elif hasattr(d, 'members'):
                out.append(d.id)
                if getattr(d, 'factor', None) is not None:
                    out.append(d.factor.id)
                walk(d.members or [])
            else:
                out.append(d.id)
    walk(t.members)
    return out


def wiring_hazards(ids, version=33):
    """Static features of a template under which TemplateData.wire is known to fail or is not meant to work:
    'refval-definition-under-204' (D27), 'marker-under-204' (D16), 'marker-without-significance' (a 224255 / 225255
    with no 008023 / 008024 after its operator: not a well-formed use of the operator)."""
    out = set()
    depth204 = 0
    defining = False
    sig = {224: False, 225: False}
    for i in expanded_ids(ids, version):
        code, y = i // 1000, i % 1000
        if code == 204:
            depth204 += 1 if y else -1
        elif code == 203:
            defining = y not in (0, 255)
        elif i in (224000, 225000):
            sig[code] = False
        elif i == 8023:
            sig[224] = True
        elif i == 8024:
            sig[225] = True
        elif i in (223255, 224255, 225255, 232255):
            if depth204 > 0:
                out.add('marker-under-204')
            if code in sig and not sig[code]:
                out.add('marker-without-significance')
        elif i < 100000 and defining and depth204 > 0:
            out.add('refval-definition-under-204')
    return out


def template_from_ids(ids, version=33):
    tg = table_group(version)
    return tg.template_from_ids(*ids)


# --------------------------------------------------------------------------
# values
# --------------------------------------------------------------------------
def nearest_double(m: int, s: int) -> float:
    """The double nearest to the rational m / 10^s (exact integer arithmetic)."""
    if s >= 0:
        return m / (10 ** s)          # int / int true division is correctly rounded
    return float(m * 10 ** (-s))      # int -> float conversion is correctly rounded


def model_value_to_python(tok: str):
    """A value token printed by the driver -> the Python value handed to the encoder."""
    if tok == 'n':
        return None
    k, body = tok[0], tok[1:]
    if k == 'i':
        return int(body)
    if k == 'd':
        m, s = body.split(':')
        return nearest_double(int(m), int(s))
    if k == 'f':
        m, e = body.split(':')
        return math.ldexp(int(m), int(e))
    if k == 'y':
        return bytes.fromhex('' if body == '-' else body)
    raise ValueError(tok)


def python_value_to_model(v) -> str:
    """A Python value (as given to the encoder) -> the exact token for the model."""
    if v is None:
        return 'n'
    if isinstance(v, bool):
        return 'i%d' % int(v)
    if isinstance(v, int):
        return 'i%d' % v
    if isinstance(v, float):
        num, den = v.as_integer_ratio()
        return 'f%d:%d' % (num, -(den.bit_length() - 1))
    if isinstance(v, bytes):
        return 'y' + hexs(v)
    if isinstance(v, str):
        return 'y' + hexs(v.encode('latin-1'))
    raise ValueError(repr(v))


def subsets_to_model(vals_all) -> str:
    return '|'.join((','.join(python_value_to_model(v) for v in vs) or '-') for vs in vals_all)


def parse_model_subsets(s: str):
    return [([] if part == '-' else part.split(',')) for part in s.split('|')]


def ulp_diff(a: float, b: float) -> int:
    import struct
    ia = struct.unpack('>q', struct.pack('>d', a))[0]
    ib = struct.unpack('>q', struct.pack('>d', b))[0]
    if ia < 0:
        ia = -(ia & 0x7fffffffffffffff)
    if ib < 0:
        ib = -(ib & 0x7fffffffffffffff)
    return abs(ia - ib)


def value_matches(tok: str, v):
    """Does the implementation's decoded value v equal the model's token?
    Returns (ok, note).  A decimal d<m>:<s> must be the double nearest to m/10^s."""
    if tok == 'n':
        return v is None, ''
    k, body = tok[0], tok[1:]
    if k == 'i':
        return (isinstance(v, int) and not isinstance(v, bool) and v == int(body)), ''
    if k == 'd':
        if not isinstance(v, float):
            return False, 'expected float'
        m, s = body.split(':')
        exp = nearest_double(int(m), int(s))
        if v == exp:
            return True, ''
        u = ulp_diff(v, exp)
        return False, 'ulp=%d scale=%s' % (u, s)
    if k == 'y':
        b = bytes.fromhex('' if body == '-' else body)
        return (isinstance(v, bytes) and v == b), ''
    return False, 'unknown token'


# --------------------------------------------------------------------------
# messages
# --------------------------------------------------------------------------
def flat_json(ids, values_all, compressed=False, edition=4, mtv=33, sec2=None, n_subsets=None):
    """The flat JSON structure Encoder().process accepts."""
    flag = sec2 is not None
    if edition == 4:
        sec1 = [0, 0, 0, 0, 0, flag, "0000000", 0, 0, 0, mtv, 0, 2020, 1, 1, 0, 0, 0]
    elif edition == 3:
        sec1 = [0, 0, 0, 0, 0, flag, "0000000", 0, 0, mtv, 0, 20, 1, 1, 0, 0, 0]
    elif edition == 2:
        sec1 = [0, 0, 0, 0, flag, "0000000", 0, 0, mtv, 0, 20, 1, 1, 0, 0, 0]
    else:
        raise ValueError(edition)
    msg = [["BUFR", 0, edition], sec1]
    if flag:
        msg.append([0, "00000000", sec2])
    ns = len(values_all) if n_subsets is None else n_subsets
    msg.append([0, "00000000", ns, True, bool(compressed), "000000", list(ids)])
    msg.append([0, "00000000", [list(vs) for vs in values_all]])
    msg.append(["7777"])
    return msg


def jsonable(v):
    if isinstance(v, bytes):
        return v.decode('latin-1')
    return v


def encode_message(ids, values_all, compressed=False, edition=4, mtv=33, **kw):
    """Encode with the implementation; returns the BufrMessage."""
    from pybufrkit.encoder import Encoder
    msg = flat_json(ids, [[jsonable(v) for v in vs] for vs in values_all], compressed, edition, mtv)
    msg = json.loads(json.dumps(msg))
    return Encoder(**kw).process(msg, wire_template_data=False)


def data_section_bits(b: bytes):
    """Locate section 4 of an encoded message; returns (offset_of_data, nbytes_of_data)."""
    assert b[:4] == b'BUFR'
    edition = b[7]
    pos = 8
    l1 = int.from_bytes(b[pos:pos + 3], 'big')
    sec2 = (b[pos + (9 if edition >= 4 else 7)] & 0x80) != 0
    pos += l1
    if sec2:
        pos += int.from_bytes(b[pos:pos + 3], 'big')
    l3 = int.from_bytes(b[pos:pos + 3], 'big')
    pos += l3
    l4 = int.from_bytes(b[pos:pos + 3], 'big')
    return pos + 4, l4 - 4


def section3_descriptor_bytes(b: bytes):
    """The octets of the unexpanded descriptor list as they stand in section 3 (without an even-octet pad byte)."""
    edition = b[7]
    pos = 8
    l1 = int.from_bytes(b[pos:pos + 3], 'big')
    sec2 = (b[pos + (9 if edition >= 4 else 7)] & 0x80) != 0
    pos += l1
    if sec2:
        pos += int.from_bytes(b[pos:pos + 3], 'big')
    l3 = int.from_bytes(b[pos:pos + 3], 'big')
    return b[pos + 7: pos + l3]


def pack_descriptors(ids):
    import struct
    return b''.join(struct.pack('>H', ((i // 100000) << 14) | ((i // 1000 % 100) << 8) | (i % 1000)) for i in ids)


def decode_impl(b: bytes, **kw):
    """Decode with the implementation; returns (values, labels, links) per subset."""
    from pybufrkit.decoder import Decoder
    m = Decoder(**kw).process(b, wire_template_data=False)
    td = m.template_data.value
    vals = td.decoded_values_all_subsets
    labels = [[str(d) for d in ds] for ds in td.decoded_descriptors_all_subsets]
    links = [sorted(l.items()) for l in td.bitmap_links_all_subsets]
    return m, vals, labels, links


def parse_model_outs(labels_s: str, links_s: str):
    labels = [([] if p == '-' else p.split(',')) for p in labels_s.split('|')]
    links = []
    for p in links_s.split('|'):
        d = {}
        if p != '-':
            for kv in p.split(','):
                a, b = kv.split('>')
                d[int(a)] = int(b)          # dict assignment: a later entry overwrites
        links.append(sorted(d.items()))
    return labels, links
