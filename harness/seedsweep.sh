#!/bin/bash
# seedsweep.sh [jobs]: every stored seeded change against the quick check of its property (scratch worktrees of
# /repo under /tmp, removed afterwards).  One line per seed: CAUGHT / MISSED / NOAPPLY.
cd "$(dirname "$0")/.."
jobs=${1:-4}
one() {
  d=$1; name=$(basename $d)
  prop=$(python3 -c "import json;print(json.load(open('$d/meta.json'))['property'])")
  w=/tmp/sw_$name
  rm -rf $w; git -C /repo worktree add -q --detach $w HEAD 2>/dev/null || { echo "$name $prop NOWORKTREE"; return; }
  if git -C $w apply $PWD/$d/patch.diff 2>/dev/null; then
    out=$(VERIF_REPO=$w ./check $prop quick 2>&1); rc=$?
    n=$(echo "$out" | grep -c '^VIOLATION')
    if [ $rc -eq 1 ] && [ $n -ge 1 ]; then echo "$name $prop CAUGHT ($n lines)"; else echo "$name $prop MISSED rc=$rc"; fi
  else
    echo "$name $prop NOAPPLY"
  fi
  git -C /repo worktree remove --force $w 2>/dev/null
}
export -f one
ls -d seeded/seed* | xargs -P $jobs -I{} bash -c 'one {}'
