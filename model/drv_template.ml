(* drv_template.ml — commands over Template.v (C14).  The driver keeps a current
   table environment and directory listing (data sent by the harness, exported
   from /repo on every run); every command is one line in, one line out. *)
open Common
open Descr
open Template

let cur_tb : elem list ref = ref []            (* Template.tabB *)
let cur_files : (BinNums.coq_N * BinNums.coq_N list) list list ref = ref []   (* load order *)
let cur_td : (BinNums.coq_N * BinNums.coq_N list) list list ref = ref []
let cur_listing : listing ref = ref { l_numbers = []; l_dirs = [] }

(* template_from_ids = load_d_check (a function of the tables only) then build: the
   load check is evaluated once per table environment and reused *)
let cur_load : Base.err option Lazy.t ref = ref (lazy None)
let reset_load () =
  let tb = !cur_tb and td = !cur_td in
  cur_load := lazy (match load_d_check tb (default_fuel td) td with
                    | Base.Ok _ -> None | Base.Err e -> Some e)
let template_from_ids_cached ids =
  match Lazy.force !cur_load with
  | Some e -> Base.Err e
  | None -> build !cur_tb (lookup_d !cur_tb !cur_td) ids

let n_of_tok s = n_of_string s
let nlist_of_tok (s : string) : BinNums.coq_N list =
  if s = "-" then [] else SL.map n_of_string (String.split_on_char ',' s)

(* entry token: id:unithex:scale:ref:nbits *)
let elem_of_tok (s : string) : elem =
  match String.split_on_char ':' s with
  | [id; u; sc; rf; nb] ->
    { e_id = n_of_string id; e_unit = bytes_of_hex u; e_scale = z_of_string sc;
      e_refval = z_of_string rf; e_nbits = z_of_string nb }
  | _ -> failwith ("elem " ^ s)

let show_elem (e : elem) : string =
  String.concat ":" [string_of_n e.e_id; hex_of_bytes e.e_unit; string_of_z e.e_scale;
                     string_of_z e.e_refval; string_of_z e.e_nbits]

(* tabB <n_wmo> <n_local> e1 e2 ... : entries in load order; the first n_wmo are the
   WMO file, the next n_local the local file, the rest extra entries *)
let cmd_tabB args =
  match args with
  | nw :: nl :: es ->
    let nw = int_of_string nw and nl = int_of_string nl in
    let es = SL.map elem_of_tok es in
    let wmo = SL.filteri (fun i _ -> i < nw) es
    and loc = SL.filteri (fun i _ -> i >= nw && i < nw + nl) es
    and ext = SL.filteri (fun i _ -> i >= nw + nl) es in
    cur_tb := mk_tabB wmo loc ext; reset_load ();
    "ok " ^ string_of_int (SL.length !cur_tb)
  | _ -> failwith "tabB"

(* tabD_reset ; tabD_file id=m1,m2 id=- ... (one line per JSON file, load order,
   entries in sorted-key order) *)
let cmd_tabD_reset _ = cur_files := []; cur_td := []; reset_load (); "ok"
let cmd_tabD_file args =
  let ents = SL.map (fun t ->
    match String.split_on_char '=' t with
    | [id; ms] -> (n_of_string id, nlist_of_tok ms)
    | _ -> failwith ("tabD entry " ^ t)) args in
  cur_files := !cur_files @ [ents];
  cur_td := mk_tabD !cur_files; reset_load ();
  "ok " ^ string_of_int (SL.length ents)

let rec list_of_descs (ds : descs) : desc list =
  match ds with DNil -> [] | DCons (d, r) -> d :: list_of_descs r

let rec show_desc (d : desc) : string =
  match d with
  | DElem e -> "E" ^ string_of_n e.e_id ^ ":" ^ string_of_z e.e_nbits ^ ":" ^ string_of_z e.e_scale
               ^ ":" ^ string_of_z e.e_refval
  | DFixed (id, ms) -> "F" ^ string_of_n id ^ "(" ^ show_descs ms ^ ")"
  | DDelayed (id, f, ms) -> "D" ^ string_of_n id ^ "[" ^ show_desc f ^ "](" ^ show_descs ms ^ ")"
  | DOper id -> "O" ^ string_of_n id
  | DSeq (id, ms) -> "S" ^ string_of_n id ^ "(" ^ show_descs ms ^ ")"
  | DUndefElem id -> "U" ^ string_of_n id
  | DUndefSeq id -> "V" ^ string_of_n id
and show_descs (ds : descs) : string =
  String.concat "," (SL.map show_desc (list_of_descs ds))

let show_ids (l : BinNums.coq_N list) : string =
  if l = [] then "-" else String.concat "," (SL.map string_of_n l)

let show_bool b = if b then "1" else "0"

(* loadcheck : does Table D load, are all factors non-sequences *)
let cmd_loadcheck _ =
  (match Lazy.force !cur_load with
   | None -> "ok"
   | Some e -> err_string e)
  ^ " factors_ok " ^ show_bool (tabD_factors_ok !cur_td)

(* expand <id> : TableD.lookup(id) then flat_member_ids and the element attributes,
   and the direct expansion of the table data.
   ok <flat ids> | <md5 of element list> | <n elements> | direct <ids or err> | undef <0/1> *)
let expand_gen verbose args =
  match args with
  | [id] ->
    let id = n_of_string id in
    (match lookup_d !cur_tb !cur_td id with
     | Base.Err e -> err_string e
     | Base.Ok d ->
       let direct = (match expand_direct (default_fuel !cur_td) !cur_td id with
         | Base.Ok l -> show_ids l | Base.Err e -> err_string e) in
       (match flat_member_ids d with
        | Base.Err e -> "node " ^ show_desc d ^ " flat " ^ err_string e ^ " | direct " ^ direct
        | Base.Ok ids ->
          let ms = (match d with DSeq (_, ms) -> ms | _ -> DNil) in
          let es = flat_elems ms in
          let estr = String.concat " " (SL.map show_elem es) in
          "ok " ^ show_ids ids ^ " | "
          ^ (if verbose then estr else Digest.to_hex (Digest.string estr))
          ^ " | " ^ string_of_int (SL.length es) ^ " | direct "
          ^ (if direct = show_ids ids then "same" else direct)
          ^ " | undef " ^ show_bool (reaches_undefined ms)
          ^ (if verbose then " | tree " ^ show_descs ms else "")))
  | _ -> failwith "expand"

(* tree id1 id2 ... : template_from_ids, canonical tree, original_descriptor_ids *)
let cmd_tree args =
  let ids = SL.map n_of_string args in
  match template_from_ids_cached ids with
  | Base.Err e -> err_string e
  | Base.Ok ds ->
    "ok " ^ show_descs ds ^ " | " ^ show_ids (original_ids ds)
    ^ " | undef " ^ show_bool (reaches_undefined ds)
    ^ (match undef_scan ds with Base.Ok _ -> " scan ok" | Base.Err e -> " scan " ^ err_string e)

(* treefull: Template.template_from_ids itself (load check re-evaluated) *)
let cmd_treefull args =
  let ids = SL.map n_of_string args in
  match template_from_ids !cur_tb !cur_td ids with
  | Base.Err e -> err_string e
  | Base.Ok ds -> "ok " ^ show_descs ds

(* wf id1 id2 ... : is the list well-formed; when it is: does every replication own exactly X *)
let cmd_wf args =
  let ids = SL.map n_of_string args in
  let w = wf_ids ids in
  "wf " ^ show_bool w ^
  (match template_from_ids_cached ids with
   | Base.Err e -> " build " ^ err_string e
   | Base.Ok ds -> " exact " ^ show_bool (exact_members ds)
                   ^ " same " ^ show_bool (original_ids ds = ids)
                   ^ " struct " ^ show_bool (orig_flat ds = original_ids ds))

(* lookupb id *)
let cmd_lookupb args =
  match args with
  | [id] -> (match lookup_b !cur_tb (n_of_string id) with
             | DElem e -> "E " ^ show_elem e
             | d -> show_desc d)
  | _ -> failwith "lookupb"

(* listing <numbers> <dirs: n/c/s/v,...> *)
let sn_of_tok (s : string) =
  match String.split_on_char '/' s with
  | [n; c; sc; v] -> ((n_of_string n, (n_of_string c, n_of_string sc)), n_of_string v)
  | _ -> failwith ("sn " ^ s)
let cmd_listing args =
  match args with
  | [nums; dirs] ->
    cur_listing := { l_numbers = nlist_of_tok nums;
                     l_dirs = if dirs = "-" then [] else SL.map sn_of_tok (String.split_on_char ',' dirs) };
    "ok " ^ string_of_int (SL.length !cur_listing.l_dirs)
  | _ -> failwith "listing"

let show_sn (((n, (c, s)), v)) =
  string_of_n n ^ "/" ^ string_of_n c ^ "_" ^ string_of_n s ^ "/" ^ string_of_n v
let show_key (w, l) = show_sn w ^ " " ^ (match l with None -> "None" | Some s -> show_sn s)
let opt_of_tok s = if s = "N" then None else Some (n_of_string s)

(* key n c s v l  (N = None) : get_table_group(normalize=True) *)
let cmd_key args =
  match SL.map opt_of_tok args with
  | [n; c; s; v; l] -> show_key (table_group_key !cur_listing n c s v l)
  | _ -> failwith "key"
(* norm n c s v l : normalize_tables_sn ; rawkey: get_tables_sn *)
let cmd_norm args =
  match SL.map n_of_string args with
  | [n; c; s; v; l] -> show_key (normalize_tables_sn !cur_listing n c s v l)
  | _ -> failwith "norm"
let cmd_rawkey args =
  match SL.map n_of_string args with
  | [n; c; s; v; l] -> show_key (get_tables_sn n c s v l)
  | _ -> failwith "rawkey"

(* ncepfix <template tokens> : tables._fix_ncep_descriptors on an already built template *)
let cmd_ncepfix args =
  let (t, _) = Drv_coder.parse_template args in
  match NcepFix.fixl t with
  | Base.Ok t' -> "ok " ^ (let s = show_descs t' in if s = "" then "-" else s) ^ " clean " ^ show_bool (NcepFix.cleanl t')
                  ^ " leaves " ^ show_bool (NcepFix.leavesl t' = NcepFix.leavesl t)
                  ^ " orig " ^ (match NcepFix.fixl_orig t with Base.Ok o -> if o = t' then "same" else "DIFFERENT" | Base.Err e -> err_string e)
  | Base.Err e -> err_string e

let () =
  register "ncepfix" cmd_ncepfix;
  register "tabB" cmd_tabB;
  register "tabD_reset" cmd_tabD_reset;
  register "tabD_file" cmd_tabD_file;
  register "loadcheck" cmd_loadcheck;
  register "expand" (expand_gen false);
  register "expandv" (expand_gen true);
  register "tree" cmd_tree;
  register "wf" cmd_wf;
  register "treefull" cmd_treefull;
  register "lookupb" cmd_lookupb;
  register "listing" cmd_listing;
  register "key" cmd_key;
  register "norm" cmd_norm;
  register "rawkey" cmd_rawkey
