(* drv_frame.ml — commands over Frame.v (C04, C17) *)
open Common
open Frame

let ascii_of_bytes (l : BinNums.coq_N list) : string =
  String.concat "" (SL.map (fun b -> String.make 1 (Char.chr (int_of_n b))) l)

let string_of_ptype t = match t with
  | TUint -> "uint" | TBytes -> "bytes" | TBin -> "bin" | TBool -> "bool"
  | TDescs -> "unexpanded_descriptors" | TData -> "template_data"

let string_of_bool b = if b then "1" else "0"

(* one definition file on one line:
   index|edition or -|default|optional|end|name:nbits:type:expected-hex or -:as_property,... *)
let show_config (c : sconfig) : string =
  let p_str (p : param) =
    String.concat ":" [ascii_of_bytes (name_str p.p_name); string_of_z p.p_nbits;
                       string_of_ptype p.p_type;
                       (match p.p_expected with None -> "-" | Some e -> hex_of_bytes e);
                       string_of_bool p.p_prop] in
  String.concat "|" [string_of_n c.s_index;
                     (match c.s_edition with None -> "-" | Some e -> string_of_z e);
                     string_of_bool c.s_default; string_of_bool c.s_optional; string_of_bool c.s_end;
                     String.concat "," (SL.map p_str c.s_params)]

let cmd_layouts _ = String.concat ";" (SL.map show_config definitions)

(* values: u<int> y<hex> n<bits> b0|b1 d<id>.<id>... D<bits> *)
let parse_value (s : string) : pvalue =
  let rest = String.sub s 1 (String.length s - 1) in
  match s.[0] with
  | 'u' -> PUint (z_of_string rest)
  | 'y' -> PBytes (bytes_of_hex rest)
  | 'n' -> PBin (bits_of_string rest)
  | 'b' -> PBool (rest = "1")
  | 'd' -> PDescs (if rest = "-" then [] else SL.map z_of_string (String.split_on_char '.' rest))
  | 'D' -> PData (bits_of_string rest)
  | _ -> failwith ("value " ^ s)

let show_value (v : pvalue) : string = match v with
  | PUint z -> "u" ^ string_of_z z
  | PBytes l -> "y" ^ hex_of_bytes l
  | PBin b -> "n" ^ string_of_bits b
  | PBool b -> if b then "b1" else "b0"
  | PDescs ids -> "d" ^ (if ids = [] then "-" else String.concat "." (SL.map string_of_z ids))
  | PData b -> "D" ^ string_of_bits b

let parse_section (s : string) : pvalue list =
  if s = "-" then [] else SL.map parse_value (String.split_on_char ',' s)

let show_section (s : section) : string =
  string_of_n s.sec_index ^ ":" ^ string_of_int (int_of_nat s.sec_nbits) ^ ":" ^
  String.concat "," (SL.map (fun (n, v) -> ascii_of_bytes (name_str n) ^ "=" ^ show_value v) s.sec_values)

let show_message (m : message) : string =
  "ok " ^ hex_of_bytes m.m_bytes ^ " " ^ String.concat " " (SL.map show_section m.m_sections)

(* enc <ignore_declared_length 0|1> <section values> ... *)
let cmd_enc args =
  match args with
  | ign :: secs ->
    (match encode_message (ign = "1") (SL.map parse_section secs) with
     | Base.Err e -> err_string e
     | Base.Ok m -> show_message m)
  | _ -> failwith "enc"

(* The template decoder stub used for the correspondence runs: the generated
   templates consist of 031031 (one bit) only, uncompressed.  It consumes
   n_subsets * (number of descriptors) bits; any other descriptor is reported as
   UnknownDescriptor (true of the undefined ids the generator can produce, e.g.
   000000 from two surplus octets in section 3). *)
let stub_decode_data (props : (pname * pvalue) list) (r : Bits.reader) =
  let ids = (match prop_get Nunexpanded_descriptors props with Some (PDescs l) -> l | _ -> []) in
  let nsub = (match prop_get Nn_subsets props with Some (PUint z) -> int_of_z z | _ -> 0) in
  let z31031 = z_of_int 31031 in
  if SL.exists (fun id -> id <> z31031) ids then Base.Err Base.EUnknownDescriptor
  else Bits.take_bits (nat_of_int (nsub * SL.length ids)) r

(* dec <sig 0|1> <info_only 0|1> <ignore_value_expectation 0|1> <hex> *)
let cmd_dec args =
  match args with
  | [sg; info; ign; hex] ->
    let sg = if sg = "1" then Some sig_BUFR else None in
    (match decode_message stub_decode_data sg (info = "1") (ign = "1") (bytes_of_hex hex) with
     | Base.Err e -> err_string e
     | Base.Ok m -> show_message m)
  | _ -> failwith "dec"

(* scan <hex> : generate_bufr_message(info_only=True): lengths of the yielded
   messages' serialized_bytes, their declared lengths, and the final error *)
let cmd_scan args =
  match args with
  | [hex] ->
    let s = bytes_of_hex hex in
    let (ms, e) = scan_info stub_decode_data (nat_of_int (SL.length s + 2)) s in
    "scan " ^ String.concat "," (SL.map (fun m -> hex_of_bytes m.m_bytes) ms) ^
    (match e with None -> " end" | Some e -> " " ^ err_string e)
  | _ -> failwith "scan"

(* pad <edition> <nbits_write> *)
let cmd_pad args =
  match args with
  | [e; n] -> string_of_z (pad_bits (z_of_string e) (z_of_string n))
  | _ -> failwith "pad"

let () =
  register "layouts" cmd_layouts;
  register "enc" cmd_enc;
  register "dec" cmd_dec;
  register "fscan" cmd_scan;
  register "pad" cmd_pad
