(* drv_cache.ml — commands over Cache.v (C13).  Keys are opaque tokens (strings);
   load / compile succeed with the key itself as value unless the token starts
   with '!' (a failing load / compilation: err 15 / err 6). *)
open Common
open Cache

let str_eqb (a : string) (b : string) : bool = (a = b)
let load_tok (k : string) (_ : unit) : string Base.result =
  if String.length k > 0 && k.[0] = '!' then Base.Err Base.EOther else Base.Ok k
let compile_tok (k : string) : string Base.result =
  if String.length k > 0 && k.[0] = '!' then Base.Err Base.ELib else Base.Ok k

let tg : (string, string, unit) tg_cache ref = ref (tg_init ())
let cts : (int, (string * string) list) Hashtbl.t = Hashtbl.create 8
let ct_max : (int, BinNums.coq_Z) Hashtbl.t = Hashtbl.create 8

let show_keys (l : string list) = if l = [] then "-" else String.concat "," l
let show_res r = match r with Base.Ok _ -> "ok" | Base.Err e -> err_string e

let cmd_tg_reset _ = tg := tg_init (); "ok"
(* tg_get <limit> <key> *)
let cmd_tg_get args =
  match args with
  | [l; k] ->
    let (c, r) = tg_get str_eqb load_tok (nat_of_int (int_of_string l)) k !tg in
    tg := c;
    show_res r ^ " keys " ^ show_keys (tg_keys c)
  | _ -> failwith "tg_get"
let cmd_tg_invalidate _ = tg := tg_invalidate !tg; "ok keys " ^ show_keys (tg_keys !tg)
let cmd_tg_keys _ = "keys " ^ show_keys (tg_keys !tg)

(* ct_reset <slot> <cache_max> ; ct_get <slot> <key> *)
let cmd_ct_reset args =
  match args with
  | [s; m] -> Hashtbl.replace cts (int_of_string s) []; Hashtbl.replace ct_max (int_of_string s) (z_of_string m); "ok"
  | _ -> failwith "ct_reset"
let cmd_ct_get args =
  match args with
  | [s; k] ->
    let s = int_of_string s in
    let (c, r) = ct_get str_eqb compile_tok (Hashtbl.find ct_max s) k (Hashtbl.find cts s) in
    Hashtbl.replace cts s c;
    show_res r ^ " keys " ^ show_keys (ct_keys c)
  | _ -> failwith "ct_get"

let () =
  register "tg_reset" cmd_tg_reset;
  register "tg_get" cmd_tg_get;
  register "tg_invalidate" cmd_tg_invalidate;
  register "tg_keys" cmd_tg_keys;
  register "ct_reset" cmd_ct_reset;
  register "ct_get" cmd_ct_get
