(* drv_coder.ml — commands over Walk/Coder/Decode/Encode/Gen *)
open Common
open Descr

(* ---- template trees: prefix token syntax -------------------------------- *)
(*  e id unithex scale ref nbits | f id ( .. ) | d id <desc> ( .. ) | o id
    | s id ( .. ) | ue id | us id                                              *)
let rec parse_desc (toks : string list) : desc * string list =
  match toks with
  | "e" :: id :: unit :: scale :: refv :: nbits :: rest ->
    (DElem { e_id = n_of_string id; e_unit = bytes_of_hex unit; e_scale = z_of_string scale;
             e_refval = z_of_string refv; e_nbits = z_of_string nbits }, rest)
  | "f" :: id :: "(" :: rest ->
    let (ms, rest') = parse_descs rest in (DFixed (n_of_string id, ms), rest')
  | "d" :: id :: rest ->
    let (f, rest1) = parse_desc rest in
    (match rest1 with
     | "(" :: rest2 -> let (ms, rest3) = parse_descs rest2 in (DDelayed (n_of_string id, f, ms), rest3)
     | _ -> failwith "parse_desc: d")
  | "o" :: id :: rest -> (DOper (n_of_string id), rest)
  | "s" :: id :: "(" :: rest ->
    let (ms, rest') = parse_descs rest in (DSeq (n_of_string id, ms), rest')
  | "ue" :: id :: rest -> (DUndefElem (n_of_string id), rest)
  | "us" :: id :: rest -> (DUndefSeq (n_of_string id), rest)
  | t :: _ -> failwith ("parse_desc: " ^ t)
  | [] -> failwith "parse_desc: eof"
and parse_descs (toks : string list) : descs * string list =
  match toks with
  | ")" :: rest -> (DNil, rest)
  | [] -> failwith "parse_descs: eof"
  | _ -> let (d, rest) = parse_desc toks in
    let (ds, rest') = parse_descs rest in (DCons (d, ds), rest')

(* a template is given as "( m1 m2 ... )" *)
let parse_template (toks : string list) : descs * string list =
  match toks with
  | "(" :: rest -> parse_descs rest
  | _ -> failwith "parse_template"

(* ---- values ---------------------------------------------------------------- *)
let parse_value (s : string) : value =
  if s = "n" then VNone else
  let body = String.sub s 1 (String.length s - 1) in
  match s.[0] with
  | 'i' -> VInt (z_of_string body)
  | 'd' -> (match String.split_on_char ':' body with
      | [m; sc] -> VDec (z_of_string m, z_of_string sc) | _ -> failwith "value d")
  | 'f' -> (match String.split_on_char ':' body with
      | [m; e] -> VDyad (z_of_string m, z_of_string e) | _ -> failwith "value f")
  | 'y' -> VBytes (bytes_of_hex body)
  | _ -> failwith ("value " ^ s)

let show_value (v : value) : string =
  match v with
  | VNone -> "n"
  | VInt z -> "i" ^ string_of_z z
  | VDec (m, s) -> "d" ^ string_of_z m ^ ":" ^ string_of_z s
  | VDyad (m, e) -> "f" ^ string_of_z m ^ ":" ^ string_of_z e
  | VBytes b -> "y" ^ hex_of_bytes b

let parse_values (s : string) : value list =
  if s = "-" then [] else SL.map parse_value (String.split_on_char ',' s)
let parse_subsets (s : string) : value list list =
  SL.map parse_values (String.split_on_char '|' s)
let show_values (l : value list) : string =
  if l = [] then "-" else String.concat "," (SL.map show_value l)
let show_subsets (l : value list list) : string = String.concat "|" (SL.map show_values l)

(* bits as <hex>:<nbits> *)
let bits_of_hexn (s : string) : bool list =
  match String.split_on_char ':' s with
  | [h; n] ->
    let n = int_of_string n in
    let all = SL.concat (SL.map (fun b ->
        let b = int_of_n b in SL.init 8 (fun i -> (b lsr (7 - i)) land 1 = 1)) (bytes_of_hex h)) in
    SL.filteri (fun i _ -> i < n) all
  | _ -> failwith "bits_of_hexn"

let hexn_of_bits (b : bool list) : string =
  let n = SL.length b in
  let buf = Buffer.create (n / 4 + 2) in
  let cur = ref 0 and cnt = ref 0 in
  SL.iter (fun x ->
      cur := (!cur lsl 1) lor (if x then 1 else 0); incr cnt;
      if !cnt = 8 then (Buffer.add_string buf (Printf.sprintf "%02x" !cur); cur := 0; cnt := 0)) b;
  if !cnt > 0 then Buffer.add_string buf (Printf.sprintf "%02x" (!cur lsl (8 - !cnt)));
  (if n = 0 then "-" else Buffer.contents buf) ^ ":" ^ string_of_int n

let show_label (d : Walk.ddesc) : string =
  let (p, id) = Coder.dd_label d in
  let p = int_of_n p and id = int_of_n id in
  if p = 0 then Printf.sprintf "%06d" id else Printf.sprintf "%c%05d" (Char.chr p) id

let show_outs (outs : Coder.subset_out list) : string =
  let labels o = let l = SL.map show_label o.Coder.so_dd in if l = [] then "-" else String.concat "," l in
  let links o =
    let l = SL.map (fun (a, b) -> string_of_int (int_of_n a) ^ ">" ^ string_of_int (int_of_n b)) o.Coder.so_links in
    if l = [] then "-" else String.concat "," l in
  String.concat "|" (SL.map labels outs) ^ " " ^ String.concat "|" (SL.map links outs)

(* decu <nsub> <hex:nbits> <template> *)
let cmd_decu args =
  match args with
  | nsub :: bits :: tmpl ->
    let (t, _) = parse_template tmpl in
    let b = bits_of_hexn bits in
    (match Decode.decode_uncompressed t (nat_of_int (int_of_string nsub)) b with
     | Base.Err e -> err_string e
     | Base.Ok ((outs, vals), rest) ->
       "ok " ^ show_subsets vals ^ " " ^ show_outs outs ^ " " ^ string_of_int (SL.length b - SL.length rest))
  | _ -> failwith "decu"

(* encu <values> <template> *)
let cmd_encu args =
  match args with
  | vals :: tmpl ->
    let (t, _) = parse_template tmpl in
    (match Encode.encode_uncompressed t (parse_subsets vals) with
     | Base.Err e -> err_string e
     | Base.Ok (outs, w) -> "ok " ^ hexn_of_bits w ^ " " ^ show_outs outs)
  | _ -> failwith "encu"

(* forced: "-" or id=v.v.v;id=v.v *)
let parse_forced (s : string) =
  if s = "-" then [] else
  SL.map (fun kv -> match String.split_on_char '=' kv with
      | [k; vs] -> (n_of_string k, SL.map n_of_string (split_on '.' vs))
      | _ -> failwith "forced") (String.split_on_char ';' s)

(* gen <seed> <maxrep> <forced> <shared> <nsub> <template> *)
let cmd_gen args =
  match args with
  | seed :: maxrep :: forced :: shared :: nsub :: tmpl ->
    let (t, _) = parse_template tmpl in
    (match Gen.gen_subsets t (n_of_string seed) (n_of_string maxrep) (parse_forced forced) (shared = "1")
             (nat_of_int (int_of_string nsub)) None with
     | Base.Err e -> err_string e
     | Base.Ok vals -> "ok " ^ show_subsets vals)
  | _ -> failwith "gen"

(* encg <values> <template> : the ghost encoder (RoundTrip.encode_ghost):
   bits, descriptors/links, and the values a reader obtains *)
let cmd_encg args =
  match args with
  | vals :: tmpl ->
    let (t, _) = parse_template tmpl in
    (match RoundTrip.encode_ghost t (parse_subsets vals) with
     | Base.Err e -> err_string e
     | Base.Ok ((outs, w), g) -> "ok " ^ hexn_of_bits w ^ " " ^ show_outs outs ^ " " ^ show_subsets g)
  | _ -> failwith "encg"

(* canon <values> <template> : Spec.canonical_bits *)
let cmd_canon args =
  match args with
  | vals :: tmpl ->
    let (t, _) = parse_template tmpl in
    (match Spec.canonical_bits t (parse_subsets vals) with
     | Base.Err e -> err_string e
     | Base.Ok w -> "ok " ^ hexn_of_bits w)
  | _ -> failwith "canon"

(* decc <nsub> <hex:nbits> <template> : compressed *)
let cmd_decc args =
  match args with
  | nsub :: bits :: tmpl ->
    let (t, _) = parse_template tmpl in
    let b = bits_of_hexn bits in
    (match DecodeC.decode_compressed t (nat_of_int (int_of_string nsub)) b with
     | Base.Err e -> err_string e
     | Base.Ok ((outs, vals), rest) ->
       "ok " ^ show_subsets vals ^ " " ^ show_outs outs ^ " " ^ string_of_int (SL.length b - SL.length rest))
  | _ -> failwith "decc"

(* encc <values> <template> : compressed *)
let cmd_encc args =
  match args with
  | vals :: tmpl ->
    let (t, _) = parse_template tmpl in
    (match EncodeC.encode_compressed t (parse_subsets vals) with
     | Base.Err e -> err_string e
     | Base.Ok (outs, w) -> "ok " ^ hexn_of_bits w ^ " " ^ show_outs outs)
  | _ -> failwith "encc"

(* the same four through a compiled template: c + name *)
let cmd_cdec compressed args =
  match args with
  | nsub :: bits :: tmpl ->
    let (t, _) = parse_template tmpl in
    let b = bits_of_hexn bits in
    let f = if compressed then CompileRun.decode_compressed_c else CompileRun.decode_uncompressed_c in
    (match f t (nat_of_int (int_of_string nsub)) b with
     | Base.Err e -> err_string e
     | Base.Ok ((outs, vals), rest) ->
       "ok " ^ show_subsets vals ^ " " ^ show_outs outs ^ " " ^ string_of_int (SL.length b - SL.length rest))
  | _ -> failwith "cdec"

let cmd_cenc compressed args =
  match args with
  | vals :: tmpl ->
    let (t, _) = parse_template tmpl in
    let f = if compressed then CompileRun.encode_compressed_c else CompileRun.encode_uncompressed_c in
    (match f t (parse_subsets vals) with
     | Base.Err e -> err_string e
     | Base.Ok (outs, w) -> "ok " ^ hexn_of_bits w ^ " " ^ show_outs outs)
  | _ -> failwith "cenc"

(* ldecu <nsub> <bits> <tableB: id:unithex:scale:ref:nbits,...> <template> : compiled, saved and loaded *)
let cmd_ldecu args =
  match args with
  | nsub :: bits :: tb :: tmpl ->
    let (t, _) = parse_template tmpl in
    let b = bits_of_hexn bits in
    let entries = if tb = "-" then [] else
        SL.map (fun s -> match String.split_on_char ':' s with
            | [id; u; sc; r; nb] -> (n_of_string id, { e_id = n_of_string id; e_unit = bytes_of_hex u; e_scale = z_of_string sc;
                                                      e_refval = z_of_string r; e_nbits = z_of_string nb })
            | _ -> failwith "tb") (String.split_on_char ',' tb) in
    let lookup id = SL.assoc_opt id entries in
    (match CompileRun.decode_uncompressed_l lookup t (nat_of_int (int_of_string nsub)) b with
     | Base.Err e -> err_string e
     | Base.Ok ((outs, vals), rest) ->
       "ok " ^ show_subsets vals ^ " " ^ show_outs outs ^ " " ^ string_of_int (SL.length b - SL.length rest))
  | _ -> failwith "ldecu"

(* scoped <template> : Compile.scoped *)
let cmd_scoped args =
  let (t, _) = parse_template args in
  if Compile.scoped t then "true" else "false"

let () =
  register "scoped" cmd_scoped;
  register "cdecu" (cmd_cdec false);
  register "cdecc" (cmd_cdec true);
  register "cencu" (cmd_cenc false);
  register "cencc" (cmd_cenc true);
  register "ldecu" cmd_ldecu;
  register "decc" cmd_decc;
  register "encc" cmd_encc;
  register "encg" cmd_encg;
  register "canon" cmd_canon;
  register "decu" cmd_decu;
  register "encu" cmd_encu;
  register "gen" cmd_gen
