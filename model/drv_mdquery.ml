(* drv_mdquery.ml — commands over MdQuery.v (C17) *)
open Common
open Frame
open MdQuery

(* mdparse <expr hex> *)
let cmd_mdparse args =
  match args with
  | [hex] ->
    (match md_parse (bytes_of_hex hex) with
     | Base.Err e -> err_string e
     | Base.Ok (idx, name) ->
       "ok " ^ (match idx with None -> "None" | Some k -> string_of_z k) ^ " " ^ hex_of_bytes name)
  | _ -> failwith "mdparse"

let show_result r =
  match r with
  | Base.Err e -> err_string e
  | Base.Ok None -> "None"
  | Base.Ok (Some v) -> Drv_frame.show_value v

(* mdquery <info_only 0|1> <message hex> <expr hex> ... : decode (signature search on)
   then one query per expression *)
let cmd_mdquery args =
  match args with
  | info :: hex :: exprs ->
    (match decode_message Drv_frame.stub_decode_data (Some sig_BUFR) (info = "1") false (bytes_of_hex hex) with
     | Base.Err e -> "decode-" ^ err_string e
     | Base.Ok m ->
       String.concat " ; " (SL.map (fun x -> show_result (md_query m (bytes_of_hex x))) exprs))
  | _ -> failwith "mdquery"

let () =
  register "mdparse" cmd_mdparse;
  register "mdquery" cmd_mdquery
