let () = Common.main ()
