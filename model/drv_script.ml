(* drv_script.ml — commands over Script.v (C18) *)
open Common
open Script

(* strings of code points: "-" empty | "h<2 hex digits per char>" | "u<dec>,<dec>,..." *)
let str_of_token (s : string) : BinNums.coq_N list =
  if s = "-" then []
  else if s.[0] = 'h' then bytes_of_hex (String.sub s 1 (String.length s - 1))
  else if s.[0] = 'u' then
    SL.map (fun d -> n_of_int (int_of_string d))
      (String.split_on_char ',' (String.sub s 1 (String.length s - 1)))
  else failwith ("string token " ^ s)

let token_of_str (l : BinNums.coq_N list) : string =
  if l = [] then "-"
  else
    let is = SL.map int_of_n l in
    if SL.for_all (fun i -> i < 256) is then
      "h" ^ String.concat "" (SL.map (Printf.sprintf "%02x") is)
    else "u" ^ String.concat "," (SL.map string_of_int is)

let show_subst (m : (BinNums.coq_N list * BinNums.coq_N list) list) : string =
  String.concat " " (SL.map (fun (k, v) -> token_of_str k ^ "=" ^ token_of_str v) m)

let show_prep ((code, m) : BinNums.coq_N list * (BinNums.coq_N list * BinNums.coq_N list) list) : string =
  token_of_str code ^ " " ^ (if metadata_only m then "1" else "0")
  ^ (if m = [] then "" else " " ^ show_subst m)

(* prep <script> -> <code> <metadata_only> k=v ... *)
let cmd_prep args =
  match args with
  | [s] -> show_prep (process_embedded_query_expr (str_of_token s))
  | _ -> failwith "prep"

let show_pragma r =
  match r with
  | Base.Err e -> err_string e
  | Base.Ok (PLevel z) -> "ok " ^ string_of_z z
  | Base.Ok PUnmodelled -> "unmodelled"

(* level <arg|N> <script> : the effective nest level of ScriptRunner(script, arg) *)
let cmd_level args =
  match args with
  | [a; s] ->
    let arg = if a = "N" then None else Some (z_of_string a) in
    show_pragma (effective_level arg (str_of_token s))
  | _ -> failwith "level"

(* pragma <code_string> : process_pragma on a given code string *)
let cmd_pragma args =
  match args with
  | [s] -> show_pragma (process_pragma (str_of_token s))
  | _ -> failwith "pragma"

(* nested lists of integers: [[1,[2,-3]],[4]] *)
let parse_nest_list (s : string) : BinNums.coq_Z nest list =
  let n = String.length s in
  let pos = ref 0 in
  let rec plist () : BinNums.coq_Z nest list =
    (* at '[' *)
    if s.[!pos] <> '[' then failwith "nest: [ expected";
    incr pos;
    let items = ref [] in
    if s.[!pos] = ']' then (incr pos; [])
    else begin
      let fin = ref false in
      while not !fin do
        items := pitem () :: !items;
        if !pos < n && s.[!pos] = ',' then incr pos
        else if !pos < n && s.[!pos] = ']' then (incr pos; fin := true)
        else failwith "nest: , or ] expected"
      done;
      SL.rev !items
    end
  and pitem () : BinNums.coq_Z nest =
    if s.[!pos] = '[' then Node (plist ())
    else begin
      let st = !pos in
      while !pos < n && (s.[!pos] = '-' || (s.[!pos] >= '0' && s.[!pos] <= '9')) do incr pos done;
      if !pos = st then failwith "nest: int expected";
      Leaf (z_of_string (String.sub s st (!pos - st)))
    end
  in
  let r = plist () in
  if !pos <> n then failwith "nest: trailing";
  r

let rec show_nest (x : BinNums.coq_Z nest) : string =
  match x with
  | Leaf z -> string_of_z z
  | Node l -> show_nests l
and show_nests l = "[" ^ String.concat "," (SL.map show_nest l) ^ "]"

let show_zs l = "[" ^ String.concat "," (SL.map string_of_z l) ^ "]"

(* flat <level> <query result: list of per-subset lists> *)
let cmd_flat args =
  match args with
  | [lv; q] ->
    let qr = SL.map (fun x -> match x with Node l -> l | Leaf _ -> failwith "flat: subset must be a list")
               (parse_nest_list q) in
    (match flatten_data_values (z_of_string lv) qr with
     | R0 None -> "R0 None"
     | R0 (Some z) -> "R0 " ^ string_of_z z
     | R1 l -> "R1 " ^ show_zs l
     | R2 l -> "R2 [" ^ String.concat "," (SL.map show_zs l) ^ "]"
     | R4 l -> "R4 [" ^ String.concat "," (SL.map show_nests l) ^ "]")
  | _ -> failwith "flat"

let parse_seg (s : string) : seg =
  match String.split_on_char ':' s with
  | ["C"; x] -> Code (str_of_token x)
  | ["S"; x] -> SQ (str_of_token x)
  | ["D"; x] -> DQ (str_of_token x)
  | ["Mc"; x] -> Comment (str_of_token x, true)
  | ["Mo"; x] -> Comment (str_of_token x, false)
  | ["E"; x] -> Embed (str_of_token x)
  | _ -> failwith ("seg " ^ s)

(* segs s1 s2 ... -> <wf> <rendered source> | <spec code> <md> k=v ... *)
let cmd_segs args =
  let segs = SL.map parse_seg args in
  (if wf_segs segs then "1 " else "0 ") ^ token_of_str (render_all segs) ^ " | "
  ^ show_prep (spec_segments segs)

(* tables: isspace <c> / islb <c> *)
let cmd_isspace args =
  match args with
  | [c] -> if is_space (n_of_int (int_of_string c)) then "1" else "0"
  | _ -> failwith "isspace"
let cmd_islb args =
  match args with
  | [c] -> if is_linebreak (n_of_int (int_of_string c)) then "1" else "0"
  | _ -> failwith "islb"
let cmd_strip args =
  match args with
  | [s] -> token_of_str (strip (str_of_token s))
  | _ -> failwith "strip"
let cmd_splitlines args =
  match args with
  | [s] -> String.concat " " (SL.map token_of_str (splitlines (str_of_token s)))
  | _ -> failwith "splitlines"

(* vars <script> : prepare_variables with the query evaluation abstracted to the
   identity on the expression text, message = "M", file name = "F" (string tokens) *)
let cmd_vars args =
  match args with
  | [s] ->
    let (_, m) = process_embedded_query_expr (str_of_token s) in
    let vars = prepare_variables (fun k -> "Q" ^ token_of_str k) "M" "F" m in
    String.concat " " (SL.map (fun (n, v) -> token_of_str n ^ "=" ^ v) vars)
  | _ -> failwith "vars"

let () =
  register "vars" cmd_vars;
  register "prep" cmd_prep;
  register "level" cmd_level;
  register "pragma" cmd_pragma;
  register "flat" cmd_flat;
  register "segs" cmd_segs;
  register "isspace" cmd_isspace;
  register "islb" cmd_islb;
  register "strip" cmd_strip;
  register "splitlines" cmd_splitlines
