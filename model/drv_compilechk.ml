(* drv_compilechk.ml — the executable side condition of the compilation theorem (C08):
   okc08 / okc08nz / okc08any <template> : CompileChk.ok_c08 / ok_c08_nz / ok_c08_any *)
open Common

let cmd_ok f args =
  let (t, _) = Drv_coder.parse_template args in
  if f t then "true" else "false"

let () =
  register "okc08" (cmd_ok CompileChk.ok_c08);
  register "okc08nz" (cmd_ok CompileChk.ok_c08_nz);
  register "okc08any" (cmd_ok CompileChk.ok_c08_any)
