(* drv_specc.ml — the canonical layout of a COMPRESSED data section (SpecC.v):
     canonc <values> <template>   SpecC.canonical_bits_c and the shape of the columns
   output: ok <bits> <columns> | err k
   <columns>: one token per column, comma separated:
     n<w>.<wd>   numeric / code-flag column, element width w, increment width wd
     s<nb>.<wd>  character column of nb octets, increment width wd (octets)
     r<w>        203YYY reference value of w bits *)
open Common

let show_col (c : SpecC.column) : string =
  let fs = SpecC.col_fields c in
  let wd = match fs with
    | _ :: Bits.FUint (_, v) :: _ -> string_of_z v
    | _ -> "?" in
  match c with
  | SpecC.ColNum (w, _, _) -> "n" ^ string_of_z w ^ "." ^ wd
  | SpecC.ColStr (nb, _, _) -> "s" ^ string_of_z nb ^ "." ^ wd
  | SpecC.ColRef (w, _) -> "r" ^ string_of_z w

let cmd_canonc args =
  match args with
  | vals :: tmpl ->
    let (t, _) = Drv_coder.parse_template tmpl in
    let vs = Drv_coder.parse_subsets vals in
    (match SpecC.canonical_bits_c t vs with
     | Base.Err e -> err_string e
     | Base.Ok w ->
       let cols = match SpecC.layout_cols t vs with
         | Base.Ok (_, cols) -> cols
         | Base.Err _ -> [] in
       "ok " ^ Drv_coder.hexn_of_bits w ^ " " ^
       (if cols = [] then "-" else String.concat "," (SL.map show_col cols)))
  | _ -> failwith "canonc"

let () = register "canonc" cmd_canonc
