(* common.ml — glue between text lines and the extracted Coq datatypes.
   Numbers stay Coq's positive/N/Z/nat; this file converts decimal strings. *)
open BinNums
open Datatypes

module SL = Stdlib.List

let rec pos_of_int (i : int) : positive =
  if i <= 1 then Coq_xH
  else if i land 1 = 0 then Coq_xO (pos_of_int (i lsr 1))
  else Coq_xI (pos_of_int (i lsr 1))

let n_of_int (i : int) : coq_N = if i <= 0 then N0 else Npos (pos_of_int i)
let z_of_int (i : int) : coq_Z =
  if i = 0 then Z0 else if i > 0 then Zpos (pos_of_int i) else Zneg (pos_of_int (- i))

let rec nat_of_int (i : int) : nat = if i <= 0 then O else S (nat_of_int (i - 1))
let rec int_of_nat (n : nat) : int = match n with O -> 0 | S k -> 1 + int_of_nat k

(* arbitrary precision decimal <-> N, by schoolbook arithmetic on the extracted N *)
let n_ten = n_of_int 10
let n_of_string (s : string) : coq_N =
  let r = ref N0 in
  String.iter (fun c ->
    if c >= '0' && c <= '9' then
      r := BinNat.N.add (BinNat.N.mul !r n_ten) (n_of_int (Char.code c - 48))
    else failwith ("n_of_string: " ^ s)) s;
  !r

let z_of_string (s : string) : coq_Z =
  if String.length s > 0 && s.[0] = '-' then
    BinInt.Z.opp (BinInt.Z.of_N (n_of_string (String.sub s 1 (String.length s - 1))))
  else BinInt.Z.of_N (n_of_string s)

let rec int_of_pos (p : positive) : int =
  match p with Coq_xH -> 1 | Coq_xO q -> 2 * int_of_pos q | Coq_xI q -> 2 * int_of_pos q + 1
let int_of_n (n : coq_N) : int = match n with N0 -> 0 | Npos p -> int_of_pos p
let int_of_z (z : coq_Z) : int =
  match z with Z0 -> 0 | Zpos p -> int_of_pos p | Zneg p -> - (int_of_pos p)

(* decimal printing without overflow: repeated division by 10^9 *)
let n_1e9 = n_of_int 1_000_000_000
let string_of_n (n : coq_N) : string =
  let rec go n acc =
    let q = BinNat.N.div n n_1e9 and r = BinNat.N.modulo n n_1e9 in
    match q with
    | N0 -> string_of_int (int_of_n r) :: acc
    | _ -> go q (Printf.sprintf "%09d" (int_of_n r) :: acc)
  in
  String.concat "" (go n [])

let string_of_z (z : coq_Z) : string =
  match z with
  | Z0 -> "0"
  | Zpos p -> string_of_n (Npos p)
  | Zneg p -> "-" ^ string_of_n (Npos p)

let bits_of_string (s : string) : bool list =
  let l = ref [] in
  String.iter (fun c -> match c with
    | '0' -> l := false :: !l | '1' -> l := true :: !l
    | '-' -> () | _ -> failwith ("bits_of_string: " ^ s)) s;
  SL.rev !l

let string_of_bits (b : bool list) : string =
  if b = [] then "-" else
  let buf = Buffer.create 64 in
  SL.iter (fun x -> Buffer.add_char buf (if x then '1' else '0')) b;
  Buffer.contents buf

(* bytes as hex, "-" for empty *)
let bytes_of_hex (s : string) : coq_N list =
  if s = "-" then [] else
  let n = String.length s / 2 in
  SL.init n (fun i -> n_of_int (int_of_string ("0x" ^ String.sub s (2 * i) 2)))

let hex_of_bytes (l : coq_N list) : string =
  if l = [] then "-" else
  String.concat "" (SL.map (fun b -> Printf.sprintf "%02x" (int_of_n b)) l)

let split_on (c : char) (s : string) : string list =
  SL.filter (fun x -> x <> "") (String.split_on_char c s)

let err_string (e : Base.err) : string = "err " ^ string_of_int (int_of_n (Base.err_code e))

(* registry of commands: name -> (tokens -> output line) *)
let registry : (string, string list -> string) Hashtbl.t = Hashtbl.create 64
let register (name : string) (f : string list -> string) = Hashtbl.replace registry name f

let main () =
  (try
    while true do
      let line = input_line stdin in
      match split_on ' ' line with
      | [] -> print_endline ""
      | cmd :: args ->
        let out =
          match Hashtbl.find_opt registry cmd with
          | None -> "driver-error unknown-command " ^ cmd
          | Some f -> (try f args with
                       | Stack_overflow -> "driver-error stack-overflow"
                       | Failure m -> "driver-error " ^ m
                       | Not_found -> "driver-error not-found"
                       | Invalid_argument m -> "driver-error invalid-arg " ^ m)
        in
        print_endline out
    done
  with End_of_file -> ());
  flush stdout
