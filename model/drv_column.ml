(* drv_column.ml — commands over Column.v (C05) *)
open Common
open Column

let opt_list_of (f : string -> 'a) (s : string) : 'a option list =
  if s = "-" then [] else
  SL.map (fun t -> if t = "N" then None else Some (f t)) (String.split_on_char ',' s)

let zvals = opt_list_of z_of_string
let nvals = opt_list_of n_of_string
(* strings: hex per entry, "e" for the empty string, "N" for None *)
let svals = opt_list_of (fun t -> if t = "e" then [] else bytes_of_hex t)

let show_optn (l : BinNums.coq_N option list) : string =
  if l = [] then "-" else
  String.concat "," (SL.map (fun v -> match v with None -> "N" | Some x -> string_of_n x) l)

let show_strs (l : BinNums.coq_N list list) : string =
  if l = [] then "-" else
  String.concat "," (SL.map (fun v -> if v = [] then "e" else hex_of_bytes v) l)

let flag s = (s = "1")
let nat_of_string s = nat_of_int (int_of_string s)
let len_diff a b = string_of_int (SL.length a - SL.length b)

let show_w (r : bool list Base.result) : string =
  match r with Base.Err e -> err_string e | Base.Ok o -> "ok " ^ string_of_bits o

let show_dec show total r =
  match r with
  | Base.Err e -> err_string e
  | Base.Ok (vs, rest) -> "ok " ^ show vs ^ " " ^ len_diff total rest

let cmd_nbu args = match args with
  | [x] -> string_of_n (nbits_for_uint (n_of_string x))
  | _ -> failwith "nbu"

let cmd_minmax args = match args with
  | [vs] -> (match minmax (zvals vs) with
             | None -> "None"
             | Some (a, b) -> string_of_z a ^ " " ^ string_of_z b)
  | _ -> failwith "minmax"

(* encnum w ae vals : the bits appended after an empty prefix *)
let cmd_encnum args = match args with
  | [w; ae; vs] -> show_w (enc_col_num (z_of_string w) (flag ae) (zvals vs) [])
  | _ -> failwith "encnum"

let cmd_decnum args = match args with
  | [w; n; b] -> let b = bits_of_string b in
    show_dec show_optn b (dec_col_num (z_of_string w) (nat_of_string n) b)
  | _ -> failwith "decnum"

let cmd_deccf args = match args with
  | [w; dn; n; b] -> let b = bits_of_string b in
    show_dec show_optn b (dec_col_codeflag (z_of_string w) (z_of_string dn) (nat_of_string n) b)
  | _ -> failwith "deccf"

let cmd_specnum args = match args with
  | [w; n; b] -> let b = bits_of_string b in
    show_dec show_optn b (spec_dec_col_num (z_of_string w) (nat_of_string n) b)
  | _ -> failwith "specnum"

let cmd_laynum args = match args with
  | [w; wd; base; vs] ->
    string_of_bits (lay_col_num (z_of_string w) (z_of_string wd) (n_of_string base) (nvals vs))
  | _ -> failwith "laynum"

let b01 b = if b then "1" else "0"

(* colnum w ae vals suffix :
   encoded bits | model decoder on bits++suffix | independent reader | uncompressed
   fields read back | in the theorem's domain | expected view *)
let cmd_colnum args = match args with
  | [w; ae; vs; suf] ->
    let w = z_of_string w and ae = flag ae and vs = zvals vs and suf = bits_of_string suf in
    let n = Datatypes.length vs in
    let dom = b01 (col_dom_num w ae vs) ^ b01 (col_dom_onebit ae vs) in
    (match enc_col_num w ae vs [] with
     | Base.Err e -> err_string e ^ " | - | - | - | " ^ dom
     | Base.Ok e ->
       let s = Datatypes.app e suf in
       let unc = (match enc_fields_num w vs [] with
         | Base.Err e -> err_string e
         | Base.Ok u -> show_dec show_optn u (dec_fields_num w n u)) in
       "ok " ^ string_of_bits e ^ " | " ^ show_dec show_optn s (dec_col_num w n s)
       ^ " | " ^ show_dec show_optn s (spec_dec_col_num w n s)
       ^ " | " ^ unc ^ " | " ^ dom)
  | _ -> failwith "colnum"

(* colcf w dnbits ae vals suffix *)
let cmd_colcf args = match args with
  | [w; dn; ae; vs; suf] ->
    let w = z_of_string w and dn = z_of_string dn and ae = flag ae and vs = zvals vs
    and suf = bits_of_string suf in
    let n = Datatypes.length vs in
    let dom = b01 (col_dom_num w ae vs) ^ b01 (col_dom_onebit ae vs) in
    (match enc_col_codeflag w ae vs [] with
     | Base.Err e -> err_string e ^ " | - | - | " ^ dom
     | Base.Ok e ->
       let s = Datatypes.app e suf in
       let unc = (match enc_fields_num w vs [] with
         | Base.Err e -> err_string e
         | Base.Ok u -> show_dec show_optn u (dec_fields_num w n u)) in
       "ok " ^ string_of_bits e ^ " | " ^ show_dec show_optn s (dec_col_codeflag w dn n s)
       ^ " | " ^ unc ^ " | " ^ dom)
  | _ -> failwith "colcf"

let cmd_encstr args = match args with
  | [nb; ae; vs] -> show_w (enc_col_str (z_of_string nb) (flag ae) (svals vs) [])
  | _ -> failwith "encstr"

let cmd_decstr orig args = match args with
  | [nb; n; b] -> let b = bits_of_string b in
    show_dec show_strs b ((if orig then dec_col_str_orig else dec_col_str) (z_of_string nb) (nat_of_string n) b)
  | _ -> failwith "decstr"

(* colstr nbytes ae vals suffix :
   bits | repaired decoder | original decoder | uncompressed | dom, equal-NUL guard *)
let cmd_colstr args = match args with
  | [nb; ae; vs; suf] ->
    let nb = z_of_string nb and ae = flag ae and vs = svals vs and suf = bits_of_string suf in
    let n = Datatypes.length vs in
    let dom = b01 (col_dom_str nb ae vs) ^ b01 (is_equal_nul_col nb ae vs) in
    (match enc_col_str nb ae vs [] with
     | Base.Err e -> err_string e ^ " | - | - | - | " ^ dom
     | Base.Ok e ->
       let s = Datatypes.app e suf in
       let unc = (match enc_fields_str nb vs [] with
         | Base.Err e -> err_string e
         | Base.Ok u -> show_dec show_strs u (dec_fields_str nb n u)) in
       "ok " ^ string_of_bits e ^ " | " ^ show_dec show_strs s (dec_col_str nb n s)
       ^ " | " ^ show_dec show_strs s (dec_col_str_orig nb n s)
       ^ " | " ^ unc ^ " | " ^ dom)
  | _ -> failwith "colstr"

let cmd_encref args = match args with
  | [w; ae; v] ->
    show_w (enc_col_refval (z_of_string w) (flag ae)
              (if v = "N" then None else Some (z_of_string v)) [])
  | _ -> failwith "encref"

let cmd_decref args = match args with
  | [w; n; b] -> let b = bits_of_string b in
    (match dec_col_refval (z_of_string w) (nat_of_string n) b with
     | Base.Err e -> err_string e
     | Base.Ok (v, rest) -> "ok " ^ string_of_z v ^ " " ^ len_diff b rest)
  | _ -> failwith "decref"

(* anyw w dnbits wd base vals suffix : the spec-level layout with base and
   increment width wd, then the three readers on layout ++ suffix *)
let cmd_anyw args = match args with
  | [w; dn; wd; base; vs; suf] ->
    let w = z_of_string w and dn = z_of_string dn and wd = z_of_string wd
    and base = n_of_string base and vs = nvals vs and suf = bits_of_string suf in
    let n = Datatypes.length vs in
    let e = lay_col_num w wd base vs in
    let s = Datatypes.app e suf in
    string_of_bits e ^ " | " ^ show_dec show_optn s (dec_col_num w n s)
    ^ " | " ^ show_dec show_optn s (spec_dec_col_num w n s)
    ^ " | " ^ show_dec show_optn s (dec_col_codeflag w dn n s)
  | _ -> failwith "anyw"

let () =
  register "nbu" cmd_nbu;
  register "minmax" cmd_minmax;
  register "encnum" cmd_encnum;
  register "decnum" cmd_decnum;
  register "deccf" cmd_deccf;
  register "specnum" cmd_specnum;
  register "laynum" cmd_laynum;
  register "anyw" cmd_anyw;
  register "colnum" cmd_colnum;
  register "colcf" cmd_colcf;
  register "encstr" cmd_encstr;
  register "decstr" (cmd_decstr false);
  register "decstr0" (cmd_decstr true);
  register "colstr" cmd_colstr;
  register "encref" cmd_encref;
  register "decref" cmd_decref
