(* drv_stream.ml — commands over Stream.v (C11, stream half of C12) *)
open Common

let err_of_code (c : int) : Base.err =
  match c with
  | 1 -> Base.EBitRead | 2 -> Base.EUnknownDescriptor | 3 -> Base.EPathExpr
  | 4 -> Base.EMetadataExpr | 5 -> Base.EQuery | 6 -> Base.ELib | 7 -> Base.EAssert
  | 8 -> Base.EValue | 9 -> Base.EIndex | 10 -> Base.EKey | 11 -> Base.EType
  | 12 -> Base.EAttr | 13 -> Base.EStopIter | 14 -> Base.ENotImpl | 15 -> Base.EOther
  | _ -> failwith ("err code " ^ string_of_int c)

let tail1 (s : string) = String.sub s 1 (String.length s - 1)

(* "o<consumed>.<declared>" | "e<code>" *)
let parse_decode (s : string) : (BinNums.coq_N * BinNums.coq_N) Base.result =
  if s = "" then failwith "decode token" else
  match s.[0] with
  | 'o' -> (match String.split_on_char '.' (tail1 s) with
            | [c; d] -> Base.Ok (n_of_string c, n_of_string d)
            | _ -> failwith ("decode token " ^ s))
  | 'e' -> Base.Err (err_of_code (int_of_string (tail1 s)))
  | _ -> failwith ("decode token " ^ s)

(* "t" | "f" | "e<code>" | "-" (no filter in this case: never consulted) *)
let parse_filt (s : string) : bool Base.result =
  match s with
  | "t" -> Base.Ok true | "f" -> Base.Ok false | "-" -> Base.Err Base.EOther
  | _ when s <> "" && s.[0] = 'e' -> Base.Err (err_of_code (int_of_string (tail1 s)))
  | _ -> failwith ("filt token " ^ s)

(* "k" | "e<code>" *)
let parse_hook (s : string) : unit Base.result =
  match s with
  | "k" -> Base.Ok ()
  | _ when s <> "" && s.[0] = 'e' -> Base.Err (err_of_code (int_of_string (tail1 s)))
  | _ -> failwith ("hook token " ^ s)

(* off/full/info/filt/hookfull/hookinfo *)
let parse_entry (s : string) : Stream.entry =
  match String.split_on_char '/' s with
  | [off; f; i; fl; hf; hi] ->
    { Stream.en_off = n_of_string off; en_full = parse_decode f; en_info = parse_decode i;
      en_filt = parse_filt fl; en_hook_full = parse_hook hf; en_hook_info = parse_hook hi }
  | _ -> failwith ("entry " ^ s)

let flag (s : string) : bool =
  match s with "1" -> true | "0" -> false | _ -> failwith ("flag " ^ s)

(* scan <info_only> <continue_on_error> <use_filter> <hex stream> <entry>* :
   n=<k> <hex piece>,... end none|err <code> *)
let cmd_scan args =
  match args with
  | io :: coe :: fl :: hex :: entries ->
    let s = bytes_of_hex hex in
    let tbl = SL.map parse_entry entries in
    let (pieces, ending) = Stream.tbl_generate tbl (flag io) (flag coe) (flag fl) s in
    let ps = SL.map hex_of_bytes pieces in
    Printf.sprintf "n=%d %s end %s" (SL.length ps)
      (if ps = [] then "_" else String.concat "," ps)
      (match ending with None -> "none" | Some e -> err_string e)
  | _ -> failwith "scan"

(* find <hex sub> <hex s> <start> : position or -1 *)
let cmd_find args =
  match args with
  | [sub; s; start] ->
    (match Stream.find (bytes_of_hex sub) (bytes_of_hex s) (nat_of_int (int_of_string start)) with
     | None -> "-1"
     | Some i -> string_of_int (int_of_nat i))
  | _ -> failwith "find"

let () =
  register "scan" cmd_scan;
  register "sfind" cmd_find
